"""Regenerate the generated parts of DESIGN.md (between the GENERATED markers): fixes table, findings list, seeded table."""
import json, subprocess, glob, os, re
k = json.load(open('/verif/known_findings.json'))
fixed = {}
for line in k['fixed']:
    m = re.match(r'fixed: property=(C\d+) (\w+) (.*)', line)
    if m: fixed[m.group(2)] = (m.group(1), m.group(3))
log = subprocess.run(['git','-C','/repo','log','--reverse','--format=%h\t%s','3d6672d..HEAD'],capture_output=True,text=True).stdout.strip().split('\n')
out = []
out.append('Repaired (one `fix:` commit each in /repo; the pinned suite is unchanged, 7668/7668, after every commit; `tools/baseline_check.py`):\n')
out.append('| commit | what was wrong (commit subject) | property | how it showed |')
out.append('|---|---|---|---|')
for l in log:
    h, subj = l.split('\t', 1)
    p, what = fixed.get(h, ('', ''))
    out.append('| %s | %s | %s | %s |' % (h, subj.replace('fix: ', '').replace('|','/'), p, what.replace('|','/')[:260]))
out.append('')
out.append('Listed in `known_findings.json` (genuine, not repaired: the repair is not small and safe, or the existing suite relies on the behaviour):\n')
out.append('| id | property | site / predicate | what |')
out.append('|---|---|---|---|')
for e in k['findings']:
    out.append('| %s | %s | `%s` %s | %s |' % (e['id'], e['property'], e['site'], json.dumps(e.get('predicate', {})).replace('|','/'), e['what'].replace('|','/')[:300]))
open('/tmp/design_8_4.md','w').write('\n'.join(out)+'\n')
out = []
out.append('| seeded id | change | needs | detected by | not detected by | note |')
out.append('|---|---|---|---|---|---|')
for d in sorted(glob.glob('/verif/seeded/*/meta.json')):
    m = json.load(open(d))
    reg = m.get('last_regression', {}).get('results')
    det = ' '.join(m.get('caught_by', []))
    if reg:
        det = ' '.join(r.split(':')[0] for r in reg if 'DETECTED' in r) + ' (re-run %s)' % m['last_regression']['when']
        miss_reg = [r.split(':')[0] for r in reg if 'MISSED' in r]
        if miss_reg: det += ' REGRESSION-MISSED: ' + ' '.join(miss_reg)
    out.append('| %s | %s | %s | %s | %s | %s |' % (m['id'], m.get('summary','').replace('|','/')[:220], m.get('needs','').replace('|','/')[:200], det, ' '.join(m.get('missed_by_at_time_of_validation', [])), m.get('note','').replace('|','/')[:260]))
open('/tmp/design_8_5.md','w').write('\n'.join(out)+'\n')
print(len(log), 'fix commits;', len(k['findings']), 'findings;', len(glob.glob('/verif/seeded/*/meta.json')), 'seeded')

# splice into DESIGN.md
s = open('/verif/DESIGN.md').read()
for tag, path in (('8.4', '/tmp/design_8_4.md'), ('8.5', '/tmp/design_8_5.md')):
    a = s.index('<!-- GENERATED:%s' % tag); a = s.index('\n', a) + 1
    b = s.index('<!-- /GENERATED:%s -->' % tag)
    s = s[:a] + open(path).read() + s[b:]
open('/verif/DESIGN.md', 'w').write(s)
