"""print a compact summary of the violation classes in an evidence file: python tools/vsum.py C06 [maxlen]"""
import json, sys
pid = sys.argv[1]; n = int(sys.argv[2]) if len(sys.argv) > 2 else 220
c = json.load(open('/verif/evidence/%s.json' % pid))['coverage']
print('known:', c.get('known_findings_reproduced'))
for k, v in sorted(c['violation_classes'].items(), key=lambda kv: -kv[1]):
    print(v, k[:n])
