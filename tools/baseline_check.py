"""Run the pinned test suite (xdist) and compare the set of passing tests with /root/.vp/BASELINE.json.

usage: /venv/bin/python /verif/tools/baseline_check.py [repo_dir] [jobs]
"""
import json, os, subprocess, sys, tempfile, ast
import xml.etree.ElementTree as ET

repo = sys.argv[1] if len(sys.argv) > 1 else "/repo"
jobs = sys.argv[2] if len(sys.argv) > 2 else "12"
base = json.load(open("/root/.vp/BASELINE.json"))
stable = base["stable_pass"]
if isinstance(stable, str):
    stable = ast.literal_eval(stable)
stable = set(stable)
out = tempfile.mktemp(suffix=".xml", dir="/tmp")
env = dict(os.environ)
env.pop("FUNSOR_VERIF", None)
cmd = ["/venv/bin/python", "-m", "pytest", "-q", "-p", "no:cacheprovider", "--timeout=900",
       "--continue-on-collection-errors", "-n", jobs, "--junitxml=" + out]
r = subprocess.run(cmd, cwd=repo, env=env, capture_output=True, text=True)
print(r.stdout[-600:])
passed = set()
failed = set()
for tc in ET.parse(out).getroot().iter("testcase"):
    name = tc.get("classname", "") + "::" + tc.get("name", "")
    bad = any(ch.tag in ("failure", "error", "skipped") for ch in tc)
    (failed if bad else passed).add(name)
os.remove(out)
missing = sorted(stable - passed)
print("baseline stable=%d passed_now=%d missing_from_baseline=%d" % (len(stable), len(passed), len(missing)))
for m in missing[:40]:
    print("  MISSING", m, "(failed/skipped)" if m in failed else "(absent)")
sys.exit(1 if missing else 0)
