import re,sys,glob,json,os
res={}
for d in sorted(glob.glob('/tmp/mut*-C*/out/m*/validation.log')):
    mid=d.split('/')[2].replace('mut2-','R2:').replace('mut-','')+'-'+d.split('/')[4]
    txt=open(d).read()
    m=re.search(r'demo_clean_rc=(\d+) demo_patched_rc=(\d+) suite: (.*)',txt)
    checks=re.findall(r'check (C\d+) exit=(\d+) violations=(\d+)',txt)
    ok = bool(m) and m.group(1)=='0' and m.group(2)!='0' and 'missing_from_baseline=0' in m.group(3)
    res[mid]={'valid':ok,'caught':[c for c,e,v in checks if e=='1'],'missed':[c for c,e,v in checks if e=='0'],'other':[(c,e) for c,e,v in checks if e not in '01']}
for k,v in res.items(): print(k, 'VALID' if v['valid'] else 'INVALID', 'caught:',v['caught'],'missed:',v['missed'], v['other'] or '')
