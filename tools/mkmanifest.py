"""Regenerate /verif/MANIFEST.json from the table below (run: python3 tools/mkmanifest.py)."""
import json
import os

V = "/verif"

TEXT = {
    "C01": ("Bounded-exhaustive exploration of the program space: every term of the language L up to depth 2 (quick) / 3 (thorough) over a fixed leaf alphabet is built on the real library under the eager interpretation and compared at every point of its finite input space with an independent point-wise reference denotation; violations are localised to the minimal failing sub-term.",
            "explicit enumeration of all programs up to a depth bound, executed on the implementation and compared with a reference model on the whole finite input space", "3 C01"),
    "C02": ("Transition monitor over all executions of a bounded-exhaustive program corpus: every firing of a registered rewrite rule of eager/normalize/lazy/sequential/unfold/optimize is intercepted and decided by comparing the reference denotation of the un-built (cls, args) pair with that of the rule's result at every point of the joint input space.",
            "exhaustive program enumeration with an invariant checked on every transition (rule firing) of every execution", "3 C02"),
    "C03": ("Every term of the corpus x every nesting (depth <= 2/3) of {lazy, reflect, normalize, memoize()} x both reinterpreters, plus sequential and moment_matching, plus a second worker pool with FUNSOR_TYPECHECK=1 FUNSOR_USE_TCO=1: completed results must have the eager build's output domain and the reference table; memoize identity and stale-result checks over all ordered pairs of a term pool sharing one cache; multi-name and chained substitutions into sums / products.",
            "exhaustive enumeration of programs x configurations, differential against the eager build and a reference model", "3 C03"),
    "C04": ("Every f of a pool covering all term kinds of L x ALL substitution maps from a per-input value menu (numbers, index tensors over fresh/own/colliding names, fresh/colliding/swapped/diagonal variables, slices, expressions, ignored keys) x 5 (build, apply) interpretation modes, plus chained-vs-fused pairs, each decided on its whole input space against the literal simultaneous-substitution semantics.",
            "exhaustive enumeration of (term, substitution map, mode) triples against a reference model", "3 C04"),
    "C05": ("All nestings (depth 2/3) of binder constructors over a two-leaf body x ALL assignments of three equally sized names to binder and free slots, sibling binders, self-substitution, under 4 interpretations, against the lexically scoped reference; renaming differential for binders outside L.",
            "exhaustive enumeration of binder nestings x name-coincidence patterns", "3 C05"),
    "C06": ("(a) type monitor on every term of the corpus: declared inputs/output of the reflect/lazy term equal the reference typing exactly; evaluated results keep the output domain, data shape and integer range; (b) the op catalogue exhaustively: find_domain vs the op's actual shape for every operand shape of rank <= 2/3 and every parameter value, integer ranges decided over all operand values.",
            "exhaustive enumeration of programs and of (op, operand domains, parameters) triples", "3 C06"),
    "C07": ("Explicit-state search (BFS with canonical-state de-duplication) over histories of construct / drop / gc / pickle / deepcopy / copy / reinterpret / realloc / switch-interpretation events on a pool of term recipes sharing array slots, driven on the real intern tables and compared after every event with a dict model (identity <=> equal keys, weak holding, no stale entries).",
            "explicit-state BFS over operation histories on the real objects against a reference model", "3 C07"),
    "C08": ("All semiring expressions of the listed shapes x operand input-sets x every reduced subset x 7 semirings, evaluated by 4 routes (naive, normalize, unfold, apply_optimizer) + normalize idempotence; all einsum equations (<= 3 operands, <= 3/4 symbols) x 3 back ends x 3 entry points, against brute-force tables.",
            "exhaustive enumeration of expressions / equations against a brute-force reference", "3 C08"),
    "C09": ("All plated factor graphs within the bounds x every eliminate set x every two-call split x semirings x plate scales, through sum_product / partial_sum_product / modified / dynamic variants / plated einsum, against brute-force unrolling; outcome must be the equal table or ValueError.",
            "exhaustive enumeration of factor graphs against a brute-force unrolled reference", "3 C09"),
    "C10": ("All durations x state-pair sizes x batch inputs x dependence subsets x segment counts x 5 semirings through sequential / naive / mixed sum-product and MarkovProduct (eager, lazy+reinterpret, renamed), all lag sets for sarkka_bilmes_product, deep log-space data and real-parameter forms with two tensor leaves, against the explicit left-to-right fold.",
            "exhaustive enumeration of inputs against an explicit fold reference", "3 C10"),
    "C11": ("All sum-product expressions with 1-4/5 leaf tensors over {a:2,b:3,c:2,d:1} (flat, nested, renamed / sliced / index-substituted / concatenated / twice-used leaves, plates incl. semiring-zero cells) x reduced subsets x 2 semirings x optimizer routes: forward value and every leaf's adjoint against the brute-force indicator-derivative of the joint table.",
            "exhaustive enumeration of expressions against a brute-force derivative of the joint table", "3 C11"),
    "C12": ("All Gaussian signatures (1-3 real inputs of shapes ()..(2,2), 0-2 batch inputs, every interleaving, ranks 0..2*dim+1) x every variant of each pointwise operation family (add, real/int/slice/index/rename/affine substitution, align, rank compression, Cat, 3x4 constructor parametrisations) composed to depth 2/3, plus histories that reuse one live value across operations, evaluated on the unisolvent lattice against the dense quadratic form.",
            "exhaustive enumeration of signatures x operations against a dense reference, decided on a unisolvent point set", "3 C12"),
    "C13": ("All full-rank Gaussian signatures x every subset of real inputs marginalised in one step / two steps / around pointwise evaluation, log-normaliser, plate sums, mixture reductions, Integrate against variables and Gaussians, moment matching of 2-6 component mixtures, rank-deficient negative cases, and histories on ONE live Gaussian (every cached-property touch followed by every operation, with and without an intervening substitution), against dense closed forms (Schur complement, logdet, moments).",
            "exhaustive enumeration of signatures x operations against closed forms", "3 C13"),
    "C14": ("Delta grammar (points, log-densities, substituted values, integrands, substitution of every invertible transform, their compositions and chains against textbook Jacobians) enumerated exhaustively against the point-mass semantics; Tensor sampling explored as environment answers: every prescribed uniform draw placed in every CDF interval, on every boundary, at 0.0 and nextafter(1,0), 0 then 1 (quick) then 2 (thorough) deviations from the default draw, checking support, selected cell, mass identity, inputs and determinism; Gaussian sampling with prescribed noise (0, unit vectors): affine in the noise with the dense conditional mean and covariance.",
            "deviation-bounded exhaustive enumeration of environment answers (random draws) and exhaustive input enumeration against closed forms", "3 C14"),
    "C15": ("Every entry of UNITS, DISTRIBUTIVE_OPS, BINARY/SAFE_BINARY/UNARY_INVERSES, PRODUCT_TO_POWER on an exact-arithmetic operand grid restricted to the op's carrier; every op on every pair of operand forms (Python scalar, numpy scalar, 0-d, arrays up to (3,2)); limit behaviour of logaddexp/logsumexp/log-space einsum with -inf in every position; no-NaN of the safe ops.",
            "exhaustive enumeration of table entries x operand grid against exact arithmetic", "3 C15"),
    "C16": ("Subtype axioms on all pairs/triples of a type pool drawn from every registered signature; for every registry key every synthesised argument-type tuple: the dispatched rule is a minimal matching signature; dispatch is independent of cache state, first-use order and bounded permutations of the registration order; explicit-state search over register / dispatch / cache-clear histories on fresh dispatcher objects (depth 4-6) against the reference match over the signatures registered so far; equal values with different nested element types passed to deep_type in every order.",
            "exhaustive enumeration of type tuples / registration orders against a reference most-specific-match computation", "3 C16"),
    "C17": ("Explicit-state BFS over enter/exit/raise/probe histories of 10 interpretations (with-blocks, decorators, exceptions caught k levels up, library-internal pushes) on the real global stack, compared after every event with a Python-list model; un-merged cross-check of the canonicalisation.",
            "explicit-state BFS over operation/fault histories on the real stack against a list model", "3 C17"),
    "C18": ("All lazy expressions of the compiler fragment up to depth 2/3 (including non-commutative ops and shared sub-expressions) x bindings: compiled program, printed source, pickled program and traced programs against an independent evaluator; missing/unexpected inputs must be rejected.",
            "exhaustive enumeration of programs against a reference evaluator", "3 C18"),
    "C19": ("All arrays of rank 0-4/5 x event ranks x dim-to-name maps x dtypes round-tripped through to_funsor/to_data; every permutation of <= 4 inputs for align on 6 term kinds; align_tensor(s) on all tensor pairs; materialize on a pool of lazy integer terms; aligned terms as operands of enclosing unary / binary / reduce expressions; all against own index arithmetic.",
            "exhaustive enumeration of inputs against reference index arithmetic", "3 C19"),
    "C20": ("Immutability monitor over a mixed corpus run as one long-lived history per worker: fingerprints of every leaf array and held funsor re-checked after every program; second pass with read-only arrays turning in-place writes into located errors.",
            "exhaustive program enumeration with a state invariant checked after every operation of a long history", "3 C20"),
}
NOTE = "Trusted: the Python/numpy reference models under fv/ref (unit-tested in /verif/tests), the generic fill for real contents, the stated tolerances; numpy backend only; bounds as reported in the evidence file."

BUILT = [p for p in sorted(TEXT) if os.path.exists("%s/fv/props/%s.py" % (V, p.lower()))]
REGISTER = os.environ.get("FV_REGISTER", "").split() or BUILT

checks = []
for pid in REGISTER:
    text, tech, ref = TEXT[pid]
    checks.append({
        "property_id": pid,
        "quick_cmd": "/venv/bin/python -m fv.run %s --tier quick" % pid,
        "thorough_cmd": "/venv/bin/python -m fv.run %s --tier thorough" % pid,
        "evidence_file": "/verif/evidence/%s.json" % pid,
        "replay_cmd_template": "/venv/bin/python -m fv.replay {path}",
        "engine": "fv",
        "level_claimed": {"category": "model_checking", "text": text, "design_ref": "DESIGN.md " + ref},
        "level_note": NOTE,
        "technique": tech,
    })
allp = ["C%02d" % i for i in range(1, 21)]
na = [{"property_id": p, "reason": "check not registered yet (under construction; planned in DESIGN.md section 3)"} for p in allp if p not in REGISTER]
m = {
    "version": 1,
    "setup_cmd": "cd /verif && /venv/bin/python -m compileall -q fv && /venv/bin/python -m pytest -q -p no:cacheprovider tests",
    "hooks": {
        "guard": "FUNSOR_VERIF",
        "enable": "checks export FUNSOR_VERIF=1 themselves; no hook code exists in /repo (every observation point is reachable from outside: dispatch attributes, np.random, _STACK, weak dictionaries, flags.writeable)",
        "baseline_off_cmd": "cd /repo && /venv/bin/python -m pytest -ra -q -p no:cacheprovider --timeout=900 --continue-on-collection-errors",
        "source_commits": [],
        "add_only": True,
    },
    "engines": [{"name": "fv", "path": "/verif/fv", "serves_properties": REGISTER,
                 "kind_free_text": "hand-written bounded-exhaustive explorers (program space, operation histories, environment answers) driving the real library against Python reference models; 16 long-lived worker processes"}],
    "checks": checks,
    "not_applicable": na,
    "notes": "see DESIGN.md; known findings in known_findings.json; seeded mutants in seeded/",
}
json.dump(m, open(V + "/MANIFEST.json", "w"), indent=1)
print("registered:", " ".join(REGISTER))
