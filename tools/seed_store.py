"""Store a validated seeded change under /verif/seeded/<id>/.

usage: python3 tools/seed_store.py <mutant_dir> <seeded_id> "<caught_by PIDs>" "<missed_by PIDs>" [note]
Reads <mutant_dir>/{patch.diff,demo.py,meta.json,validation.log}."""
import json, os, shutil, sys

d, sid, caught, missed = sys.argv[1:5]
note = sys.argv[5] if len(sys.argv) > 5 else ""
out = "/verif/seeded/" + sid
os.makedirs(out, exist_ok=True)
shutil.copy(os.path.join(d, "patch.diff"), out)
shutil.copy(os.path.join(d, "demo.py"), out)
meta = json.load(open(os.path.join(d, "meta.json")))
val = open(os.path.join(d, "validation.log")).read() if os.path.exists(os.path.join(d, "validation.log")) else ""
meta.update({
    "id": sid,
    "origin": "written by an independent sub-agent that saw only the property text and its own scratch worktree of /repo",
    "what_i_ran": [
        "git -C /repo worktree add --detach /tmp/wt-val-%s HEAD; git apply patch.diff" % sid,
        "PYTHONPATH=<worktree> /venv/bin/python demo.py   (exit 0 on the clean tree, non-zero with the patch)",
        "/venv/bin/python /verif/tools/baseline_check.py <worktree> 8   (pinned suite: missing_from_baseline=0 with the patch)",
        "FV_REPO=<worktree> /venv/bin/python -m fv.run <PID> --tier quick   for the checks listed below",
        "git -C /repo worktree remove --force <worktree>",
    ],
    "validation_log": val.strip().split("\n"),
    "caught_by": caught.split(),
    "missed_by_at_time_of_validation": missed.split(),
    "note": note,
})
json.dump(meta, open(os.path.join(out, "meta.json"), "w"), indent=1)
print("stored", out)
