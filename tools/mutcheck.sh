#!/bin/bash
# usage: tools/mutcheck.sh <patch.diff> <PID> [PID...]   -- run quick checks against a scratch worktree with the patch applied
# evidence/replays of these runs go to /tmp/mutcheck-out (never into /verif)
set -u
patch="$1"; shift
wt=/tmp/wt-mutcheck-$$
git -C /repo worktree add --detach "$wt" HEAD >/dev/null 2>&1 || { echo "worktree failed"; exit 2; }
if ! git -C "$wt" apply "$patch"; then echo "PATCH DOES NOT APPLY"; git -C /repo worktree remove --force "$wt"; exit 2; fi
mkdir -p /tmp/mutcheck-out
for pid in "$@"; do
  out=$(cd /verif && FV_REPO="$wt" FV_EVIDENCE_DIR=/tmp/mutcheck-out FV_REPLAY_DIR=/tmp/mutcheck-out/replays timeout 3000 /venv/bin/python -W ignore -m fv.run "$pid" --tier "${TIER:-quick}" 2>&1)
  rc=$?
  nviol=$(echo "$out" | grep -c "^VIOLATION")
  echo "== $pid exit=$rc violations=$nviol"
  echo "$out" | grep "site=" | cut -c1-260 | head -${SHOW:-3}
done
git -C /repo worktree remove --force "$wt"
