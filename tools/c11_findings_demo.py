import numpy as np
from collections import OrderedDict as OD
import funsor
from funsor import ops, Tensor, Bint
from funsor.terms import Cat
from funsor.interpretations import reflect
from funsor.adjoint import adjoint
from funsor.optimizer import apply_optimizer
funsor.set_backend('numpy')
A = Tensor(np.array([[1., 2., 3.], [4., 5., 6.]]), OD(i=Bint[2], j=Bint[3]))
C = Tensor(np.array([10., 100.]), OD(k=Bint[2]))
# 1. adjoint through a substitution when the cotangent has an input the leaf lacks (root input k)
with reflect:
    e = A(i='z') * C
print(1, adjoint(ops.add, ops.mul, e)[A])          # actual: Tensor([100., 100.], {i})  = C[k=1]
#    expected C(k) = [10, 100] with input k (what the same expression without the renaming returns) or its sum 110
# 2. plate over an operand with a zero cell
V = Tensor(np.array([0., 2., 3.]), OD(j=Bint[3]))
with reflect:
    e = V.reduce(ops.mul, 'j')
print(2, adjoint(ops.add, ops.mul, e)[V])          # actual [0, 0, 0]; expected [6, 0, 0]
# 3. inner reduction binds a name that is free in the root
t1 = Tensor(np.array([2., 3.]), OD(a=Bint[2])); t2 = Tensor(np.array(5.)); t3 = Tensor(np.array([7., 11.]), OD(a=Bint[2]))
with reflect:
    e = t1 * (t2 * t3).reduce(ops.add, 'a')
print(3, adjoint(ops.add, ops.mul, e)[t2])         # actual [14, 33] = t1(a)*t3(a); expected [36, 54] = t1(a)*(7+11)
# 4. optimizer + the same name bound twice
u2 = Tensor(np.array([7., 11.]), OD(a=Bint[2])); u3 = Tensor(np.array([1., 10., 100.]), OD(b=Bint[3]))
with reflect:
    e = apply_optimizer((t1 * (u2 * u3).reduce(ops.add, 'a')).reduce(ops.add, 'a'))
print(4, adjoint(ops.add, ops.mul, e)[t1])         # actual u2(a)*u3(b); expected 18*u3(b) for both a
# 5. Cat part lacking an input of the other part
p1 = Tensor(np.array([2.]), OD(a=Bint[1])); p2 = Tensor(np.array([[1., 2., 3.]]), OD(a=Bint[1], b=Bint[3])); s = Tensor(np.array(10.))
with reflect:
    e = (Cat('a', (p1, p2)) * s).reduce(ops.add, frozenset(['a', 'b']))
print(5, adjoint(ops.add, ops.mul, e)[p1])         # actual 10; expected 30 (p1 is broadcast over b:3)
# 6. optimizer distributes a plate product over factors lacking the plate variable
w1 = Tensor(np.array([2., 3.]), OD(a=Bint[2])); w2 = Tensor(np.array([[1., 2.], [3., 4.], [5., 6.]]), OD(b=Bint[3], c=Bint[2]))
with reflect:
    e0 = (w1 * w2).reduce(ops.mul, frozenset(['a', 'b']))
    e = apply_optimizer(e0)
print(6, adjoint(ops.add, ops.mul, e0)[w1], adjoint(ops.add, ops.mul, e)[w1])   # without optimizer: right; with: 1/3 of it
