#!/bin/bash
# Re-run, for every seeded change under /verif/seeded, the quick checks named in its meta.json "caught_by" (or the ones
# given on the command line) against a scratch worktree of /repo HEAD with the patch applied.  Prints one line per
# (seeded id, check): DETECTED / MISSED, and rewrites meta.json["last_regression"].
# usage: tools/check_seeded.sh [seeded_id ...]
set -u
cd /verif
ids="$@"; [ -z "$ids" ] && ids=$(ls seeded)
for sid in $ids; do
  d=/verif/seeded/$sid
  pids=$(python3 -c "import json;print(' '.join(json.load(open('$d/meta.json')).get('caught_by',[])))")
  [ -z "$pids" ] && pids=$(python3 -c "import json;print(json.load(open('$d/meta.json'))['property'])")
  wt=/tmp/wt-seeded-$sid
  git -C /repo worktree add --detach "$wt" HEAD >/dev/null 2>&1 || { echo "$sid worktree failed"; continue; }
  if ! git -C "$wt" apply "$d/patch.diff" 2>/dev/null; then echo "$sid PATCH-DOES-NOT-APPLY (repo HEAD moved)"; git -C /repo worktree remove --force "$wt"; continue; fi
  res=""
  for pid in $pids; do
    out=$(FV_REPO="$wt" FV_EVIDENCE_DIR=/tmp/mutcheck-out FV_REPLAY_DIR=/tmp/mutcheck-out/replays timeout 3000 /venv/bin/python -W ignore -m fv.run "$pid" --tier quick 2>&1); rc=$?
    if [ $rc -eq 1 ] && echo "$out" | grep -q "^VIOLATION"; then r=DETECTED; else r="MISSED(rc=$rc)"; fi
    echo "$sid $pid $r"
    res="$res $pid:$r"
  done
  python3 - "$d/meta.json" "$res" <<'PY'
import json,sys,time
p,res=sys.argv[1],sys.argv[2]
m=json.load(open(p)); m["last_regression"]={"when":time.strftime("%Y-%m-%dT%H:%MZ",time.gmtime()),"results":res.split()}
json.dump(m,open(p,"w"),indent=1)
PY
  git -C /repo worktree remove --force "$wt"
done
