#!/bin/bash
# usage: tools/validate_mutant.sh <mutant_dir with patch.diff demo.py meta.json> <seeded_id> <PID> [PID...]
# Confirms: demo passes on clean HEAD, fails with the patch; repo test-suite unchanged with the patch; runs the quick checks.
set -u
dir="$1"; sid="$2"; shift 2
wt=/tmp/wt-val-$sid
log="$dir/validation.log"
: > "$log"
git -C /repo worktree add --detach "$wt" HEAD >/dev/null 2>&1 || { echo "worktree failed" | tee -a "$log"; exit 2; }
cd "$wt"
PYTHONPATH="$wt" timeout 600 /venv/bin/python "$dir/demo.py" >/dev/null 2>&1; clean_rc=$?
if ! git apply "$dir/patch.diff"; then echo "PATCH DOES NOT APPLY" | tee -a "$log"; cd /; git -C /repo worktree remove --force "$wt"; exit 2; fi
PYTHONPATH="$wt" timeout 600 /venv/bin/python "$dir/demo.py" >/dev/null 2>&1; mut_rc=$?
suite=$(cd "$wt" && timeout 3000 /venv/bin/python /verif/tools/baseline_check.py "$wt" ${JOBS:-8} 2>&1 | grep "baseline stable")
echo "demo_clean_rc=$clean_rc demo_patched_rc=$mut_rc suite: $suite" | tee -a "$log"
mkdir -p /tmp/mutcheck-out
for pid in "$@"; do
  out=$(cd /verif && FV_REPO="$wt" FV_EVIDENCE_DIR=/tmp/mutcheck-out FV_REPLAY_DIR=/tmp/mutcheck-out/replays timeout 3000 /venv/bin/python -W ignore -m fv.run "$pid" --tier quick 2>&1)
  rc=$?
  echo "check $pid exit=$rc violations=$(echo "$out" | grep -c '^VIOLATION') :: $(echo "$out" | grep 'site=' | head -1 | cut -c1-200)" | tee -a "$log"
done
cd /
git -C /repo worktree remove --force "$wt"
