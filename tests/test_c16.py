"""Hand-computed checks of the C16 reference model (fv/ref/dispatch.py).  No funsor import: the generic family is
modelled by a tiny parametrising metaclass of the same shape (``__args__``, ``__origin__``, ``_type_cache``)."""
import typing

from fv.ref import dispatch as ref

T, U, F, A = typing.Tuple, typing.Union, typing.FrozenSet, typing.Any


class Meta(type):
    def __init__(cls, name, bases, dct):
        super().__init__(name, bases, dct)
        if not hasattr(cls, "__args__"):
            cls.__args__ = ()
        if cls.__args__:
            cls.__origin__ = bases[0]
        else:
            cls._type_cache = {}

    def __getitem__(cls, args):
        if not isinstance(args, tuple):
            args = (args,)
        if args not in cls._type_cache:
            cls._type_cache[args] = type(cls)(cls.__name__, (cls,), {"__args__": args})
        return cls._type_cache[args]


class Term(metaclass=Meta):
    def __init__(self, *vals):
        self._ast_values = vals


class Leaf(Term):
    pass


class Node(Term):
    pass


def d(t):
    return ref.describe(t)


def sub(a, b):
    return ref.sub(d(a), d(b))


def test_describe():
    assert d(A) == ("any",) and d(object) == ("any",)
    assert d(tuple) == d(T) == ("tuple*",)
    assert d(frozenset) == d(F) == ("fset*",)
    assert d(T[int, str]) == ("tuple", (("cls", int), ("cls", str)))
    assert d(T[int, ...]) == ("vtuple", ("cls", int))
    assert d(F[int]) == ("fset", ("cls", int))
    assert d(U[int, str]) == ("union", (("cls", int), ("cls", str)))
    assert d(Leaf) == ("gen", Leaf, None)
    assert d(Leaf[int, object]) == ("gen", Leaf, (("cls", int), ("any",)))
    assert ref.text(d(T[Leaf[int], ...])).startswith("Tuple[")
    try:
        d(typing.List[int])
        assert False
    except ref.Unsupported:
        pass


def test_sub_tuples():
    assert sub(T[bool, str], T[int, str]) is True
    assert sub(T[int, str], T[bool, str]) is False
    assert sub(T[int], T[int, int]) is False  # arity
    assert sub(T[int, int], T[int, ...]) is True
    assert sub(T[int, str], T[int, ...]) is False  # every element, not some element
    assert sub(T[bool, ...], T[int, ...]) is True
    assert sub(T[int, ...], T[int, int]) is False
    assert sub(T[int, int], tuple) is True and sub(T[int, ...], T) is True
    assert sub(tuple, T[A, ...]) is True  # bare tuple == Tuple[Any, ...]
    assert sub(tuple, T[A]) is False and sub(tuple, T[A, int]) is False
    assert sub(tuple, T[int, ...]) is False
    assert sub(int, T[int]) is False and sub(T[int], F[int]) is False


def test_sub_union_any_fset():
    assert sub(U[int, str], U[str, int, float]) is True
    assert sub(U[int, float], U[int, str]) is False
    assert sub(bool, U[int, str]) is True
    assert sub(int, A) is True and sub(A, int) is False and sub(A, A) is True
    assert sub(T[U[int, str]], U[T[int], T[str]]) is False  # structural, not semantic
    assert sub(F[bool], F[int]) is True and sub(F[int], F[bool]) is False
    assert sub(frozenset, F[A]) is True and sub(frozenset, F[int]) is False
    assert sub(F[int], frozenset) is True


def test_sub_generic_family():
    assert sub(Leaf, Term) is True and sub(Term, Leaf) is False
    assert sub(Leaf[int, str], Leaf) is True
    assert sub(Leaf, Leaf[int, str]) is False  # unparametrised is the top of its family
    assert sub(Leaf[bool, str], Leaf[int, A]) is True
    assert sub(Leaf[int, str], Leaf[int]) is False
    assert sub(Leaf[int], Term[int]) is True
    assert sub(Leaf[int], Node[int]) is False
    assert sub(U[Leaf, Node], Term) is True
    assert sub(Leaf[int], int) is False and sub(int, Leaf) is False
    assert sub(T[Leaf[int], Node], T[Term, ...]) is True


def test_member():
    m = lambda v, t: ref.member(v, d(t))  # noqa: E731
    assert m((1, "a"), T[int, str]) is True and m((1, "a"), T[int, ...]) is False
    assert m((), T[int, ...]) is True and m((), T[A]) is False and m((), tuple) is True
    assert m(frozenset(), F[int]) is True and m(frozenset([1, "a"]), F[int]) is False
    assert m(True, U[int, str]) is True and m(1.5, U[int, str]) is False
    assert m(Leaf(1, "a"), Leaf[int, str]) is True
    assert m(Leaf(1, "a"), Leaf[str, str]) is False
    assert m(Leaf(1, "a"), Term) is True and m(Leaf(1), Node) is False
    assert m((Leaf(1), Node(2)), T[Term[int], ...]) is True
    assert m((Leaf(1), Node("x")), T[Term[int], ...]) is False


def sig(*fixed, var=None):
    return (tuple(d(t) for t in fixed), None if var is None else tuple(d(t) for t in var))


def test_signatures_and_decide():
    default = sig(var=[A])
    s_tt = sig(int, Term, Term)
    s_lt = sig(int, Leaf, Term)
    s_tl = sig(int, Term, Leaf)
    s_ll = sig(bool, Leaf, Leaf)
    s_var = sig(int, var=[Term])
    types = lambda *ts: tuple(d(t) for t in ts)  # noqa: E731
    assert ref.sig_matches(types(), default) and ref.sig_matches(types(int, str), default)
    assert ref.sig_matches(types(int, Leaf[int], Node), s_lt) and not ref.sig_matches(types(int, Node, Node), s_lt)
    assert ref.sig_matches(types(int), s_var) and ref.sig_matches(types(bool, Leaf, Node, Leaf), s_var)
    assert not ref.sig_matches(types(bool, Leaf, int), s_var) and not ref.sig_matches(types(), s_var)
    assert ref.sig_leq(s_lt, s_tt) and not ref.sig_leq(s_tt, s_lt)
    assert not ref.sig_leq(s_lt, s_tl) and not ref.sig_leq(s_tl, s_lt)
    assert ref.sig_leq(s_tt, s_var) and not ref.sig_leq(s_var, s_tt)
    assert ref.sig_leq(s_var, default) and ref.sig_leq(s_ll, default) and not ref.sig_leq(default, s_var)
    table = [(default, "d"), (s_tt, "tt"), (s_lt, "lt"), (s_tl, "tl"), (s_var, "v")]
    # unique most specific
    matching, minimal = ref.decide(types(int, Leaf, Node), table)
    assert matching == [0, 1, 2, 4] and minimal == [2]
    # true ambiguity: two incomparable minimal signatures
    matching, minimal = ref.decide(types(int, Leaf, Leaf), table)
    assert matching == [0, 1, 2, 3, 4] and minimal == [2, 3]
    # adding the meet resolves it
    matching, minimal = ref.decide(types(bool, Leaf, Leaf), table + [(s_ll, "ll")])
    assert minimal == [5]
    # only the default
    assert ref.decide(types(str), table) == ([0], [0])
    assert ref.decide(types(int, Leaf), table) == ([0, 4], [4])


def test_member_conservative():
    m = lambda v, t: ref.member(v, d(t), conservative=True)  # noqa: E731
    assert m((), T[int, ...]) is False and m((), T[A, ...]) is True and m((), tuple) is True
    assert m(frozenset(), F[int]) is False and m(frozenset(), F[A]) is True and m(frozenset(), frozenset) is True
    mixed = frozenset([Leaf(1), Leaf("a")])
    assert m(mixed, F[Leaf]) is True  # one class: element-wise
    mixed2 = frozenset([Leaf[int](1), Leaf[str]("a")])
    assert ref.member(mixed2, d(F[Leaf[object]])) is True  # exact reading
    assert m(mixed2, F[Leaf[object]]) is False  # recorded as FrozenSet[Leaf]
    assert m(mixed2, F[Term]) is True
    assert m((Leaf(()),), T[Leaf[T[int, ...]]]) is False and ref.member((Leaf(()),), d(T[Leaf[T[int, ...]]])) is True


def test_plain_classes_and_abcs():
    import collections.abc as cabc

    assert sub(T[int, str], cabc.Sequence) is True and sub(T[int, ...], cabc.Hashable) is True
    assert sub(tuple, cabc.Sized) is True and sub(F[int], cabc.Set) is True and sub(frozenset, cabc.Sequence) is False
    assert sub(T[int], cabc.Mapping) is False and sub(T[int], int) is False
    assert sub(T[T[int], str], T[cabc.Sequence, cabc.Hashable]) is True
    assert sub(Leaf[int], cabc.Hashable) is True and sub(Leaf[int], cabc.Sequence) is False
    assert ref.member((1, 2), d(cabc.Sequence)) is True and ref.member(frozenset([1]), d(cabc.Sequence)) is False
    s_seq = sig(cabc.Sequence)
    s_tup = sig(T[Term, ...])
    assert ref.sig_leq(s_tup, s_seq) and not ref.sig_leq(s_seq, s_tup)
    types = (d(T[Leaf, Node]),)
    assert ref.decide(types, [(sig(var=[A]), 0), (s_seq, 1), (s_tup, 2)]) == ([0, 1, 2], [2])
    assert ref.decide((d(T[int, int]),), [(sig(var=[A]), 0), (s_seq, 1), (s_tup, 2)]) == ([0, 1], [1])


def test_typeof_and_to_typing():
    assert ref.typeof(((0, 1),)) == d(T[T[int, int]])
    assert ref.typeof(((0.0, 1.0),)) == d(T[T[float, float]])
    assert ((0, 1),) == ((0.0, 1.0),) and ref.typeof(((0, 1),)) != ref.typeof(((0.0, 1.0),))
    assert ref.typeof((False, frozenset([0.0]))) == d(T[bool, F[float]])
    assert ref.typeof(()) == ("tuple*",) and ref.typeof(frozenset()) == ("fset*",)
    assert ref.typeof(frozenset([(0,), (1.5,)])) is None
    assert ref.typeof(Leaf(1, ("a",))) == ("gen", Leaf, (("cls", int), d(T[str])))
    for t in (T[T[int, int]], T[bool, F[float]], T[int, ...], U[int, str], tuple, frozenset, int):
        assert d(ref.to_typing(d(t))) == d(t)
