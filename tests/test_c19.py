"""Hand-computed checks of the C19 reference arithmetic (no funsor rule is involved in any of them)."""
import sys

import numpy as np

sys.path.insert(0, "/repo")
from fv.props import c19  # noqa: E402


def test_strides_and_pack():
    assert c19.batch_strides([2, 3, 4, 5], 3) == [12, 4, 1]  # the event dim (5) is a block
    assert c19.batch_strides([7], 0) == []
    # dims are counted from the right end of the BATCH shape: shape (2,1,3 | 5), -3 -> size 2, -1 -> size 3
    assert c19.ref_pack([2, 1, 3, 5], 3, {-3: "a", -1: "b"}) == [("a", 2, 0), ("b", 3, 2)]
    # a named unit dim is dropped; an unnamed unit dim is fine
    assert c19.ref_pack([2, 1, 3, 5], 3, {-3: "a", -2: "c", -1: "b"}) == [("a", 2, 0), ("b", 3, 2)]
    # an unnamed non-unit dim is not representable
    assert c19.ref_pack([2, 1, 3, 5], 3, {-3: "a"}) is None
    # a key that only fits if counted from the right end of the FULL shape names nothing
    assert c19.ref_pack([2, 5], 1, {-2: "a"}) is None


def test_unpack_layout():
    x = np.arange(6.0).reshape(2, 3)
    xb = x.reshape(6)
    packed = [("a", 2, 0), ("b", 3, 1)]
    r = c19.ref_unpack(xb, [2, 3], 2, packed, {"a": -2, "b": -1})
    assert r.shape == (2, 3) and np.array_equal(r, x)
    r = c19.ref_unpack(xb, [2, 3], 2, packed, {"a": -1, "b": -2})
    assert r.shape == (3, 2) and np.array_equal(r, x.T)
    r = c19.ref_unpack(xb, [2, 3], 2, packed, {"a": -1, "b": -3})
    assert r.shape == (3, 1, 2) and r[2, 0, 1] == x[1, 2] == 5.0
    # with an event dim: blocks move as a whole
    x = np.arange(12.0).reshape(2, 3, 2)
    r = c19.ref_unpack(x.reshape(6, 2), [2, 3, 2], 2, packed, {"a": -1, "b": -2})
    assert r.shape == (3, 2, 2) and np.array_equal(r[2, 1], x[1, 2])
    # nothing packed: the single event block
    assert np.array_equal(c19.ref_unpack(np.arange(3.0).reshape(1, 3), [1, 1, 3], 2, [], {}), np.arange(3.0))


def test_same_layout():
    x = np.arange(6.0).reshape(1, 2, 1, 3)
    assert c19.same_layout(x.reshape(2, 1, 3), x, 0)  # leading unit dims may be dropped
    assert not c19.same_layout(x.reshape(2, 3), x, 0)  # an inner unit dim may not: it shifts dim -3
    assert not c19.same_layout(x.reshape(1, 2, 1, 3)[:, ::-1], x, 0)
    assert c19.same_layout(x.reshape(2, 1, 3), x, 1)
    assert not c19.same_layout(np.arange(6.0).reshape(3, 2), np.arange(6.0).reshape(2, 3), 0)
    assert c19.same_layout(np.float64(2.0), np.array(2.0).reshape(1, 1), 0)
    # event dims are never stripped
    assert not c19.same_layout(np.zeros((3,)), np.zeros((1, 3)), 2)


def test_check_aligned():
    A = np.array([[0.0, 1.0, 2.0], [3.0, 4.0, 5.0]])  # inputs (a:2, b:3)
    sizes = {"a": 2, "b": 3, "c": 2}
    good = A.T.reshape(3, 1, 2)  # against (b, c, a)
    assert c19._check_aligned(good, A, ["a", "b"], [], ["b", "c", "a"], sizes, 0) is None
    bad = A.T.reshape(3, 2, 1)  # the unit dim is in a's place: broadcasts (c:2 == a:2) but to the wrong cells
    assert c19._check_aligned(bad, A, ["a", "b"], [], ["b", "c", "a"], sizes, 0)[0] == "value"
    assert c19._check_aligned(A, A, ["a", "b"], [], ["b", "c", "a"], sizes, 0)[0] == "not-broadcastable"
    assert c19._check_aligned(good, A, ["a", "b"], [], ["b", "c", "a"], sizes, 1)[0] == "not-expanded"


def test_slices_and_terms():
    assert c19.slice_args(["S1", "i", 3]) == (0, 3, 1, 3)
    assert c19.slice_args(["S3", "i", 1, 5, 2]) == (1, 5, 2, 5)
    assert c19.mat_inputs(["S", "i", 1, 6, 2, 7]) == {"i": 3}  # 1, 3, 5
    assert c19.mat_inputs(["S", "i", 0, 5, 1, 3]) == {"i": 3}  # stop is clipped to the dtype
    assert [c19.mat_den(["S", "i", 1, 6, 2, 7], {"i": k}, 0) for k in range(3)] == [1, 3, 5]
    t = ["B", "mod", ["B", "add", ["V", "i", 3], ["V", "j", 2]], ["N", 2, 3]]
    assert c19.mat_inputs(t) == {"i": 3, "j": 2}
    assert c19.mat_den(t, {"i": 2, "j": 1}, 0) == 1
    assert c19.mat_den(["I", [2, 0, 1], 3, ["V", "i", 3]], {"i": 0}, 0) == 2


def test_al_references():
    # binary: t1 over the first half of the order, t2 over the second half, sharing the middle name
    assert c19._split(["a", "b", "c", "d"]) == (["a", "b"], ["b", "c", "d"])
    assert c19._split(["a", "b", "c"]) == (["a", "b"], ["b", "c"])
    assert c19._split(["a"]) == (["a"], ["a"])
    src, doms, ref, real = c19.al_build("tensor_e0", ["b", "a"], 0)
    A = c19.lang.generic_fill(1, (3, 2), 0)
    assert ref({"a": 1, "b": 2}) == A[2, 1]
    src, doms, ref, real = c19.al_build("gaussian", ["x", "a"], 0)
    ints, reals, ps, wv = ref.gauss
    assert ps.shape == (2, 1, 1) and wv.shape == (2, 1)
    v = 0.7
    assert abs(ref({"a": 1, "x": np.array(v)}) - (-0.5 * (v * ps[1, 0, 0] - wv[1, 0]) ** 2)) < 1e-12


def test_enumeration_sizes():
    assert len(c19.ordered_subsets("abcd")) == 65
    # rank <= 4, sizes 1..3: the round-trip shapes, event ranks and name subsets of the design prototype (2719)
    n = sum(1 for c in c19.rt_cases("quick") if c[0] == "rt" and c[3] == "real" and [x[1] for x in c[4]] == sorted(x[1] for x in c[4]))
    assert n == 2719
