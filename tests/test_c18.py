"""Hand-computed checks of the C18 reference model (fv.ref.c18lang) and of the enumeration."""
import numpy as np
import pytest

from fv.ref import c18lang as L

A, B, C, D = L.V("a"), L.V("b"), L.V("c"), L.V("d")
ENV = {
    "a": np.array(2.0),
    "b": np.array([1.0, 4.0]),
    "c": np.array([[1.0, 2.0, 3.0], [4.0, 5.0, 6.0]]),
    "d": np.array([1.0, 0.5, 2.0]),
    "i": np.array(1),
    "j": np.array(2),
}


def ev(e):
    return L.ref_eval(e, ENV, 0)


def test_typing():
    assert L.ty(("b", "sub", A, B)) == ("real", (2,))
    assert L.ty(("b", "matmul", C, D)) == ("real", (2,))
    assert L.ty(("b", "matmul", B, C)) == ("real", (3,))
    assert L.ty(("b", "matmul", D, D)) == ("real", ())
    assert L.ty(("u", "sum", 0, C)) == ("real", (3,))
    assert L.ty(("u", "sum", -1, C)) == ("real", (2,))
    assert L.ty(("u", "getslice", (("s", None, None, None), 1), C)) == ("real", (2,))
    assert L.ty(("b", ("getitem", 1), C, L.I("j"))) == ("real", (2,))
    assert L.ty(("tup", (A, C))) == ("tuple", ((), (2, 3)))
    assert not L.well_typed(("b", "sub", B, D))  # (2,) and (3,) do not broadcast
    assert not L.well_typed(("b", ("getitem", 0), C, L.I("j")))  # Bint[3] index into an axis of size 2
    assert not L.well_typed(("b", "matmul", C, B))
    assert not L.well_typed(("u", "sum", None, A))
    assert not L.well_typed(("b", "sub", A, L.I("i")))  # funsor types only add/mul of a real with a bint


def test_non_commutative_operand_order():
    assert np.allclose(ev(("b", "sub", A, B)), [1.0, -2.0])
    assert np.allclose(ev(("b", "sub", B, A)), [-1.0, 2.0])
    assert np.allclose(ev(("b", "truediv", A, B)), [2.0, 0.5])
    assert np.allclose(ev(("b", "pow", A, B)), [2.0, 16.0])
    assert np.allclose(ev(("b", "pow", B, A)), [1.0, 16.0])
    assert np.allclose(ev(("b", "floordiv", B, A)), [0.0, 2.0])
    assert np.allclose(ev(("b", "mod", ("num", 2.5), B)), [0.5, 2.5])
    assert np.allclose(ev(("b", "matmul", C, D)), [8.0, 18.5])
    assert np.allclose(ev(("b", "matmul", B, C)), [17.0, 22.0, 27.0])
    assert np.allclose(ev(("b", ("getitem", 0), C, L.I("i"))), [4.0, 5.0, 6.0])
    assert np.allclose(ev(("b", ("getitem", 1), C, L.I("j"))), [3.0, 6.0])
    assert np.allclose(ev(("b", ("getitem", 0), B, ("numi", 1, 2))), 4.0)
    assert np.allclose(ev(("b", "mul", L.I("j"), A)), 4.0)


def test_unary_and_parametrised():
    assert np.allclose(ev(("u", "neg", None, B)), [-1.0, -4.0])
    assert np.allclose(ev(("u", "sqrt", None, B)), [1.0, 2.0])
    assert np.allclose(ev(("u", "sigmoid", None, ("num", 0.0))), 0.5)
    assert np.allclose(ev(("u", "sum", None, C)), 21.0)
    assert np.allclose(ev(("u", "sum", 0, C)), [5.0, 7.0, 9.0])
    assert np.allclose(ev(("u", "sum", -1, C)), [6.0, 15.0])
    assert np.allclose(ev(("u", "reshape", (3, 2), C)), [[1, 2], [3, 4], [5, 6]])
    assert np.allclose(ev(("u", "getslice", (("s", None, None, None), 1), C)), [2.0, 5.0])
    assert np.allclose(ev(("u", "getslice", ("...", 0), C)), [1.0, 4.0])
    assert np.allclose(ev(("u", "getslice", (("s", 1, None, None),), D)), [0.5, 2.0])


def test_shared_tuple_contraction():
    s = ("b", "sub", A, B)
    assert np.allclose(ev(("b", "truediv", s, s)), [1.0, 1.0])
    t = ev(("tup", (s, ("u", "neg", None, s))))
    assert isinstance(t, tuple) and np.allclose(t[0], [1.0, -2.0]) and np.allclose(t[1], [-1.0, 2.0])
    assert np.allclose(ev(("con", "add", (A, B, A))), [5.0, 8.0])
    assert np.allclose(ev(("con", "mul", (A, B))), [2.0, 8.0])
    e = ("b", "sub", ("u", "exp", None, A), ("b", "mul", ("u", "exp", None, A), B))
    assert len(L.postorder(e)) == 5 and L.tree_size(e) == 7 and L.has_shared_op(e)
    assert [x[1] for x in L.inputs_of(("b", "sub", B, ("b", "add", A, B)))] == ["b", "a"]
    assert L.n_ops(("con", "add", (A, B, A))) == 2


def test_undefined_points_are_reported():
    for e in [
        ("u", "log", None, ("u", "neg", None, A)),
        ("u", "sqrt", None, ("u", "neg", None, A)),
        ("b", "truediv", A, ("b", "sub", A, A)),
        ("b", "pow", ("u", "neg", None, A), B),
        ("u", "exp", None, ("u", "exp", None, ("u", "exp", None, ("b", "mul", ("num", 4.0), A)))),
    ]:
        with pytest.raises(L.Undefined):
            ev(e)


def test_constants_and_bindings_follow_the_seed_only_in_fill():
    t = ("ten", 1, (2,))
    assert ev(t).shape == (2,) and not np.allclose(L.ref_eval(t, {}, 0), L.ref_eval(t, {}, 1))
    ins = [A, L.I("i"), L.I("j")]
    bs = L.bindings(ins, 0, fills=2)
    assert len(bs) == 2 * 2 * 3
    assert sorted({(int(b["i"]), int(b["j"])) for b in bs}) == [(i, j) for i in range(2) for j in range(3)]
    assert not np.allclose(bs[0]["a"], bs[-1]["a"])


def test_close_and_conditioning():
    assert L.close(np.array([1.0 + 5e-8]), np.array([1.0]))
    assert not L.close(np.array([1.0 + 5e-7]), np.array([1.0]))
    assert not L.close(np.array([1.0, 1.0]), np.array(1.0))  # shapes must agree
    assert not L.close(np.array(np.nan), np.array(1.0))
    assert L.close((np.array(1.0), np.array([2.0])), (np.array(1.0), np.array([2.0])))
    assert not L.close(np.array(1.0), (np.array(1.0),))
    e = ("b", "sub", A, B)
    assert L.well_conditioned(e, ENV, 0, ev(e))
    near = ("b", "truediv", A, ("b", "sub", ("b", "add", A, ("num", 1e-9)), A))  # 2 / ((2 + 1e-9) - 2)
    assert not L.well_conditioned(near, ENV, 0, ev(near))


def test_enumeration_is_deterministic_and_contains_the_dag_shapes():
    from fv.props import c18

    es = c18.expressions("quick")
    assert es == c18.expressions("quick") and len(set(es)) == len(es)
    s = ("b", "sub", A, B)
    assert ("b", "truediv", s, s) in es
    assert ("b", "sub", B, A) in es and ("b", "sub", A, B) in es
    assert all(L.well_typed(e) for e in es)
    assert all(L.depth(e) <= 2 for e in es if e not in c18.dag_shapes())
    assert [L.depth(e) for e in es[:4]] == [0, 0, 0, 0]  # simplest first
    # core alphabet, depth 2, no pruning: every binary over every pair of level-<=1 terms is there
    neg_a = ("u", "neg", None, A)
    for x in (neg_a, ("b", "truediv", B, A), ("con", "add", (A, B))):
        for y in (A, ("num", 2.5), ("b", "sub", A, B)):
            assert ("b", "sub", x, y) in es and ("b", "truediv", y, x) in es


def test_trace_function_source():
    from fv.props import c18

    e = ("u", "sum", 0, ("b", "sub", C, D))
    src, consts, used_kw = c18.fn_source(e, "kw", "left", 0, (C, D))
    assert "ops.sum(t2, axis=0)" in src and used_kw and not consts
    src, consts, used_kw = c18.fn_source(e, "inst", "left", 1, (D, C))
    assert src.splitlines()[0] == "def fn(d, c):" and "ops.SumOp(0)(t2)" in src and "dead_ = ops.exp(d)" in src and not used_kw
    e = ("b", "sub", ("u", "neg", None, A), ("u", "exp", None, B))
    left = c18.fn_source(e, "inst", "left", 0, (A, B))[0].splitlines()
    right = c18.fn_source(e, "inst", "right", 0, (A, B))[0].splitlines()
    assert "neg" in left[1] and "exp" in right[1]


def test_shape_ops_on_python_scalars_are_outside_the_fragment():
    assert not L.well_typed(("u", "reshape", (1,), ("num", 2.5)))
    assert not L.well_typed(("u", "reshape", (1,), ("u", "neg", None, ("num", 2.5))))
    assert L.well_typed(("u", "reshape", (1,), A)) and L.ty(("u", "reshape", (1,), A)) == ("real", (1,))


def test_keyword_orders():
    from fv.props import c18

    assert c18.keyword_orders([]) == [[]]
    assert c18.keyword_orders(["x", "y"]) == [["x", "y"], ["y", "x"]]
    assert len(c18.keyword_orders(["x", "y", "z"])) == 6 and c18.keyword_orders(["x", "y", "z"])[0] == ["x", "y", "z"]
    assert c18.keyword_orders(list("wxyz")) == [list("wxyz"), list("zyxw"), list("xyzw")]
