"""Hand-computed checks of the C14 reference pieces (inverse CDF, layout, dense Gaussian conditionals, Delta
reference semantics) and a smoke test of the driver on a few cases of every family."""
import math
import sys

import numpy as np

sys.path.insert(0, "/repo")
sys.path.insert(0, "/verif")

import funsor  # noqa: E402

funsor.set_backend("numpy")

from fv.props import c14  # noqa: E402

NEG = float("-inf")


def test_logsumexp():
    assert abs(c14.ref_logsumexp(np.log([1.0, 2.0, 5.0])) - math.log(8.0)) < 1e-12
    assert c14.ref_logsumexp([NEG, NEG]) == NEG
    assert abs(c14.ref_logsumexp([NEG, 3.0]) - 3.0) < 1e-12


def test_layout_row_major_joint_index():
    # inputs a:2, b:3, c:2 ; sampled {a, c} (mask 0b101): batch = [b], event = [a, c], rows = 3, cells = 4
    batch, event, B, n = c14.t_layout((2, 3, 2), 0b101)
    assert (batch, event, B, n) == ([1], [0, 2], 3, 4)
    # cell (a=1, b=2, c=0) has flat position 1*6 + 2*2 + 0 = 10; row = b = 2; column = a*2 + c = 2
    assert c14.t_cell_of((2, 3, 2), 0b101, 10) == (2, 2)
    # sampled {b} only: rows enumerate (a, c) row-major: (a=1, c=0) -> row 2 ; column = b
    assert c14.t_cell_of((2, 3, 2), 0b010, 10) == (2, 2)
    assert c14.t_cell_of((2, 3, 2), 0b010, 11) == (3, 2)


def test_alternatives_and_draw_values():
    assert c14.t_alts(3, set()) == [["m", 0], ["m", 1], ["m", 2], ["b", 0], ["b", 1], ["z"], ["t"]]
    assert c14.t_alts(3, {0})[0] == ["m", 1]  # default answer: first NON-EMPTY interval
    c = np.array([0.25, 0.25, 1.0])  # weights 1, 0, 3
    assert c14.t_draw_value(["m", 0], c, 3) == 0.125
    assert c14.t_draw_value(["m", 2], c, 3) == 0.625
    assert c14.t_draw_value(["b", 1], c, 3) == 0.25
    assert c14.t_draw_value(["b", 2], c, 3) == c14.TOP  # never 1.0
    assert c14.t_draw_value(["z"], c, 3) == 0.0 and c14.t_draw_value(["t"], c, 3) < 1.0


def test_accepted_cells():
    c = np.array([0.25, 0.25, 1.0])
    empty = [False, True, False]
    assert c14.t_accepted(0.125, c, empty) == [0]
    assert c14.t_accepted(0.625, c, empty) == [2]
    assert c14.t_accepted(0.25, c, empty) == [0, 2]  # boundary: either neighbour, never the empty cell
    assert c14.t_accepted(0.0, c, empty) == [0]
    # leading empty cell: 0.0 belongs to the first non-empty cell
    assert c14.t_accepted(0.0, np.array([0.0, 0.5, 1.0]), [True, False, False]) == [1]
    # CDF rounded below the draw: last non-empty cell
    assert c14.t_accepted(c14.TOP, np.array([0.5, 1.0 - 2.0 ** -52, 1.0 - 2.0 ** -52]), [False, False, True]) == [1]


def test_reference_table_of_a_tensor_case():
    st = c14.t_setup([2, 3], 0b10, 1, [], 0)  # sample b, batch a, -inf at flat position 1 = (a=0, b=1)
    assert st["B"] == 2 and st["n"] == 3
    assert st["empty"] == [[False, True, False], [False, False, False]]
    row0 = st["rows"][0]
    assert row0[1] == NEG
    w = np.exp(row0[[0, 2]])
    assert abs(st["cdf"][0][0] - w[0] / w.sum()) < 1e-15 and st["cdf"][0][1] == st["cdf"][0][0]
    assert abs(st["mass"][0] - math.log(w.sum())) < 1e-12


def test_dense_gaussian_conditional_by_hand():
    # f(x, y) = -1/2 [x y] P [x y]' + eta'[x y] with P = [[2, 1], [1, 3]], eta = (1, 2): prec_sqrt = chol(P), white = L^-1 eta
    P = np.array([[2.0, 1.0], [1.0, 3.0]])
    L = np.linalg.cholesky(P)
    eta = np.array([1.0, 2.0])
    wv = np.linalg.solve(L, eta)
    st = {"P": P[None], "eta": eta[None], "c": np.array([-0.5 * wv @ wv])}
    cov, mean, mass = c14.g_reference(st, 0, [0], [1])
    assert abs(cov[0, 0] - 0.5) < 1e-15
    assert abs(mean(np.array([4.0]))[0] - (1.0 - 4.0) / 2.0) < 1e-15  # (eta_x - P_xy y) / P_xx
    # integral over x of exp(-x^2 + (1 - y) x) = sqrt(pi) exp((1-y)^2/4); remaining: -3/2 y^2 + 2 y + c
    y = 0.3
    want = -0.5 * wv @ wv - 1.5 * y * y + 2 * y + (1 - y) ** 2 / 4 + 0.5 * math.log(math.pi)
    assert abs(mass(np.array([y])) - want) < 1e-12
    # full block: log normaliser = c + 1/2 eta' P^-1 eta + log(2 pi) - 1/2 log det P
    cov2, mean2, mass2 = c14.g_reference(st, 0, [0, 1], [])
    assert np.allclose(mean2(np.zeros(0)), np.linalg.solve(P, eta))
    want = -0.5 * wv @ wv + 0.5 * eta @ np.linalg.solve(P, eta) + math.log(2 * math.pi) - 0.5 * math.log(5.0)
    assert abs(mass2(np.zeros(0)) - want) < 1e-12


def test_mids():
    m = c14.m_mids(np.log([1.0, 1.0, 2.0]))
    assert np.allclose(m, [0.125, 0.375, 0.75])


def test_delta_reference_pool_values():
    A = c14.d_arrays(0)
    pool = {c["code"]: c for c in c14.d_pool("r0", A)}
    assert pool["x * x + 1.0"]["ref"]({"x": 2.0}) == 5.0
    assert pool["x * tb"]["ref"]({"x": 2.0, "b": 1}) == 2.0 * A["TB"][1]
    pool = {c["code"]: c for c in c14.d_pool("i3", A)}
    assert pool["tci"]["ref"]({"i": 2, "c": 0}) == A["TCI"][0, 2]
    assert abs(pool["tic.reduce(ops.logaddexp, 'c')"]["ref"]({"i": 1}) - math.log(np.exp(A["TIC"][1]).sum())) < 1e-12
    pool = {c["code"]: c for c in c14.d_pool("r2", A)}
    assert pool["z[1] * 2.0 + z[0]"]["ref"]({"z": np.array([1.0, 3.0])}) == 7.0
    assert c14.d_match(np.array([1.0, 2.0]), np.array([1.0, 2.0])) and not c14.d_match(np.array([1.0, 2.0]),
                                                                                        np.array([1.0, 2.5]))


def test_owned_source_detects_unprescribed_requests():
    c14.install_source()
    c14.SOURCE.prescribe([("rand", np.zeros((2,)))])
    assert np.random.rand(2).shape == (2,)
    assert c14.SOURCE.exhausted()
    c14.SOURCE.prescribe([("rand", np.zeros((2,)))])
    try:
        np.random.rand(3)
        raise AssertionError("shape mismatch not detected")
    except c14.UnownedRandomness:
        pass
    try:
        np.random.uniform()
        raise AssertionError("foreign entry point not detected")
    except c14.UnownedRandomness:
        pass


def test_smoke_driver():
    outs = []
    for case in (
        ["D", "subs", "r0", "t0", "t0", "part_b"],
        ["D", "reduce", "i3", "tb", "zero", 1],
        ["D", "integrate", "r2", "t0", "t0", 20],
        ["D", "mreduce", "add", "tb", "t0", "t0", "zero", "x", 0],
        ["D", "chain", "reduce_x_f"],
        ["T", [2, 3], 3, -1, [2], [[1, "m", 4]], 1],
        ["T", [3, 2], 1, 2, [], [[1, "b", 1]], 1],
        ["G", [[], [2]], 1, 1, 2, "e2"],
        ["G", [[2]], -1, 0, 1, "rp"],
        ["M", "mix", [], "ix", [2], [2, 0], 1],
        ["M", "mc", "ac", [2], [[3, 2]]],
    ):
        out = c14.check(case, 0)
        outs.append((case, out["status"], out.get("why")))
    assert all(st == "ok" for _, st, _ in outs), outs


def test_case_lists_are_deterministic_and_jsonable():
    import json

    a = c14.cases("quick")
    b = c14.cases("quick")
    assert a == b and len(a) > 50000
    json.dumps(a[:1000] + a[-1000:])
