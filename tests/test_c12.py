"""Hand-computed checks of the C12 reference (fv.ref.gauss: dense quadratic form, point-wise composition, lattice)
and a smoke test of the driver on the real library."""
import itertools
import sys

import numpy as np

sys.path.insert(0, "/repo")
sys.path.insert(0, "/verif")

from fv.ref import gauss as G  # noqa: E402

X2 = (("x", "r", (2,)),)
XS = (("x", "r", ()),)


def put(gid, inputs, rank, w, s, seed=0):
    """Install a hand-written leaf in the reference's leaf cache; returns its expression."""
    e = ("G", gid, inputs, rank)
    G._CACHE[("GD", gid, inputs, rank, seed)] = G.Dense.from_sqrt(inputs, np.array(w, float), np.array(s, float))
    return e


def pt(**kw):
    """single point: every real value gets the leading axis of points"""
    return {k: (np.asarray(v, float)[None] if not isinstance(v, int) else v) for k, v in kw.items()}


def test_dense_from_sqrt_by_hand():
    # S = [[1,2],[0,1]], w = [1,0]:  f(x) = -1/2 |x S - w|^2 ;  at x = (1,1): x S = (1,3), minus w = (0,3) -> -4.5
    d = G.Dense.from_sqrt(X2, [1.0, 0.0], [[1.0, 2.0], [0.0, 1.0]])
    assert np.allclose(d.P, [[5.0, 2.0], [2.0, 1.0]])
    assert np.allclose(d.eta, [1.0, 0.0]) and np.isclose(d.c, -0.5)
    assert np.isclose(d.value_at({"x": np.array([1.0, 1.0])}), -4.5)
    assert np.isclose(d.value_at({"x": np.array([0.0, 0.0])}), -0.5)
    # maximum is 0 at x = w S^-1 = (1, -2)
    assert np.isclose(d.value_at({"x": np.array([1.0, -2.0])}), 0.0)


def test_rank_zero_and_rank_deficient_and_wide():
    d0 = G.Dense.from_sqrt(X2, np.zeros(0), np.zeros((2, 0)))
    assert d0.value_at({"x": np.array([3.0, -1.0])}) == 0.0
    # rank 1 in dim 2: S = [[1],[1]], w = [2]: f = -1/2 (x0 + x1 - 2)^2
    d1 = G.Dense.from_sqrt(X2, [2.0], [[1.0], [1.0]])
    assert np.isclose(d1.value_at({"x": np.array([3.0, -1.0])}), 0.0)
    assert np.isclose(d1.value_at({"x": np.array([1.0, 0.0])}), -0.5)
    # wide, dim 1 rank 3: S = [[1,2,2]], w = [1,0,1]: f(x) = -1/2((x-1)^2 + 4x^2 + (2x-1)^2); f(1) = -1/2(0+4+1)
    d3 = G.Dense.from_sqrt(XS, [1.0, 0.0, 1.0], [[1.0, 2.0, 2.0]])
    assert np.isclose(d3.value_at({"x": np.array(1.0)}), -2.5)
    assert np.isclose(d3.value_at({"x": np.array(0.0)}), -1.0)


def test_batch_index_and_interleaved_real_order():
    ins = (("x", "r", ()), ("i", "b", 2), ("y", "r", ()))
    # batch 0: -1/2 (x - 1)^2 ; batch 1: -1/2 (y - 2)^2   (concatenation order is x then y whatever i's position)
    s = np.array([[[1.0], [0.0]], [[0.0], [1.0]]])
    w = np.array([[1.0], [2.0]])
    d = G.Dense.from_sqrt(ins, w, s)
    assert np.isclose(d.value_at({"x": np.array(3.0), "y": np.array(5.0), "i": 0}), -2.0)
    assert np.isclose(d.value_at({"x": np.array(3.0), "y": np.array(5.0), "i": 1}), -4.5)


def test_vectorised_points_match_single_points():
    w, s = G.sqrt_params(3, (("x", "r", (2,)), ("i", "b", 2), ("y", "r", ())), 2, 0)
    d = G.Dense.from_sqrt((("x", "r", (2,)), ("i", "b", 2), ("y", "r", ())), w, s)
    xs = np.array([[0.1, 0.2], [0.3, -0.4], [1.0, 2.0]])
    ys = np.array([0.5, -0.6, 0.7])
    vals = d.value({"x": xs, "y": ys, "i": 1})
    for j in range(3):
        v = np.concatenate([xs[j], [ys[j]]])
        byhand = -0.5 * np.sum((v @ s[1] - w[1]) ** 2)
        assert np.isclose(vals[j], byhand)


def test_generator_is_well_conditioned_and_orthogonal():
    for n in range(1, 7):
        q = G.orthogonal(7, n, 0)
        assert np.allclose(q @ q.T, np.eye(n), atol=1e-12)
    for dim, rank in itertools.product(range(1, 6), range(0, 12)):
        s = G.sqrt_factor(11, dim, rank, 1)
        assert s.shape == (dim, rank)
        sv = np.linalg.svd(s, compute_uv=False)
        m = min(dim, rank)
        assert np.all(sv[:m] >= 1 - 1e-9) and np.all(sv[:m] <= 3 + 1e-9)
    # different seeds give different data, same structure
    assert not np.allclose(G.sqrt_factor(11, 2, 2, 0), G.sqrt_factor(11, 2, 2, 1))


def test_constructor_dense_forms():
    ins = (("i", "b", 2), ("x", "r", (2,)))
    mp = G.moment_params(5, ins, 0)
    for idx in range(2):
        assert np.allclose(mp["covariance"][idx] @ mp["precision"][idx], np.eye(2), atol=1e-10)
        L = mp["scale_tril"][idx]
        assert np.allclose(L @ L.T, mp["covariance"][idx]) and np.allclose(L, np.tril(L))
    for scale in ("precision", "covariance", "scale_tril"):
        kw, d = G.constructor_args(5, ins, "mean", scale, 2, 0)
        assert set(kw) == {"mean", scale}
        for idx in range(2):
            mu = mp["mean"][idx]
            # canonical (un-normalised) form: 0 at the mean, -1/2 Prec[0,0] one unit step away along e_0
            assert np.isclose(d.value_at({"i": idx, "x": mu}), 0.0, atol=1e-12)
            assert np.isclose(d.value_at({"i": idx, "x": mu + [1.0, 0.0]}), -0.5 * mp["precision"][idx][0, 0])
        kw, d = G.constructor_args(5, ins, "info_vec", scale, 2, 0)
        for idx in range(2):
            eta = mp["info_vec"][idx]
            # -1/2 x'Px + x'eta - 1/2 eta' Sigma eta : at x = 0 only the constant is left; maximum 0 at the mean
            assert np.isclose(d.value_at({"i": idx, "x": np.zeros(2)}), -0.5 * eta @ mp["covariance"][idx] @ eta)
            assert np.isclose(d.value_at({"i": idx, "x": mp["mean"][idx]}), 0.0, atol=1e-10)
    assert not G.valid_parametrisation("white_vec", "precision", 2, 2)
    assert not G.valid_parametrisation("info_vec", "prec_sqrt", 2, 1)
    assert G.valid_parametrisation("mean", "prec_sqrt", 2, 1)
    n_valid = sum(G.valid_parametrisation(a, b, 2, 2) for a in G.LOCS for b in G.SCALES)
    assert n_valid == 9  # 3 x 4 minus white_vec with the three non-prec_sqrt scales


def test_composition_substitution_by_hand():
    g = put(90, XS, 1, [1.0], [[2.0]])  # f(x) = -1/2 (2x - 1)^2
    assert np.isclose(G.ev(g, pt(x=1.0), 0), -0.5)
    # x = 2y - 1 at y = 1 -> x = 1
    e = ("subs", g, (("x", ("scale", "y")),))
    assert list(G.ty(e).items()) == [("y", ("r", ()))]
    assert np.isclose(G.ev(e, pt(y=1.0), 0), -0.5)
    assert np.isclose(G.ev(e, pt(y=0.75), 0), 0.0)  # x = 0.5 is the maximum
    # x = u + v
    e = ("subs", g, (("x", ("sum2", "u", "v")),))
    assert sorted(G.ty(e)) == ["u", "v"]
    assert np.isclose(G.ev(e, pt(u=0.25, v=0.25), 0), 0.0)
    assert np.isclose(G.ev(e, pt(u=1.0, v=1.0), 0), -4.5)
    # x = y[1] with y of shape (2,)
    e = ("subs", g, (("x", ("getitem", "y", (2,), 1)),))
    assert G.ty(e)["y"] == ("r", (2,))
    assert np.isclose(G.ev(e, pt(y=[7.0, 1.0]), 0), -0.5)
    # renaming and an ignored key
    e = ("subs", g, (("x", ("var", "z")), ("q", ("int", 0))))
    assert np.isclose(G.ev(e, pt(z=1.0), 0), -0.5)
    # simultaneous swap of two same-shaped inputs: g(x, y) -> g(y, x)
    g2 = put(91, (("x", "r", ()), ("y", "r", ())), 1, [0.0], [[1.0], [2.0]])  # -1/2 (x + 2y)^2
    sw = ("subs", g2, (("x", ("var", "y")), ("y", ("var", "x"))))
    assert np.isclose(G.ev(g2, pt(x=1.0, y=0.0), 0), -0.5)
    assert np.isclose(G.ev(sw, pt(x=1.0, y=0.0), 0), -2.0)
    # self reference: x := 2x - 1 reads the *outer* x
    e = ("subs", g, (("x", ("scale", "x")),))
    assert np.isclose(G.ev(e, pt(x=1.0), 0), -0.5) and np.isclose(G.ev(e, pt(x=0.0), 0), -4.5)


def test_matvec_shapes_by_hand():
    A, b = G.matvec_data(1, (), (2,), (3,), 0)
    assert A.shape == (2, 3) and b.shape == (2,)
    a, b0 = G.matvec_data(1, (), (), (2,), 0)
    assert a.shape == (2,) and b0.shape == ()
    Am, bm = G.matvec_data(1, (("i", "b", 2),), (2, 2), (3, 2), 0)
    assert Am.shape == (2, 2, 3) and bm.shape == (2, 2, 2)
    g = put(92, X2, 2, [0.0, 0.0], [[1.0, 0.0], [0.0, 1.0]])  # -1/2 |x|^2
    e = ("subs", g, (("x", ("matvec", "y", (3,), 1, ())),))
    y = np.array([0.3, -0.2, 0.9])
    assert np.isclose(G.ev(e, pt(y=y), 0), -0.5 * np.sum((A @ y + b) ** 2))


def test_int_slice_index_cat_by_hand():
    ins = (("i", "b", 3), ("x", "r", ()))
    # batch k: -1/2 (x - k)^2
    g = put(93, ins, 1, [[0.0], [1.0], [2.0]], [[[1.0]], [[1.0]], [[1.0]]])
    at = pt(x=0.0)
    assert np.isclose(G.ev(("subs", g, (("i", ("int", 2)),)), at, 0), -2.0)
    sl = ("subs", g, (("i", ("slice", "k", 0, 3, 2, 3)),))  # k -> 0, 2
    assert G.ty(sl)["k"] == ("b", 2) and "i" not in G.ty(sl)
    assert np.isclose(G.ev(sl, dict(at, k=1), 0), -2.0) and np.isclose(G.ev(sl, dict(at, k=0), 0), 0.0)
    ix = ("subs", g, (("i", ("idx", (("k", "b", 2),), (2, 1))),))
    assert np.isclose(G.ev(ix, dict(at, k=0), 0), -2.0) and np.isclose(G.ev(ix, dict(at, k=1), 0), -0.5)
    h = put(94, (("i", "b", 1), ("x", "r", ())), 1, [[5.0]], [[[1.0]]])  # -1/2 (x - 5)^2
    c = ("cat", "i", "i", (h, g))
    assert G.ty(c)["i"] == ("b", 4)
    assert [float(np.ravel(G.ev(c, dict(at, i=j), 0))[0]) for j in range(4)] == [-12.5, 0.0, -0.5, -2.0]
    c2 = ("cat", "m", "i", (g, h))
    assert G.ty(c2) == {"x": ("r", ()), "m": ("b", 4)}
    assert np.isclose(G.ev(c2, dict(at, m=3), 0), -12.5) and np.isclose(G.ev(c2, dict(at, m=1), 0), -0.5)
    # add a tensor and a number
    t = ("T", 1, (("i", "b", 3),))
    data = G.tensor_data(1, (("i", "b", 3),), (), 0)
    assert np.isclose(G.ev(("add", ("add", g, t), ("N", 0.75)), dict(at, i=1), 0), -0.5 + data[1] + 0.75)


def test_typing_rejects_domain_mismatch():
    g = put(95, X2, 1, [1.0], [[1.0], [1.0]])
    for bad in (
        ("subs", g, (("x", ("rt", 1, (), ())),)),  # scalar value for a vector input
        ("subs", g, (("x", ("getitem", "y", (2,), 0)),)),  # y[0] is a scalar
        ("align", g, ("nope",)),
    ):
        try:
            G.ty(bad)
        except G.IllTyped:
            continue
        raise AssertionError(bad)


def test_lattice_is_unisolvent_for_quadratics():
    for n in range(0, 8):
        pts = G.lattice(n, 2)
        assert pts.shape == (1 + n + n * (n + 1) // 2, n)
        cols = [np.ones(len(pts))] + [pts[:, a] for a in range(n)]
        cols += [pts[:, a] * pts[:, b] for a in range(n) for b in range(a, n)]
        V = np.stack(cols, 1)
        assert V.shape[0] == V.shape[1]
        assert np.linalg.matrix_rank(V) == V.shape[0] and np.linalg.cond(V) < 1e4
    sp = G.split_points(np.arange(10.0).reshape(2, 5), [("x", ()), ("y", (2, 2))])
    assert sp["x"].tolist() == [0.0, 5.0] and sp["y"][1].tolist() == [[6.0, 7.0], [8.0, 9.0]]


def test_driver_smoke_on_the_real_library():
    from fv.props import c12

    ins = (("x", "r", (2,)), ("i", "b", 2), ("y", "r", ()))
    g = ("G", 1, ins, 2)
    progs = [
        ["leaf", 0, g],
        ["leaf", 0, ("G", 1, ins, 7)],  # over the compression threshold: Gaussian + Tensor
        ["constructor:mean+covariance", 0, ("C", 1, ins, "mean", "covariance", 3)],
        ["add:overlap", 1, ("add", g, ("G", 4, (("u", "r", (2,)), ("y", "r", ()), ("i", "b", 2)), 2))],
        ["affine:matvec", 1, ("subs", g, (("x", ("matvec", "u", (3,), 20, ())),))],
        ["cat:larger-rank", 1, ("cat", "i", "i", (g, ("G", 7, ins, 3)))],
        ["align:permutation", 1, ("align", g, ("y", "i", "x"))],
    ]
    for case in progs:
        out = c12.check(case, 0)
        assert out["status"] == "ok", (case[0], out)
    # a deliberately wrong "funsor" value is reported: compare a leaf against another leaf's reference
    assert not c12.close(1.0, 1.0001) and c12.close(1.0, 1.0 + 5e-7)
    # enumeration is seed-independent and deterministic
    sigs = c12.signatures(c12.batch_sigs(), c12.all_ranks)
    assert sigs == c12.signatures(c12.batch_sigs(), c12.all_ranks) and len(sigs) == 11886
    assert len(c12.real_sigs()) == 16 and len(c12.layouts(((), (2,), ()), (2, 3))) == 10
