import numpy as np
from fv.ref import lang
from fv import gen

def test_typing_and_den_basic():
    t = gen.T("ij", lid=4)
    e = ("R", "add", t, (("j", 3),))
    ty = lang.ty(e)
    assert ty.inputs == {"i": (2, ())} and ty.out == ("real", ())
    arr = lang.leaf_array(t, 0)
    assert np.allclose(lang.den(e, {"i": 1}), arr[1].sum())

def test_unrelated_reduce():
    t = gen.T("i", lid=2)
    arr = lang.leaf_array(t, 0)
    e = ("R", "logaddexp", t, (("k", 2),))
    assert np.allclose(lang.den(e, {"i": 0}), arr[0] + np.log(2))
    e = ("R", "max", t, (("k", 2), ("i", 2)))
    assert np.allclose(lang.den(e, {}), arr.max())

def test_subs_simultaneous():
    t = gen.T("ik", lid=6)
    arr = lang.leaf_array(t, 0)
    e = ("S", t, (("i", gen.V("k", 2)), ("k", gen.V("i", 2))))
    assert np.allclose(lang.den(e, {"i": 0, "k": 1}), arr[1, 0])
    d = ("S", t, (("k", gen.V("i", 2)),))
    assert lang.ty(d).inputs == {"i": (2, ())}
    assert np.allclose(lang.den(d, {"i": 1}), arr[1, 1])

def test_cat_slice_lambda():
    a, b = gen.T("i", lid=2), gen.T("i", lid=40)
    c = ("Cat", "i", (a, b), "i")
    assert lang.ty(c).inputs == {"i": (4, ())}
    assert np.allclose(lang.den(c, {"i": 3}), lang.leaf_array(b, 0)[1])
    s = ("Slice", "s", 1, 3, 1, 3)
    assert lang.ty(s).inputs == {"s": (2, ())} and lang.den(s, {"s": 1}) == 2
    lam = ("Lam", "i", 2, a)
    assert lang.ty(lam).out == ("real", (2,)) and np.allclose(lang.den(lam, {}), lang.leaf_array(a, 0))

def test_independent():
    f = ("B", "mul", gen.T("i", (3,), lid=50), gen.V("x", "real", (3,)))
    e = ("Ind", ("U", "sum", (None, False), f), "r", "i", "x")
    t = lang.ty(e)
    assert t.inputs == {"r": ("real", (2, 3))}
    r = np.arange(6.0).reshape(2, 3)
    arr = lang.leaf_array(f[2], 0)
    assert np.allclose(lang.den(e, {"r": r}), (arr * r).sum())
