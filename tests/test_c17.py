"""Hand-computed checks of the C17 reference model (fv.ref.stack) and of the driver on the unchanged library."""
import sys

sys.path.insert(0, "/repo")

from fv.ref import stack as ref


def test_layering_by_hand():
    s = ref.BASE
    s, how = ref.enter(s, "A")  # partial over the default eager
    assert how == "push" and s[-1] == ("prio", ("A", "eager_base", "normalize_base", "reflect"))
    s, _ = ref.enter(s, "lazy")  # a total interpretation replaces, it is not layered
    assert s[-1] == "lazy"
    s, _ = ref.enter(s, "B")
    assert s[-1] == ("prio", ("B", "lazy_base", "reflect"))
    s, _ = ref.enter(s, "memo")  # memoize wraps whatever is active
    assert s[-1] == ("memo", ("prio", ("B", "lazy_base", "reflect")))
    s, _ = ref.enter(s, "A")  # a Memoize is one opaque leaf of the chain
    assert s[-1] == ("prio", ("A", ("memo", ("prio", ("B", "lazy_base", "reflect")))))
    s, _ = ref.enter(s, "tape")  # the tape is layered like a partial interpretation and remembers the outer one
    assert s[-1][1][0] == ("tape", ("prio", ("A", ("memo", ("prio", ("B", "lazy_base", "reflect"))))))
    assert s[-1][1][1:] == ("A", ("memo", ("prio", ("B", "lazy_base", "reflect"))))
    assert len(s) == 8
    assert ref.name(s[2]) == "userA/eager/normalize/reflect"
    assert ref.name(s[5]) == "Memoize(userB/lazy/reflect)"
    assert ref.name(s[7]) == "adjoint/userA/Memoize(userB/lazy/reflect)"


def test_probe_predictions_by_hand():
    s = ref.BASE
    assert ref.predict(s[-1]) == ("Tensor", "Tensor", "Contraction", "ProbeTerm")
    s, _ = ref.enter(s, "lazy")
    assert ref.predict(s[-1]) == ("Binary", "Reduce", "Binary", "ProbeTerm")
    s, _ = ref.enter(s, "B")  # B's rule returns None: falls through to lazy
    assert ref.predict(s[-1]) == ("Binary", "Reduce", "Binary", "ProbeTerm")
    s, _ = ref.enter(s, "A")  # A answers the sentinel probe only
    assert ref.predict(s[-1]) == ("Binary", "Reduce", "Binary", "SENT")
    s, _ = ref.enter(s, "memo")
    assert ref.predict(s[-1]) == ("Binary", "Reduce", "Binary", "SENT") and ref.kind(s[-1]) == "lazy"
    s, _ = ref.enter(s, "tape")
    assert ref.predict(s[-1]) == ("Binary", "Reduce", "Binary", "SENT")
    s, _ = ref.enter(s, "normalize")  # total: hides A again
    assert ref.predict(s[-1]) == ("Contraction", "Contraction", "Contraction", "ProbeTerm")
    s, _ = ref.enter(s, "sequential")
    assert ref.predict(s[-1]) == ("Tensor", "Tensor", "Contraction", "ProbeTerm")
    assert ref.subst_raises("reflect") is False and ref.subst_raises(s[-1]) is True
    r, _ = ref.enter(ref.BASE, "reflect")
    r, _ = ref.enter(r, "A")
    assert ref.kind(r[-1]) == "reflect" and not ref.tapefwd_raises(r[-1])


def test_overflow_threshold():
    # eager has 3 leaves: six partial entries are accepted (9 leaves), the seventh is refused
    s = ref.BASE
    for i in range(6):
        s, how = ref.enter(s, "AB"[i % 2])
        assert how == "push"
    assert len(ref.flat(s[-1])) == 9
    s2, how = ref.enter(s, "A")
    assert how == "overflow" and s2 == s
    s2, how = ref.enter(s, "tape")
    assert how == "overflow" and s2 == s
    assert ref.tapefwd_raises(s[-1])  # forward_backward's own tape is refused as well
    s3, how = ref.enter(s, "memo")  # total entries are not layered: accepted
    assert how == "push" and len(s3) == len(s) + 1
    # reflect has one leaf: eight accepted, ninth refused
    s, _ = ref.enter(ref.BASE, "reflect")
    hows = []
    for i in range(9):
        s, how = ref.enter(s, "B")
        hows.append(how)
    assert hows == ["push"] * 8 + ["overflow"]


def test_model_list_and_menu():
    m = ref.StackModel()
    assert m.enter("lazy") == "push" and m.enter("A") == "push" and m.enter("memo") == "push"
    assert m.depth == 3 and m.canon() == ("lazy", "A", "memo")
    m.leave(2)
    assert m.canon() == ("lazy",) and m.top == "lazy"
    m.leave(1)
    assert m.items == ["reflect", "eager"]
    try:
        m.leave(1)
    except AssertionError:
        pass
    else:
        raise AssertionError("the base entries must never be popped")
    assert ref.menu(0, ("lazy",), 2) == [("probe",), ("with", "lazy"), ("deco", "lazy"), ("subst", 0), ("tapefwd", 0)]
    ev = ref.menu(2, ("lazy",), 2)
    assert ("with", "lazy") not in ev and ("raise", 2) in ev and ("raise", 3) not in ev and ("subst", 2) in ev
    assert ref.apply_event(("reflect", "eager", "lazy", "reflect"), ("raise", 2))[0] == ref.BASE


def test_driver_on_the_real_library():
    from fv.props import c17

    c17._setup(0)
    h = (
        ("with", "lazy"),
        ("deco", "A"),
        ("with", "memo"),
        ("deco", "tape"),
        ("probe",),
        ("raise", 3),
        ("probe",),
        ("subst", 1),
        ("tapefwd", 0),
    )
    x = c17.run(h, record=True)
    assert x.failure is None, x.failure.message
    assert x.obs[4] == "probe:Binary,Reduce,Binary,SENT" and x.obs[6] == "probe:Binary,Reduce,Binary,ProbeTerm"
    assert x.trace[3][0] == "reflect;eager;lazy;P[A,lazy_base,reflect];M(P[A,lazy_base,reflect]);" \
        "P[T(M(P[A,lazy_base,reflect])),M(P[A,lazy_base,reflect])]"
    assert x.trace[5][0] == "reflect;eager;lazy" and x.trace[7][0] == "reflect;eager"
    assert x.final[0] == ()
    # seven partial entries over eager: the seventh is refused and nothing stays pushed
    h = tuple(("with" if i % 2 else "deco", "AB"[i % 2]) for i in range(7)) + (("probe",), ("raise", 6))
    x = c17.run(h)
    assert x.failure is None and x.obs[6] == "enter-failed:AssertionError" and x.final[0] == ()
    # the snippet is a program
    compile(c17.snippet(h), "<snippet>", "exec")


def test_driver_sees_a_leak():
    """Corrupt the real stack behind the driver's back: it must be reported and the stack restored."""
    from fv.props import c17

    c17._setup(0)
    orig = c17.G.bomb
    try:

        class Leaky:
            def __call__(self, **kw):
                c17.G.STACK.append(c17.G.fi.lazy)
                raise RuntimeError("boom")

        c17.G.bomb = Leaky()
        x = c17.run((("with", "normalize"), ("subst", 0)))
        assert x.failure is not None and x.failure.site == "substitute" and x.failure.what == "leak-length"
        assert x.polluted
    finally:
        c17.G.bomb = orig
    assert len(c17.G.STACK) == 2
    assert c17.run((("probe",),)).failure is None


def test_persistent_tape_menu_and_reentry():
    # T0 is offered while inactive; while it is active a fresh tape takes its place
    syms = ("lazy", "T0")
    assert ("with", "T0") in ref.menu(1, syms, 3, (0,), ("lazy",))
    ev = ref.menu(2, syms, 3, (0,), ("lazy", "T0"))
    assert ("with", "T0") not in ev and ("with", "tape") in ev and ("deco", "tape") in ev
    # the reference treats T0 like any tape: layered over, and remembering, the CURRENT top
    s, _ = ref.enter(ref.BASE, "T0")
    assert s[-1] == ("prio", (("tape", "eager"), "eager_base", "normalize_base", "reflect"))
    s, _ = ref.enter(ref.enter(ref.BASE, "lazy")[0], "T0")
    assert s[-1] == ("prio", (("tape", "lazy"), "lazy_base", "reflect")) and ref.kind(s[-1]) == "lazy"

    from fv.props import c17

    c17._setup(0)
    h = (("with", "T0"), ("probe",), ("exit",), ("with", "lazy"), ("deco", "T0"), ("probe",))
    x = c17.run(h, record=True)
    assert x.failure is None, x.failure.message
    assert x.obs[1].startswith("probe:Tensor,Tensor") and x.obs[5].startswith("probe:Binary,Reduce")
    assert x.trace[4][0] == "reflect;eager;lazy;P[T(lazy),lazy_base,reflect]"
    # a tape that keeps the interpretation of its first entry is seen
    orig = c17.G.AdjointTape.__enter__

    def sticky(self):
        if self._old_interpretation is None:
            self._old_interpretation = c17.G.get_interpretation()
        self.tape = []
        return c17.G.fi.Interpretation.__enter__(self)

    try:
        c17.G.AdjointTape.__enter__ = sticky
        x = c17.run(h)
        assert x.failure is not None and x.failure.site == "AdjointTape.__enter__" and x.failure.what == "tape-old"
    finally:
        c17.G.AdjointTape.__enter__ = orig
    assert c17.run(h).failure is None
    assert len(c17.reentry_histories("quick")) == 12 * 2 * 133 * 2  # (1+11 stacks X) x 2 ways out x (1+11+121 stacks Y) x 2 styles


def test_function_style_partial_interpretation():
    # C is partial: layered over the current top like A and B, innermost sentinel rule wins, the rest falls through
    s, how = ref.enter(ref.enter(ref.BASE, "lazy")[0], "C")
    assert how == "push" and s[-1] == ("prio", ("C", "lazy_base", "reflect"))
    assert ref.predict(s[-1]) == ("Binary", "Reduce", "Binary", "SENTC") and ref.name(s[-1]) == "userC/lazy/reflect"
    s, _ = ref.enter(s, "A")
    assert ref.predict(s[-1])[3] == "SENT"
    s, _ = ref.enter(s, "B")
    s, _ = ref.enter(s, "C")
    assert s[-1][1][:3] == ("C", "B", "A") and ref.predict(s[-1])[3] == "SENTC" and ref.kind(s[-1]) == "lazy"

    from fv.props import c17

    c17._setup(0)
    h = (("with", "normalize"), ("deco", "C"), ("probe",), ("with", "A"), ("probe",), ("raise", 2), ("probe",))
    x = c17.run(h, record=True)
    assert x.failure is None, x.failure.message
    assert x.obs[2] == "probe:Contraction,Contraction,Contraction,SENTC"
    assert x.obs[4] == "probe:Contraction,Contraction,Contraction,SENT"
    assert x.trace[1][0] == "reflect;eager;normalize;P[C,normalize_base,reflect]"
    # a function-style interpretation that is pushed bare (treated as total) is seen at entry
    c17.G.C.is_total = True
    try:
        x = c17.run(h)
        assert x.failure is not None and x.failure.site == "Interpretation.__enter__" and x.failure.what == "top-type"
    finally:
        del c17.G.C.is_total
    assert c17.run(h).failure is None


def test_late_registration():
    # D is partial and layered like A/B/C whether or not it has rules; its sentinel answers only once registered
    s, how = ref.enter(ref.enter(ref.BASE, "lazy")[0], "D")
    assert how == "push" and s[-1] == ("prio", ("D", "lazy_base", "reflect"))
    assert ref.predict(s[-1]) == ("Binary", "Reduce", "Binary", "ProbeTerm")
    assert ref.predict(s[-1], None, True) == ("Binary", "Reduce", "Binary", "SENTD")
    s, _ = ref.enter(s, "A")
    assert ref.predict(s[-1], None, True)[3] == "SENT"  # innermost wins
    assert ref.apply_event(s, ("reg",))[0] == s  # registration never touches the stack

    from fv.props import c17

    c17._setup(0)
    h = (("with", "lazy"), ("with", "D"), ("probe",), ("reg",), ("probe",), ("exit",), ("probe",), ("exit",))
    x = c17.run(h, record=True)
    assert x.failure is None, x.failure.message
    assert x.obs[2].endswith("ProbeTerm") and x.obs[4].endswith("SENTD") and x.obs[6].endswith("ProbeTerm")
    assert x.trace[5][0] == "reflect;eager;lazy" and x.trace[7][0] == "reflect;eager"
    # an interpretation that skips push/pop while rule-less pops a foreign frame after a late registration
    cls = c17.G.fi.DispatchedInterpretation
    base = c17.G.fi.Interpretation

    def enter(self):
        return self if not self.registry.registry else base.__enter__(self)

    def exit_(self, *a):
        return None if not self.registry.registry else base.__exit__(self, *a)

    cls.__enter__, cls.__exit__ = enter, exit_
    try:
        x = c17.run(h)
        assert x.failure is not None and x.failure.site == "Interpretation.__enter__" and x.failure.what == "length"
        x = c17.run((("reg",),) + h)  # registered up front: this variant behaves
        assert x.failure is None
    finally:
        del cls.__enter__, cls.__exit__
    assert c17.run(h).failure is None
    assert sum(1 for _ in c17.late_sequences(3, ())) == sum(1 for p in c17.late_sequences(2, ()) for _ in c17.late_sequences(3, p))
