"""Hand-computed checks of the C15 reference arithmetic (fv.ref.opsref) and of the C15 driver's plumbing."""
import math
import sys
from decimal import Decimal

import numpy as np
import pytest

sys.path.insert(0, "/repo")

from fv.ref import opsref as R  # noqa: E402

E, F = R.EXACT, R.FLOAT
INF = math.inf
LOG2 = 0.6931471805599453


def test_exact_field_operations():
    assert E.add(0.5, 2) == Decimal("2.5")
    # exact, not double: 0.1 + 0.2 is not the double 0.3
    assert E.add(0.1, 0.2) != Decimal(0.3)
    assert E.sub(E.add(1.0, 1e308), 1e308) == 1  # no absorption
    assert E.mul(1e308, 1e308) == Decimal(int(1e308) ** 2)  # no overflow, exact
    assert float(E.truediv(1, 3)) == pytest.approx(1 / 3)
    assert E.max(-INF, 2) == 2 and E.min(INF, 2) == 2 and E.max(3, 0.5) == 3
    assert E.neg(INF) == Decimal("-Infinity") and E.abs(-INF) == Decimal("Infinity")


def test_exact_undefined_points():
    for fn, args in [
        (E.add, (INF, -INF)),
        (E.sub, (INF, INF)),
        (E.mul, (0.0, INF)),
        (E.truediv, (1.0, 0.0)),
        (E.truediv, (INF, INF)),
        (E.floordiv, (1.0, 0.0)),
        (E.floordiv, (1.0, INF)),
        (E.mod, (INF, 2.0)),
        (E.log, (-1.0,)),
        (E.sqrt, (-1.0,)),
        (E.atanh, (2.0,)),
        (E.pow, (-1.0, 0.5)),
        (E.pow, (0.0, -1)),
        (E.pow, (1.0, INF)),
        (E.reciprocal, (0,)),
        (E.and_, (1.0, 2.0)),
        (E.lshift, (1, -1)),
        (E.invert, (True,)),
        (E.logaddexp, (INF, 0.0)),
        (E.safesub, (0.0, -INF)),
        (E.safediv, (1.0, 0.0)),
        (E.safediv, (1.0, 5e-324)),
        (E.lgamma, (0,)),
    ]:
        with pytest.raises(R.Undefined):
            fn(*args)


def test_exact_integer_ops():
    assert E.floordiv(-1, 3) == -1 and E.mod(-1, 3) == 2
    assert E.floordiv(3.0, 0.5) == 6 and E.mod(3.0, 2) == 1
    assert E.mod(1, -3) == -2  # sign of the divisor, as Python and numpy
    assert E.pow(2, -1) == Decimal("0.5") and E.pow(0, 0) == 1 and E.pow(INF, 0) == 1
    assert E.pow(-1, 3) == -1 and E.pow(-INF, 3) == Decimal("-Infinity") and E.pow(-INF, 2) == Decimal("Infinity")
    assert E.pow(2.0, INF) == Decimal("Infinity") and E.pow(0.5, INF) == 0 and E.pow(2.0, -INF) == 0
    assert float(E.pow(2.0, 0.5)) == pytest.approx(math.sqrt(2), rel=1e-15)
    assert E.and_(3, 2) == 2 and E.or_(True, False) is True and E.xor(True, True) is False
    assert E.lshift(3, 2) == 12 and E.rshift(3, 1) == 1 and E.invert(2) == -3
    assert E.eq(1, 1.0) is True and E.lt(-INF, 0) is True and E.ge(0.5, 0.5) is True and E.ne(INF, INF) is False


def test_exact_transcendental():
    assert float(E.exp(1)) == pytest.approx(math.e, rel=1e-15)
    assert E.exp(-INF) == 0 and E.log(0) == Decimal("-Infinity") and E.log1p(-1) == Decimal("-Infinity")
    assert float(E.log(5e-324)) == pytest.approx(-744.4400719213812, rel=1e-14)
    assert float(E.log1p(5e-324)) == 5e-324
    assert float(E.tanh(0.5)) == pytest.approx(0.46211715726000974, rel=1e-14)
    assert float(E.atanh(0.5)) == pytest.approx(0.5493061443340549, rel=1e-14)
    assert E.atanh(1) == Decimal("Infinity") and E.tanh(INF) == 1 and E.tanh(-1e308) == -1
    assert float(E.sigmoid(0)) == 0.5 and float(E.sigmoid(-INF)) == 0.0 and float(E.sigmoid(INF)) == 1.0
    assert float(E.sigmoid(-1e308)) == 0.0
    assert float(E.lgamma(3)) == pytest.approx(LOG2) and float(E.lgamma(0.5)) == pytest.approx(0.5723649429247001, rel=1e-14)
    assert float(E.lgamma(5e-324)) == pytest.approx(744.4400719213812, rel=1e-14)


def test_exact_logaddexp_keeps_small_terms():
    assert float(E.logaddexp(0, 0)) == pytest.approx(LOG2, rel=1e-15)
    assert E.logaddexp(-INF, -INF) == Decimal("-Infinity")
    assert E.logaddexp(-INF, 2.0) == 2
    # 1e308 + log 2 is not absorbed in the exact evaluator
    assert float(E.sub(E.logaddexp(1e308, 1e308), 1e308)) == pytest.approx(LOG2, rel=1e-15)
    assert float(E.logaddexp(700, -700)) == 700.0


def test_lse_fsum_reference():
    assert R.lse_fsum([700.0, 700.0]) == pytest.approx(700 + LOG2, rel=1e-15)
    assert R.lse_fsum([-INF, -INF, -INF]) == -INF
    assert R.lse_fsum([-INF, 5.0]) == 5.0
    assert R.lse_fsum([1e308, -1e308]) == 1e308
    assert R.lse_fsum([-745.0, -745.0]) == pytest.approx(-745 + LOG2, rel=1e-15)
    assert R.lse_fsum([0.0, math.log(3.0)]) == pytest.approx(math.log(4.0), rel=1e-15)
    with pytest.raises(R.Undefined):
        R.lse_fsum([INF, 0.0])


def test_reference_recognises_artefacts():
    dist_l = lambda A, a, b, c: A.mul(a, A.add(b, c))  # noqa: E731
    dist_r = lambda A, a, b, c: A.add(A.mul(a, b), A.mul(a, c))  # noqa: E731
    st, e, ef = R.reference(dist_l, [1e308, 2.0, -1.0])
    assert st == "ok" and ef == 1e308
    assert R.reference(dist_r, [1e308, 2.0, -1.0])[0] == "artefact"  # 2e308 overflows in double
    assert R.reference(lambda A, a, b: A.add(A.sub(a, b), b), [1.0, 1e308])[0] == "artefact"  # absorption
    assert R.reference(lambda A, a: A.reciprocal(a), [5e-324])[0] == "artefact"  # exact value beyond the double range
    assert R.reference(lambda A, a, b: A.mul(a, b), [0.0, INF])[0] == "undefined"
    st, e, ef = R.reference(dist_l, [0.5, 2.0, 3.0])
    assert st == "ok" and ef == 2.5 and R.exact_close(e, R.reference(dist_r, [0.5, 2.0, 3.0])[1])


def test_reference_units_are_neutral_and_wrong_ones_are_not():
    for name, u in R.REF_UNITS.items():
        grid = R.GRID_BOOL if name in ("and_", "or_", "xor") else R.GRID_LOG if name == "logaddexp" else R.GRID_FLOAT
        for g in grid:
            try:
                v = getattr(E, name)(E.lift(u), E.lift(g))
            except R.Undefined:
                continue
            assert R.exact_close(v, E.lift(g)), (name, g)
    assert not R.exact_close(E.and_(False, True), True)  # False is not the unit of and_
    assert not R.exact_close(E.max(INF, 2.0), E.lift(2.0))  # +inf is not the unit of max


def test_close():
    assert R.close(1.0 + 5e-8, 1.0) and not R.close(1.0 + 1e-6, 1.0)
    assert R.close(INF, INF) and not R.close(1.7976931348623157e308, INF) and not R.close(math.nan, 0.0)
    assert R.close(0.0, 5e-324)


def test_reduce_ref():
    x = [1, 2, 3, 4, 5, 6]  # shape (3,2): [[1,2],[3,4],[5,6]]
    assert R.reduce_ref(x, (3, 2), (0,), False, sum) == ((2,), [9, 12])
    assert R.reduce_ref(x, (3, 2), (0,), True, sum) == ((1, 2), [9, 12])
    assert R.reduce_ref(x, (3, 2), (-1,), False, sum) == ((3,), [3, 7, 11])
    assert R.reduce_ref(x, (3, 2), (0, 1), True, sum) == ((1, 1), [21])
    assert R.reduce_ref([5.0], (), (), False, sum) == ((), [5.0])


def test_einsum_ref_and_term_sum():
    x = [1.0, 2.0, 3.0, 4.0, 5.0, 6.0]  # ab, a=3, b=2
    y = [10.0, 20.0]
    sizes = {"a": 3, "b": 2}
    assert R.einsum_ref("ab,b->a", [x, y], sizes, max) == ((3,), [22.0, 24.0, 26.0])
    assert R.einsum_ref("ab->b", [x], sizes, max) == ((2,), [5.0, 6.0])
    shape, out = R.einsum_ref("ab,b->", [[0.0, -INF, -INF, -INF, -INF, 0.0], [0.0, 0.0]], sizes, R.lse_fsum)
    assert shape == () and out[0] == pytest.approx(LOG2)
    shape, out = R.einsum_ref("ab,b->a", [[0.0, -INF, -INF, -INF, 1.0, 2.0], [-INF, 0.0]], sizes, R.lse_fsum)
    assert out == [-INF, -INF, 2.0]
    assert R.term_sum([1e308, -INF]) == -INF and R.term_sum([1e308, -1e308]) == 0.0
    with pytest.raises(R.Undefined):
        R.term_sum([1e308, 1e308])
    with pytest.raises(R.Undefined):
        R.term_sum([0.25, 1e308, -1e308])  # 0.25 or 0 depending on the order
    assert R.maxima_representable([[700.0, -INF], [-700.0, -699.75]])
    assert not R.maxima_representable([[1e308, -INF], [-INF, 1e308]])
    assert R.maxima_representable([[1e308, -INF], [-INF, -INF]])


def test_driver_plumbing_and_self_detection():
    from funsor import ops

    from fv.props import c15

    c15.worker_init()
    assert c15.conv("py", [2]) == 2 and isinstance(c15.conv("np", [0.5]), np.float64)
    assert c15.conv("s31", [1.0, 2.0, 3.0]).shape == (3, 1) and c15.conv("arr0", [True]).dtype == bool
    shape, maps = c15._index_maps(("s31", "s2"))
    assert shape == (3, 2) and maps == [[0, 0, 1, 1, 2, 2], [0, 1, 0, 1, 0, 1]]
    lhs = ("mul", ("L", 0), ("add", ("L", 1), ("L", 2)))
    assert c15.code(lhs, "abc") == "ops.mul(a, ops.add(b, c))"
    assert c15.ev(F, lhs, [2.0, 3.0, 4.0]) == 14.0 and c15.ev(E, lhs, [2.0, 3.0, 4.0]) == 14
    assert c15.flat_floats(np.array([[True, False]])) == ((1, 2), [1.0, 0.0])
    # the unchanged tables pass; a swapped unit is reported at its own site
    assert c15.check(["table", "UNITS", "max"], 0)["status"] == "ok"
    assert c15.check(["table", "UNITS", "and_"], 0)["status"] == "ok"
    old = ops.UNITS[ops.and_]
    try:
        ops.UNITS[ops.and_] = False
        out = c15.check(["table", "UNITS", "and_"], 0)
    finally:
        ops.UNITS[ops.and_] = old
    assert out["status"] == "violation" and out["violation"]["site"] == "UNITS[and_]"
    assert c15.check(["table", "DISTRIBUTIVE_OPS", "sample,add"], 0)["status"] == "skip"
