"""Hand-computed checks of the C13 dense reference (fv.ref.gauss13) and a smoke test of the driver."""
import json
import math
import sys

import numpy as np

sys.path.insert(0, "/repo")

from fv.ref import gauss13 as G  # noqa: E402

LOG2PI = math.log(2 * math.pi)


def test_dense_form_by_hand():
    # -1/2 (2x - 3)^2 = -2 x^2 + 6 x - 4.5
    P, eta, c = G.dense_from_sqrt(np.array([3.0]), np.array([[2.0]]))
    assert P.tolist() == [[4.0]] and eta.tolist() == [6.0] and float(c) == -4.5
    assert abs(G.evaluate(P, eta, c, np.array([1.0])) - (-0.5)) < 1e-15
    # two columns: -1/2 ((x + 2y - 1)^2 + (3y)^2)
    P, eta, c = G.dense_from_sqrt(np.array([1.0, 0.0]), np.array([[1.0, 0.0], [2.0, 3.0]]))
    assert P.tolist() == [[1.0, 2.0], [2.0, 13.0]] and eta.tolist() == [1.0, 2.0] and float(c) == -0.5
    x, y = 0.7, -0.4
    assert abs(G.evaluate(P, eta, c, np.array([x, y])) - (-0.5 * ((x + 2 * y - 1) ** 2 + 9 * y * y))) < 1e-15


def test_normaliser_1d_by_hand():
    # integral exp(-2x^2 + 6x - 4.5) = exp(-4.5 + 36/8) sqrt(2 pi / 4) = sqrt(pi/2)
    P, eta, c = np.array([[4.0]]), np.array([6.0]), np.array(-4.5)
    assert abs(G.log_normalizer(P, eta, c) - 0.5 * math.log(math.pi / 2)) < 1e-14
    # mass * mean = sqrt(pi/2) * 1.5
    assert abs(G.integrate_variable(P, eta, c)[0] - math.sqrt(math.pi / 2) * 1.5) < 1e-14


def test_partial_marginal_by_hand_and_by_quadrature():
    P, eta, c = np.array([[2.0, 1.0], [1.0, 2.0]]), np.array([1.0, 0.0]), np.array(0.0)
    P1, e1, c1 = G.marginalize(P, eta, c, [1])  # integrate the second coordinate out
    assert abs(P1[0, 0] - 1.5) < 1e-15 and abs(e1[0] - 1.0) < 1e-15
    assert abs(c1 - 0.5 * (LOG2PI - math.log(2.0))) < 1e-15
    P0, e0, c0 = G.marginalize(P, eta, c, [0])  # integrate the first coordinate out
    assert abs(P0[0, 0] - 1.5) < 1e-15 and abs(e0[0] + 0.5) < 1e-15
    assert abs(c0 - (0.25 + 0.5 * (LOG2PI - math.log(2.0)))) < 1e-15
    # brute-force quadrature of the second marginal at y = 0.3
    xs = np.linspace(-12, 12, 48001)
    f = np.exp(-0.5 * (2 * xs**2 + 2 * xs * 0.3 + 2 * 0.09) + xs)
    num = math.log(np.sum(f) * (xs[1] - xs[0]))
    assert abs(num - G.evaluate(P0, e0, c0, np.array([0.3]))) < 1e-9
    # everything: a scalar, kept block is empty
    Pn, en, cn = G.marginalize(P, eta, c, [0, 1])
    assert Pn.shape == (0, 0) and en.shape == (0,)
    # 1/2 eta' P^-1 eta = 1/2 * 2/3, logdet = log 3
    assert abs(cn - (1.0 / 3.0 + LOG2PI - 0.5 * math.log(3.0))) < 1e-14
    # two steps = one step
    assert abs(G.marginalize(P1, e1, c1, [0])[2] - cn) < 1e-14


def test_interleaved_block_indices():
    # three coordinates, marginalise the outer two (interleaved with the kept middle one): compare with 2 x one step
    A = np.array([[1.0, 0.2, 0.1, 0.3], [0.3, 1.1, -0.2, 0.0], [0.2, -0.1, 0.9, 0.5]])
    P, eta, c = G.dense_from_sqrt(np.array([0.3, -0.2, 0.5, 0.1]), A)
    Pm, em, cm = G.marginalize(P, eta, c, [0, 2])
    Pa, ea, ca = G.marginalize(P, eta, c, [2])  # kept (0, 1)
    Pb, eb, cb = G.marginalize(Pa, ea, ca, [0])  # kept (1)
    assert np.allclose(Pm, Pb, atol=1e-14) and np.allclose(em, eb, atol=1e-14) and abs(cm - cb) < 1e-14


def test_mean_cov_and_condition():
    P, eta = np.array([[2.0, 1.0], [1.0, 2.0]]), np.array([1.0, 0.0])
    mean, cov = G.mean_cov(P, eta)
    assert np.allclose(cov, np.array([[2.0, -1.0], [-1.0, 2.0]]) / 3.0, atol=1e-15)
    assert np.allclose(mean, [2.0 / 3.0, -1.0 / 3.0], atol=1e-15)
    # fix the second coordinate at 0.5: -x^2 - 0.5x - 0.25 + x
    Pk, ek, ck = G.condition(P, eta, np.array(0.0), [1], np.array([0.5]))
    assert Pk.tolist() == [[2.0]] and abs(ek[0] - 0.5) < 1e-15 and abs(ck + 0.25) < 1e-15


def test_expectation_of_quadratic_by_hand():
    # measure N(1, 1) (mass 1): E[-x^2 + 3x + 1] = -(1 + 1) + 3 + 1 = 2
    P, eta, c = np.array([[1.0]]), np.array([1.0]), np.array(-0.5 - 0.5 * LOG2PI)
    v = G.integrate_quadratic(P, eta, c, np.array([[2.0]]), np.array([3.0]), np.array(1.0))
    assert abs(v - 2.0) < 1e-14
    # mass 2
    v = G.integrate_quadratic(P, eta, c + math.log(2.0), np.array([[2.0]]), np.array([3.0]), np.array(1.0))
    assert abs(v - 4.0) < 1e-14
    A, b = G.embed(np.array([[2.0]]), np.array([3.0]), [1], 2)
    assert A.tolist() == [[0.0, 0.0], [0.0, 2.0]] and b.tolist() == [0.0, 3.0]


def test_mixture_moments_by_hand():
    # 0.25 N(0,1) + 0.75 N(2,1): mass 1, mean 1.5, variance 1 + 0.25*1.5^2 + 0.75*0.5^2 = 1.75
    mus = np.array([0.0, 2.0])
    P = np.ones((2, 1, 1))
    eta = mus[:, None]
    c = -0.5 * LOG2PI - 0.5 * mus**2
    logw = np.log(np.array([0.25, 0.75]))
    lm, mean, cov = G.mixture_moments(P, eta, c, logw, [0])
    assert abs(lm) < 1e-14 and abs(mean[0] - 1.5) < 1e-14 and abs(cov[0, 0] - 1.75) < 1e-14
    # a zero-weight component drops out
    lm, mean, cov = G.mixture_moments(P, eta, c, np.array([-np.inf, math.log(3.0)]), [0])
    assert abs(lm - math.log(3.0)) < 1e-14 and abs(mean[0] - 2.0) < 1e-14 and abs(cov[0, 0] - 1.0) < 1e-14


def test_plate_sum_and_logsumexp():
    P = np.arange(8.0).reshape(2, 2, 2)
    eta = np.arange(4.0).reshape(2, 2)
    c = np.array([1.0, 2.0])
    Ps, es, cs = G.plate_sum(P, eta, c, [0])
    assert Ps.tolist() == [[4.0, 6.0], [8.0, 10.0]] and es.tolist() == [2.0, 4.0] and float(cs) == 3.0
    assert abs(G.logsumexp(np.log(np.array([[1.0, 2.0], [3.0, 4.0]])), [0, 1]) - math.log(10.0)) < 1e-14
    assert G.logsumexp(np.array([-np.inf, -np.inf]), [0]) == -np.inf
    assert G.logsumexp(np.array([1.0, 2.0]), []).tolist() == [1.0, 2.0]


def test_lattice_is_unisolvent():
    for n in (1, 2, 3, 5):
        pts = G.lattice(n, 0.3 + 0.1 * np.arange(n))
        assert len(pts) == 1 + n + n * (n + 1) // 2
        rng = np.random.RandomState(n)
        A = rng.randn(n, n + 1)
        P, eta, c = G.dense_from_sqrt(rng.randn(n + 1), A)
        vals = np.array([G.evaluate(P, eta, c, p) for p in pts])
        P2, e2, c2 = G.fit_quadratic(pts, vals)
        assert np.allclose(P2, P, atol=1e-9) and np.allclose(e2, eta, atol=1e-9) and abs(c2 - c) < 1e-10


def test_close_tolerance():
    assert G.close(np.array([1.0 + 5e-7]), np.array([1.0]))
    assert not G.close(np.array([1.0 + 5e-6]), np.array([1.0]))
    assert G.close(np.array([-np.inf]), np.array([-np.inf])) and not G.close(np.array([0.0]), np.array([-np.inf]))
    assert not G.close(np.array([np.nan]), np.array([1.0]))


def test_funsor_gaussian_denotes_the_assumed_function():
    from collections import OrderedDict

    import funsor
    from funsor import Bint, Real, Reals, Tensor
    from funsor.gaussian import Gaussian

    funsor.set_backend("numpy")
    ps = np.array([[[1.0, 0.2, 0.3], [0.1, 0.9, -0.4], [0.5, 0.6, 0.7]], [[0.8, -0.3, 0.1], [0.4, 1.1, 0.2], [0.0, 0.3, 0.9]]])
    wv = np.array([[0.3, -0.2, 0.5], [0.5, 0.1, -0.7]])
    g = Gaussian(wv, ps, OrderedDict([("x", Real), ("i", Bint[2]), ("y", Reals[2])]))
    x, y = np.array(0.7), np.array([-0.4, 1.3])
    r = g(x=Tensor(x), y=Tensor(y))
    flat = np.concatenate([x.reshape(1), y])
    want = [-0.5 * np.sum((flat @ ps[i] - wv[i]) ** 2) for i in range(2)]
    assert np.allclose(r.data, want, atol=1e-14)
    P, eta, c = G.dense_from_sqrt(wv, ps)
    assert np.allclose(G.evaluate(P, eta, c, flat), want, atol=1e-14)


def test_driver_smoke_and_replay_roundtrip():
    from fv.props import c13

    cs = c13.cases("quick")
    assert len(cs) == len({json.dumps(c) for c in cs})  # distinct
    sig = (("i", "b", 2), ("x", "r", ()), ("y", "r", (2,)))
    picked = [
        ["marg", sig, 3, ["x"], "after", []],
        ["marg", sig, 4, ["y"], "before", ["x"]],
        ["marg2", sig, 3, ["y"], ["x"]],
        ["lognorm", sig, 4],
        ["plate", sig, 3, ["i"], []],
        ["mix", sig, 3, ["i"], ["i"], ["x"], "gl", None],
        ["intgauss", sig, 3, (("y", "r", (2,)), ("x", "r", ())), 2, [], True],
        ["moment", sig, 3, ["i"], ["i"], [], None],
        ["neg", sig, 2, "lognorm", [], []],
        ["neg", sig, 1, "marg", ["y"], []],
    ]
    for case in picked:
        out = c13.check(case, 0)
        assert out["status"] == "ok", (case, out)
        again = c13.check(json.loads(json.dumps(case)), 0)
        assert again["key"] == out["key"] and again["outcome"] == out["outcome"]
    sig1 = (("i", "b", 2), ("x", "r", (2,)))
    out = c13.check(["intvar", sig1, 2, "x", "one", ["i"], None, []], 0)
    assert out["status"] == "ok", out
