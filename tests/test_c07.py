"""Hand-computed checks of the C07 reference model (fv.ref.hashcons) and smoke checks of the harness (fv.props.c07)."""
import gc
import sys

import pytest

sys.path.insert(0, "/repo")

from fv.ref import hashcons as H  # noqa: E402

V, DOM, OP, A = H.V, H.DOM, H.OP, H.A


# ---- pure model ------------------------------------------------------------------------------------------------


def test_norm_and_free_mangled():
    i5 = V("iq__BOUND_5", "Bint[2]")
    body = ("Binary", H.GETITEM0, V("vq", "Reals[2]"), i5)
    red = ("Reduce", H.ADD, body, frozenset({i5}))
    assert H.norm(red) == ("Reduce", H.ADD, ("Binary", H.GETITEM0, V("vq", "Reals[2]"), V("iq__B", "Bint[2]")),
                           frozenset({V("iq__B", "Bint[2]")}))
    assert H.norm("xq__BOUND_12") == "xq__B" and H.norm("xq") == "xq"
    # the body mentions the gensym'ed name freely, the binder does not
    assert H.free_mangled(body) == {"iq__BOUND_5"}
    assert H.free_mangled(red) == set()
    lam = ("Lambda", i5, body)
    assert H.free_mangled(lam) == set()
    subs = ("Subs", ("Binary", H.ADD, V("xq__B", "Real"), V("zq", "Real")), (("xq__B", V("yq", "Real")),))
    assert H.free_mangled(subs) == set()
    # a substituted VALUE is outside the binder's scope
    subs2 = ("Subs", V("zq", "Real"), (("xq__B", V("xq__B", "Real")),))
    assert H.free_mangled(subs2) == {"xq__B"}


def test_nodes_lists_closed_objects_only():
    spec = H.resolve(H.RECIPES["red"].expect["lazy"], {"s0": 0, "s1": 0, "s2": 0})
    ns = H.nodes(spec)
    heads = [n[0] for n in ns]
    # the Reduce itself, the op, the free Variable vq and the two domains; NOT the open Binary v[i__B] nor Variable i__B
    assert heads.count("Reduce") == 1 and "Binary" not in heads
    assert V("vq", "Reals[2]") in ns and V("iq__B", "Bint[2]") not in ns
    assert DOM("Reals[2]") in ns
    prod = H.RECIPES["dProd"].expect["eager"]
    assert H.nodes(prod) == [prod, DOM("Bint[7]"), DOM("Reals[5]")]


def test_resolve_relativise_matches():
    gens = {"s0": 3, "s1": 0, "s2": 1}
    key = H.resolve(H.RECIPES["gauss"].expect["eager"], gens)
    assert key == ("Gaussian", ("arr", "s2", 1), ("arr", "s1", 0), (("gq", DOM("Reals[2]")),))
    # one realloc of s2 later the held key is one generation behind on s2
    gens2 = dict(gens, s2=2)
    assert H.relativise(key, gens2) == ("Gaussian", ("arr", "s2", 1), ("arr", "s1", 0), (("gq", DOM("Reals[2]")),))
    exp = H.RECIPES["binTT"].expect["eager"]
    assert H.matches(exp, ("Tensor", ("arr?", 4), (), "real"))
    assert not H.matches(exp, ("Tensor", ("arr", "s2", 0), (), "real"))
    assert not H.matches(("Number", 2, "real"), ("Number", 2.0, "real"))  # int is not float
    assert H.has_arrays(key) and not H.has_arrays(H.RECIPES["bin"].expect["lazy"])


def test_first_diff_path():
    exp = H.resolve(H.RECIPES["binT"].expect["lazy"], {"s0": 0, "s1": 1, "s2": 0})
    act = H.resolve(H.RECIPES["binT"].expect["lazy"], {"s0": 0, "s1": 0, "s2": 0})
    path, e, a = H.first_diff(exp, act)
    assert path.format("res") == "res._ast_values[1]._ast_values[0]"
    assert e == ("arr", "s1", 1) and a == ("arr", "s1", 0)
    t3 = H.resolve(H.RECIPES["t0b"].expect["eager"], {"s0": 0, "s1": 0, "s2": 0})
    t2 = H.resolve(H.RECIPES["t0a"].expect["eager"], {"s0": 0, "s1": 0, "s2": 0})
    assert H.first_diff(t3, t2) == ("{}._ast_values[2]", 3, 2)
    assert H.first_diff(t3, t3) is None


def test_interpretation_classes_of_results():
    r = H.RECIPES
    # lazy and reflect leave x + y a Binary -> one key; eager and normalize evaluate to the same Contraction
    assert r["bin"].expect["lazy"] == r["bin"].expect["reflect"]
    assert r["bin"].expect["eager"] == r["bin"].expect["normalize"] != r["bin"].expect["lazy"]
    # Subs survives only under reflect; lazy already substitutes
    assert r["subs"].expect["reflect"][0] == "Subs" and r["subs"].expect["lazy"][0] == "Binary"
    # the two Tensor recipes on slot s1 differ in the ORDER of inputs only, the two on s0 in dtype only
    a, b = r["t1ij"].expect["eager"], r["t1ji"].expect["eager"]
    assert a != b and a[1] == b[1] and sorted(a[2]) == sorted(b[2])
    a, b = r["t0a"].expect["eager"], r["t0b"].expect["eager"]
    assert a[:3] == b[:3] and (a[3], b[3]) == (2, 3)
    assert r["gauss"].slots == ("s1", "s2") and r["delta"].slots == ("s2",) and r["bin"].slots == ()


def test_model_transitions_and_canonical_state():
    pool = ("t1ij", "binT")
    ms = H.MState(pool)
    c0 = H.canon(ms, pool)
    assert c0 == ("eager", (("s1", 0),), (("t1ij", "N"), ("binT", "N")))
    H.model_step(ms, ("sw", "lazy"))
    H.model_step(ms, ("c", "binT"))
    H.model_step(ms, ("c", "t1ij"))
    t1 = ("Tensor", ("arr", "s1", 0), (("iq", DOM("Bint[2]")), ("jq", DOM("Bint[2]"))), "real")
    assert ms.status["t1ij"] == ("H", t1)
    assert ms.status["binT"] == ("H", ("Binary", H.ADD, t1, V("yq", "Real")))
    H.model_step(ms, ("d", "t1ij"))
    assert ms.status["t1ij"] == ("D",)
    # the Tensor is still reachable: it is a sub-term of the held Binary
    assert t1 in H.reachable(ms)
    H.model_step(ms, ("gc",))
    assert ms.status["t1ij"] == ("C",) and t1 in H.reachable(ms)
    H.model_step(ms, ("d", "binT"))
    assert H.reachable(ms) == set()
    # realloc: a later construct of t1ij is keyed by the new generation
    H.model_step(ms, ("ra", "s1"))
    assert H.expected_key(ms, "t1ij")[1] == ("arr", "s1", 1)
    assert H.canon(ms, pool) == ("lazy", (("s1", 1),), (("t1ij", "C"), ("binT", "D")))
    # a held handle built before the realloc is one generation behind in the canonical state
    ms2 = H.MState(pool)
    H.model_step(ms2, ("c", "t1ij"))
    H.model_step(ms2, ("ra", "s1"))
    assert H.canon(ms2, pool)[2][0] == ("t1ij", "H", ("Tensor", ("arr", "s1", 1), t1[2], "real"))
    assert H.canon_text(H.canon(ms2, pool)) == "eager|s1%2=1|t1ij=H[Tensor,s1@-1]"
    # two histories that differ only in gensym numbers / ids / order reach the same canonical state
    a, b = H.MState(pool), H.MState(pool)
    for ev in (("c", "t1ij"), ("c", "binT")):
        H.model_step(a, ev)
    for ev in (("c", "binT"), ("gc",), ("c", "t1ij"), ("c", "t1ij")):
        H.model_step(b, ev)
    assert H.canon(a, pool) == H.canon(b, pool)


def test_retained_includes_premangle_arguments():
    ms = H.MState(("subs",))
    H.model_step(ms, ("sw", "reflect"))
    H.model_step(ms, ("c", "subs"))
    # the Subs is cached under the arguments as written: Variable xq stays alive through that key ...
    assert V("xq", "Real") in H.retained(ms)
    # ... but it is not a sub-term of the (alpha-mangled) handle
    assert V("xq", "Real") not in H.reachable(ms)
    assert V("yq", "Real") in H.reachable(ms)


def test_menu():
    pool = ("t0a", "dB7")
    ms = H.MState(pool)
    assert H.menu(ms, pool) == [("c", "t0a"), ("c", "dB7"), ("gc",), ("ra", "s0"),
                                ("sw", "lazy"), ("sw", "reflect"), ("sw", "normalize")]
    H.model_step(ms, ("c", "dB7"))
    assert ("d", "dB7") in H.menu(ms, pool) and ("d", "t0a") not in H.menu(ms, pool)
    assert H.observer_events(ms, pool) == [("cp", "dB7"), ("pk", "dB7"), ("dc", "dB7")]  # no reinterpret of a domain
    # a pool without terms has no switch and no realloc events
    assert H.menu(H.MState(("oS0",)), ("oS0",)) == [("c", "oS0"), ("gc",)]
    assert H.liveness_predicted(DOM("Bint[7]")) and not H.liveness_predicted(DOM("Bint[2]"))


# ---- harness on the real library ---------------------------------------------------------------------------------


@pytest.fixture(scope="module")
def harness():
    from fv.props import c07

    e = c07.env()
    e.prepare(0, only=("t0a", "t0b", "t1ij", "binT", "oS0", "oS1"))
    yield c07
    e.unfreeze()
    gc.enable()


def test_real_history_passes_and_labels(harness):
    ex = harness.Exec(0)
    hist = (("c", "t0a"), ("d", "t0a"), ("gc",), ("ra", "s0"), ("c", "t0a"), ("c", "t0b"), ("sw", "lazy"), ("c", "t0a"))
    labels, viol = ex.run(("t0a", "t0b"), hist, check_all=True, tail=[("cp", "t0a"), ("pk", "t0a"), ("ri", "t0a")])
    assert viol is None
    assert labels[0] == "c:term:miss/new" and labels[1] == "d" and labels[3].startswith("ra:")
    assert labels[7] == "c:term:held"  # same arguments under lazy: the handle built under eager
    assert labels[-3:] == ["cp:identical", "pk:copy", "ri:identical"]
    assert ex.ms.status["t0a"][1][1] == ("arr", "s0", 1)


def test_subterm_is_shared_and_kept_alive(harness):
    ex = harness.Exec(0)
    hist = (("sw", "reflect"), ("c", "binT"), ("c", "t1ij"), ("d", "t1ij"), ("gc",), ("c", "t1ij"))
    labels, viol = ex.run(("t1ij", "binT"), hist, check_all=True)
    assert viol is None
    assert labels[2] == "c:term:hit/same" and labels[5] == "c:term:hit/same"


def test_harness_detects_wrong_expectation_and_leak(harness):
    rec = H.RECIPES["t0a"]
    ex = harness.Exec(0)
    good = rec.expect
    try:
        rec.expect = {i: ("Tensor", A("s0"), (("iq", DOM("Bint[2]")),), 3) for i in H.INTERPS}
        labels, viol = ex.run(("t0a",), (("c", "t0a"),), check_all=True)
        assert viol is not None and viol.check == "stale" and viol.site == "cons:Tensor"
        assert viol.asserts == ["assert res._ast_values[2] == 3"]
    finally:
        rec.expect = good
    # something else keeps the term alive -> the liveness invariant must fire at the gc event
    e = harness.env()
    keep = []
    e.ns["KEEP"] = keep
    code = e.code["t0a"]
    try:
        e.code["t0a"] = compile("(KEEP.append(%s), KEEP[-1])[1]" % rec.src, "<leak>", "eval")
        labels, viol = ex.run(("t0a",), (("c", "t0a"), ("d", "t0a"), ("gc",)), check_all=True)
        assert viol is not None and viol.check == "liveness" and viol.site == "weak:Tensor" and viol.at == 2
        snip = harness.snippet(0, (("c", "t0a"), ("d", "t0a"), ("gc",)), viol)
        assert "assert w0_" in snip and "del h_t0a" in snip
    finally:
        e.code["t0a"] = code
        del keep[:]
        e.ns.pop("KEEP", None)
    labels, viol = ex.run(("t0a",), (("c", "t0a"), ("d", "t0a"), ("gc",)), check_all=True)
    assert viol is None


def test_small_search_counts(harness):
    from fv import core

    rep = core.Report("C07", "quick", 0)
    info = harness.search_merged(("oS0", "oS1"), 5, 0, rep, harness.Exec(0))
    # two independent ops, each N/H/D/C, every combination reachable within 5 events: 4*4 = 16 states
    assert info["states"] == 16 and info["max_depth"] == 5 and rep.status["violation"] == 0
