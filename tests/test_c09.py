"""Hand-computed checks of the plated reference model (fv.ref.plated) used by C09."""
import itertools
import math

import numpy as np

from fv.ref import plated

SZ = {"a": 2, "b": 2, "i": 2, "j": 3}
F = (("a", "i"), np.array([[1.0, 2.0], [3.0, 4.0]]))  # f[a,i]
G = (("a",), np.array([5.0, 7.0]))  # g[a]


def val(res):
    return np.asarray(res[1]).tolist()


def test_variable_inside_plate():
    # a occurs only in f[a,i]: it lives in plate i -> PROD_i SUM_a f = (1+3)*(2+4)
    for fn in (plated.unroll, plated.unroll_python, plated.unroll_nested):
        k, t = fn([F], SZ, {"a"}, {"i"}, "add-mul")
        assert k == () and np.isclose(t, 24.0)


def test_variable_shared_with_unplated_factor_is_global():
    # g[a] has no plate: a is global -> SUM_a g[a] PROD_i f[a,i] = 5*1*2 + 7*3*4
    for fn in (plated.unroll, plated.unroll_python, plated.unroll_nested):
        k, t = fn([F, G], SZ, {"a"}, {"i"}, "add-mul")
        assert k == () and np.isclose(t, 94.0)


def test_kept_plate_is_a_batch_index():
    # eliminate a only: result[i] = SUM_a g[a] f[a,i]
    for fn in (plated.unroll, plated.unroll_python, plated.unroll_nested):
        k, t = fn([F, G], SZ, {"a"}, set(), "add-mul")
        assert k == ("i",) and np.allclose(t, [5 + 21, 10 + 28])


def test_kept_variable_is_a_batch_index():
    # eliminate plate i only, a kept: result[a] = g[a] * PROD_i f[a,i]
    k, t = plated.unroll([F, G], SZ, set(), {"i"}, "add-mul")
    assert k == ("a",) and np.allclose(t, [5 * 2, 7 * 12])


def test_axis_layout_is_by_name():
    ft = (("i", "a"), F[1].T.copy())
    k, t = plated.unroll([ft, G], SZ, {"a"}, {"i"}, "add-mul")
    assert np.isclose(t, 94.0)


def test_other_semirings():
    k, t = plated.unroll([F, G], SZ, {"a"}, {"i"}, "max-add")
    assert np.isclose(t, max(5 + 1 + 2, 7 + 3 + 4))
    k, t = plated.unroll([F, G], SZ, {"a"}, {"i"}, "logaddexp-add")
    assert np.isclose(t, math.log(math.exp(5 + 3) + math.exp(7 + 7)))
    k, t = plated.unroll_nested([F, G], SZ, {"a"}, {"i"}, "logaddexp-add")
    assert np.isclose(t, math.log(math.exp(5 + 3) + math.exp(7 + 7)))


def test_scale_is_exponent_of_plate_product():
    k, t = plated.unroll_nested([F, G], SZ, {"a"}, {"i"}, "add-mul", {"i": 2})
    assert np.isclose(t, 5 * 2**2 + 7 * 12**2)
    k, t = plated.unroll_nested([F, G], SZ, {"a"}, {"i"}, "add-mul", {"i": 0.5})
    assert np.isclose(t, 5 * math.sqrt(2) + 7 * math.sqrt(12))
    # log space: the scale multiplies
    k, t = plated.unroll_nested([F, G], SZ, {"a"}, {"i"}, "max-add", {"i": 2})
    assert np.isclose(t, max(5 + 2 * 3, 7 + 2 * 7))
    # an integer scale is the same as repeating the plate (the reading used by funsor's own tests)
    f2 = (("a", "i"), np.concatenate([F[1], F[1]], axis=1))
    k, t2 = plated.unroll([f2, G], dict(SZ, i=4), {"a"}, {"i"}, "add-mul")
    k, t = plated.unroll_nested([F, G], SZ, {"a"}, {"i"}, "add-mul", {"i": 2})
    assert np.isclose(t, t2)


def test_nested_scales():
    h = (("a", "i", "j"), np.arange(1.0, 13.0).reshape(2, 2, 3))
    g = (("a", "i"), np.array([[1.0, 2.0], [3.0, 4.0]]))
    # a lives in i (both factors have i, only h has j):  (PROD_i SUM_a g[a,i] (PROD_j h[a,i,j])^t)^s
    s, t = 2, 0.5
    want = 1.0
    for i in range(2):
        inner = sum(g[1][a, i] * np.prod(h[1][a, i, :]) ** t for a in range(2))
        want *= inner
    want **= s
    k, got = plated.unroll_nested([h, g], SZ, {"a"}, {"i", "j"}, "add-mul", {"i": s, "j": t})
    assert np.isclose(got, want)


def test_intractable_graph():
    fa = (("a", "b", "i", "j"), np.arange(1.0, 25.0).reshape(2, 2, 2, 3) / 7)
    ga = (("a", "i"), np.array([[1.0, 2.0], [3.0, 4.0]]))
    hb = (("b", "j"), np.array([[1.0, 0.5, 2.0], [3.0, 1.5, 0.25]]))
    names = [fa[0], ga[0], hb[0]]
    assert not plated.tractable(names, {"a", "b"}, {"i", "j"})
    assert plated.tractable(names, {"a", "b"}, {"i"})  # j kept: a batch index
    assert plated.tractable([fa[0]], {"a", "b"}, {"i", "j"})  # alone: both variables live in {i,j}
    try:
        plated.unroll_nested([fa, ga, hb], SZ, {"a", "b"}, {"i", "j"}, "add-mul")
        assert False
    except plated.Intractable:
        pass
    # the flat definitions still give the value, and agree with each other
    k1, t1 = plated.unroll([fa, ga, hb], SZ, {"a", "b"}, {"i", "j"}, "add-mul")
    k2, t2 = plated.unroll_python([fa, ga, hb], SZ, {"a", "b"}, {"i", "j"}, "add-mul")
    assert np.isclose(t1, t2)
    # by hand: a has copies a_i (2), b has copies b_j (3)
    want = 0.0
    for acop in itertools.product(range(2), repeat=2):
        for bcop in itertools.product(range(2), repeat=3):
            p = 1.0
            for i in range(2):
                p *= ga[1][acop[i], i]
            for j in range(3):
                p *= hb[1][bcop[j], j]
            for i in range(2):
                for j in range(3):
                    p *= fa[1][acop[i], bcop[j], i, j]
            want += p
    assert np.isclose(t1, want)


def test_request_predicates():
    fa, g = ("a", "i"), ("a",)
    assert plated.pedantic_invalid([fa], {"i"}, {"i"})  # a preserved inside eliminated plate i
    assert not plated.pedantic_invalid([fa, g], {"i"}, {"i"})  # a is global
    assert not plated.pedantic_invalid([fa], {"a", "i"}, {"i"})
    # f[a,i] alone: a lives in i -> sum a first (i batch), then multiply; not the other way round
    assert plated.split_valid([fa], "a", "i", {"i"})
    assert not plated.split_valid([fa], "i", "a", {"i"})
    # f[a,i], g[a]: a global -> multiply the plate out first, then sum a; not the other way round
    assert plated.split_valid([fa, g], "i", "a", {"i"})
    assert not plated.split_valid([fa, g], "a", "i", {"i"})
    # and the numbers say the same
    k, both = plated.unroll([F, G], SZ, {"a"}, {"i"}, "add-mul")
    k1, first = plated.unroll([F, G], SZ, {"a"}, set(), "add-mul")  # over i
    assert not np.isclose(np.prod(first), both)
    k2, first = plated.unroll([F, G], SZ, set(), {"i"}, "add-mul")  # over a
    assert np.isclose(np.sum(first), both)


def test_three_implementations_agree_on_a_sample():
    names = ["", "a", "ai", "abj", "bij", "aij", "abij", "j"]
    rng_fill = lambda k, shape: 0.5 + ((np.arange(int(np.prod(shape)) if shape else 1) * 0.37 + 0.11 * k) % 1.0).reshape(shape)  # noqa
    n = 0
    for g in itertools.combinations_with_replacement(names, 3):
        fs = [(tuple(s), rng_fill(k + 1, tuple(SZ[c] for c in s))) for k, s in enumerate(g)]
        present = sorted({c for s in g for c in s})
        for r in (len(present), max(len(present) - 1, 0)):
            for E in itertools.combinations(present, r):
                ev = {c for c in E if c in "ab"}
                ep = {c for c in E if c in "ij"}
                k1, t1 = plated.unroll(fs, SZ, ev, ep, "add-mul")
                if n % 5 == 0 and len(plated.ordinals([f[0] for f in fs], ev, ep)) <= 2:
                    k2, t2 = plated.unroll_python(fs, SZ, ev, ep, "add-mul")
                    assert k1 == k2 and np.allclose(t1, t2, rtol=1e-10)
                ok = plated.tractable([f[0] for f in fs], ev, ep)
                try:
                    k3, t3 = plated.unroll_nested(fs, SZ, ev, ep, "add-mul")
                    assert ok and k1 == k3 and np.allclose(t1, t3, rtol=1e-10)
                except plated.Intractable:
                    assert not ok
                n += 1
    assert n > 300
