"""Hand-computed checks of the C11 reference (fv.ref.adjref: brute-force semiring derivatives) and a smoke test of the
checker on three expressions whose adjoints were derived by hand."""
import sys

import numpy as np

sys.path.insert(0, "/repo")

from fv.ref import adjref as R  # noqa: E402

A = [[1.0, 2.0, 3.0], [4.0, 5.0, 6.0]]  # A[a, b]
B = [[1.0, 10.0], [2.0, 20.0], [3.0, 30.0]]  # B[b, c]
C = [10.0, 100.0]  # C[c]
LEAVES = {
    "1": {"inputs": [["a", 2], ["b", 3]], "zeros": [], "data": A},
    "2": {"inputs": [["b", 3], ["c", 2]], "zeros": [], "data": B},
    "3": {"inputs": [["c", 2]], "zeros": [], "data": C},
}
FLAT = ["sum", ["mul", [["leaf", 1], ["leaf", 2], ["leaf", 3]]], ["a", "b"]]


def _tbl(na, names):
    return R.expand(na, names) if len(na.names) == len(names) else None


def test_named_arrays():
    x = R.NA(["a", "b"], np.array(A))
    y = R.NA(["b"], np.array([1.0, 10.0, 100.0]))
    z = R.mul(x, y)
    assert z.names == ("a", "b") and z.arr.tolist() == [[1.0, 20.0, 300.0], [4.0, 50.0, 600.0]]
    assert R.sum_over(z, ["b"]).arr.tolist() == [321.0, 654.0]
    assert R.prod_over(x, ["a"]).arr.tolist() == [4.0, 10.0, 18.0]
    assert R.take(x, "b", "s", range(0, 3, 2)).arr.tolist() == [[1.0, 3.0], [4.0, 6.0]]
    assert R.take(x, "b", "p", [2, 0, 1]).arr.tolist() == [[3.0, 1.0, 2.0], [6.0, 4.0, 5.0]]
    # x lacks nothing, w lacks 'a': broadcast when concatenated along b
    w = R.NA(["b"], np.array([7.0]))
    cat = R.concat([x, w], "b")
    assert cat.names == ("a", "b") and cat.arr.tolist() == [[1.0, 2.0, 3.0, 7.0], [4.0, 5.0, 6.0, 7.0]]


def test_flat_forward_and_adjoints_by_hand():
    # root[c] = sum_ab A[a,b] B[b,c] C[c];  column sums of A are (5, 7, 9)
    fwd = R.forward(FLAT, LEAVES, 0)
    assert fwd.names == ("c",)
    assert fwd.arr.tolist() == [(5 * 1 + 7 * 2 + 9 * 3) * 10.0, (5 * 10 + 7 * 20 + 9 * 30) * 100.0]
    # d root[c] / d A[a,b] = B[b,c] C[c]   (a root input the leaf lacks stays an input; independent of a)
    adj_a = R.expected_adjoint(FLAT, LEAVES, 0, 1, "root-free-kept")
    assert set(adj_a.names) == {"a", "b", "c"}
    got = R.expand(adj_a, ("a", "b", "c"))
    want = np.einsum("bc,c->bc", np.array(B), np.array(C))
    assert np.array_equal(got[0], want) and np.array_equal(got[1], want)
    # d root[c] / d C[c] = sum_ab A[a,b] B[b,c]   (the shared name c is pinned by the cell)
    adj_c = R.expected_adjoint(FLAT, LEAVES, 0, 3, "root-free-kept")
    assert adj_c.names == ("c",) and adj_c.arr.tolist() == [46.0, 460.0]
    # d root[c] / d B[b,c] = (sum_a A[a,b]) C[c]
    adj_b = R.expected_adjoint(FLAT, LEAVES, 0, 2, "root-free-kept")
    assert np.array_equal(R.expand(adj_b, ("b", "c")), np.outer([5.0, 7.0, 9.0], C))
    # "total" convention = derivative of the total of the root: additionally summed over c
    tot = R.expected_adjoint(FLAT, LEAVES, 0, 1, "total")
    assert np.array_equal(R.expand(tot, ("a", "b")), np.array([[1010.0, 2020.0, 3030.0]] * 2))


def test_direct_formula_sum_of_product_of_other_factors():
    # the statement's formula for a flat product: sum over the variables the leaf lacks of the product of the others
    a, b, c = np.array(A), np.array(B), np.array(C)
    e = ["sum", ["mul", [["leaf", 1], ["leaf", 2], ["leaf", 3]]], ["a", "b", "c"]]
    assert np.allclose(R.expand(R.expected_adjoint(e, LEAVES, 0, 1, "total"), ("a", "b")), np.einsum("bc,c->b", b, c)[None, :].repeat(2, 0))
    assert np.allclose(R.expected_adjoint(e, LEAVES, 0, 3, "total").arr, np.einsum("ab,bc->c", a, b))
    assert np.allclose(R.expand(R.expected_adjoint(e, LEAVES, 0, 2, "total"), ("b", "c")), np.einsum("ab,c->bc", a, c))


def test_leaf_used_twice_sums_over_occurrences():
    # root = sum_ab A[a,b]^2 -> d/dA = 2A ;  root[a] = sum_b A[a,b] A[z=a.., b] with a renamed occurrence
    e = ["sum", ["mul", [["leaf", 1], ["leaf", 1]]], ["a", "b"]]
    assert np.array_equal(R.expected_adjoint(e, LEAVES, 0, 1, "total").arr, 2 * np.array(A))
    # root = sum_{a,z,b} A[a,b] A[z,b]  -> d/dA[x,b] = 2 sum_a A[a,b] = 2*(5,7,9)
    e2 = ["sum", ["mul", [["leaf", 1], ["ren", 1, "a", "z"]]], ["a", "z", "b"]]
    assert np.array_equal(R.expected_adjoint(e2, LEAVES, 0, 1, "total").arr, np.array([[10.0, 14.0, 18.0]] * 2))


def test_slice_index_cat():
    # sum_{s,c} A[a, b=0+2s] C[c] : derivative 110 at b in {0, 2}, 0 at b = 1, root input a pinned
    e = ["sum", ["mul", [["slice", 1, "b", "s", 0, 3, 2], ["leaf", 3]]], ["s", "c"]]
    assert R.forward(e, LEAVES, 0).arr.tolist() == [(1 + 3) * 110.0, (4 + 6) * 110.0]
    assert np.array_equal(R.expected_adjoint(e, LEAVES, 0, 1, "total").arr, np.array([[110.0, 0.0, 110.0]] * 2))
    # injective index map p -> b = (2, 0):  sum_p A[a, idx[p]] * w[p] -> d/dA[a, b] = w[p: idx[p] = b]
    lv = dict(LEAVES)
    lv["4"] = {"inputs": [["p", 2]], "zeros": [], "data": [7.0, 9.0]}
    e = ["sum", ["mul", [["index", 1, "b", "p", [2, 0]], ["leaf", 4]]], ["p", "a"]]
    assert R.forward(e, lv, 0).arr.tolist() == 7.0 * (3 + 6) + 9.0 * (1 + 4)
    assert np.array_equal(R.expected_adjoint(e, lv, 0, 1, "total").arr, np.array([[9.0, 0.0, 7.0]] * 2))
    # Cat along b of X[b:1] and Y[b:2], times W[b:3], summed: d/dX = W[0], d/dY = W[1:], d/dW = cat(X, Y)
    lv = {
        "1": {"inputs": [["b", 1]], "zeros": [], "data": [2.0]},
        "2": {"inputs": [["b", 2]], "zeros": [], "data": [3.0, 5.0]},
        "3": {"inputs": [["b", 3]], "zeros": [], "data": [10.0, 100.0, 1000.0]},
    }
    e = ["sum", ["mul", [["cat", "b", [["leaf", 1], ["leaf", 2]]], ["leaf", 3]]], ["b"]]
    assert R.forward(e, lv, 0).arr.tolist() == 20.0 + 300.0 + 5000.0
    assert R.expected_adjoint(e, lv, 0, 1, "root-free-kept").arr.tolist() == [10.0]
    assert R.expected_adjoint(e, lv, 0, 2, "root-free-kept").arr.tolist() == [100.0, 1000.0]
    assert R.expected_adjoint(e, lv, 0, 3, "root-free-kept").arr.tolist() == [2.0, 3.0, 5.0]
    # b left free in the root: the part's cell pins root b = offset + cell
    e = ["mul", [["cat", "b", [["leaf", 1], ["leaf", 2]]], ["leaf", 3]]]
    assert R.expected_adjoint(e, lv, 0, 2, "root-free-kept").arr.tolist() == [100.0, 1000.0]


def test_plate_product_rule_and_zero_cell():
    # root[c] = prod_b sum_a A[a,b] C[c] = C[c]^3 * 5*7*9
    e = ["prod", ["sum", ["mul", [["leaf", 1], ["leaf", 3]]], ["a"]], ["b"]]
    assert R.forward(e, LEAVES, 0).arr.tolist() == [315e3, 315e6]
    adj = R.expand(R.expected_adjoint(e, LEAVES, 0, 1, "root-free-kept"), ("c", "a", "b"))
    # d/dA[a,b] = C^3 * 315 / colsum[b]
    assert np.allclose(adj[0, 0], [63000.0, 45000.0, 35000.0]) and np.allclose(adj[1, 1], [63e6, 45e6, 35e6])
    # d/dC[c] = 3 C[c]^2 * 315  (the leaf lacks the plate variable: one term per plate instance)
    assert np.allclose(R.expected_adjoint(e, LEAVES, 0, 3, "root-free-kept").arr, [94500.0, 9450000.0])
    # a zero cell under a plate: prod_b V[b], V = (0, 2, 3): derivative (6, 0, 0); in log space (log 6, -inf, -inf)
    lv = {"1": {"inputs": [["b", 3]], "zeros": [0], "data": [5.0, 2.0, 3.0]}}
    e = ["prod", ["leaf", 1], ["b"]]
    assert R.forward(e, lv, 0).arr.tolist() == 0.0
    d = R.expected_adjoint(e, lv, 0, 1, "root-free-kept")
    assert d.arr.tolist() == [6.0, 0.0, 0.0]
    lg = R.to_domain(d, "log").arr
    assert abs(lg[0] - np.log(6.0)) < 1e-12 and lg[1] == -np.inf and lg[2] == -np.inf


def test_nested_scopes_keep_same_name_apart():
    # root[a] = t1[a] * sum_{a'} t3[a'] * t2 : the inner a is a different variable from the free a
    lv = {
        "1": {"inputs": [["a", 2]], "zeros": [], "data": [2.0, 3.0]},
        "2": {"inputs": [], "zeros": [], "data": 5.0},
        "3": {"inputs": [["a", 2]], "zeros": [], "data": [7.0, 11.0]},
    }
    e = ["mul", [["leaf", 1], ["sum", ["mul", [["leaf", 2], ["leaf", 3]]], ["a"]]]]
    assert R.forward(e, lv, 0).arr.tolist() == [2.0 * 5 * 18, 3.0 * 5 * 18]
    assert R.expected_adjoint(e, lv, 0, 2, "root-free-kept").arr.tolist() == [36.0, 54.0]
    # leaf 3's own a is bound inside: its derivative does not pin the root's a; total = sum_a t1[a] * t2 = 25
    assert R.expected_adjoint(e, lv, 0, 3, "total").arr.tolist() == [25.0, 25.0]


def test_checker_on_hand_cases():
    from fv.props import c11

    lv = {1: c11._leaf(("a", "b")), 2: c11._leaf(("b", "c")), 3: c11._leaf(("c",))}
    for sr in c11.SEMIRINGS:
        for opt in (0, 1, 2):
            out = c11.check(c11._case("flat", sr, opt, lv, FLAT), 0)
            assert out["status"] == "ok", out
    # JSON round trip of a case gives the same verdict and key
    import json

    case = c11._case("flat", "log", 1, lv, FLAT)
    again = c11.check(json.loads(json.dumps(case)), 0)
    assert again["status"] == "ok" and again["key"] == c11.check(case, 0)["key"]
    # comparison helper: an omitted input is accepted only if the table does not depend on it
    exp = R.NA(["a", "c"], np.array([[1.0, 2.0], [1.0, 2.0]]))
    assert c11.compare((("c",), (2,), np.array([1.0, 2.0])), exp)[0] == "ok"
    assert c11.compare((("a",), (2,), np.array([1.0, 1.0])), exp)[0] == "missing-input"
    assert c11.compare((("c",), (2,), np.array([1.0, 2.5])), exp)[0] == "value"
    assert c11.compare((("c", "z"), (2, 1), np.array([[1.0], [2.0]])), exp)[0] == "inputs"
    assert c11.compare(((), (), np.array(-np.inf)), R.NA([], np.array(-np.inf)))[0] == "ok"
    assert c11.compare(((), (), np.array(-1e300)), R.NA([], np.array(-np.inf)))[0] == "value"


def test_simultaneous_renaming_of_own_inputs():
    # X[a,c] = [[1,2],[3,4]] used as X(a='c', c='a'): the occurrence's (c=i, a=j) reads X[i,j];  W[a] = (10, 100)
    lv = {
        "1": {"inputs": [["a", 2], ["c", 2]], "zeros": [], "data": [[1.0, 2.0], [3.0, 4.0]]},
        "2": {"inputs": [["a", 2]], "zeros": [], "data": [10.0, 100.0]},
    }
    e = ["sum", ["mul", [["mren", 1, [["a", "c"], ["c", "a"]]], ["leaf", 2]]], ["a", "c"]]
    assert R.forward(e, lv, 0).arr.tolist() == (1 + 3) * 10.0 + (2 + 4) * 100.0
    # d/dX[i,j] = W[j]  (the leaf's second axis c was renamed to a)
    d = R.expected_adjoint(e, lv, 0, 1, "total")
    assert np.array_equal(R.expand(d, ("a", "c")), np.array([[10.0, 100.0], [10.0, 100.0]]))
    assert R.expected_adjoint(e, lv, 0, 2, "total").arr.tolist() == [4.0, 6.0]
    # a shift a->c, c->z with c left free: root[c] = sum_z X[c, z] -> derivative of the total is 1 everywhere
    e = ["sum", ["mren", 1, [["a", "c"], ["c", "z"]]], ["z"]]
    assert R.forward(e, lv, 0).arr.tolist() == [3.0, 7.0]
    assert np.array_equal(R.expected_adjoint(e, lv, 0, 1, "total").arr, np.ones((2, 2)))


def test_substitution_onto_own_name_is_a_diagonal():
    # X[a,c] = [[1,2],[3,4]]:  X(a='c')[c] = X[c,c] = (1, 4);  d sum_c X[c,c] / dX = identity matrix
    lv = {"1": {"inputs": [["a", 2], ["c", 2]], "zeros": [], "data": [[1.0, 2.0], [3.0, 4.0]]}}
    e = ["ren", 1, "a", "c"]
    assert R.forward(e, lv, 0).names == ("c",) and R.forward(e, lv, 0).arr.tolist() == [1.0, 4.0]
    d = R.expected_adjoint(["sum", e, ["c"]], lv, 0, 1, "total")
    assert np.array_equal(R.expand(d, ("a", "c")), np.eye(2))
    # index tensor indexed by the leaf's other input: Y[a,b](a=idx[b]), idx = (1, 0, 1) -> (Y[1,0], Y[0,1], Y[1,2])
    lv = {"1": {"inputs": [["a", 2], ["b", 3]], "zeros": [], "data": [[1.0, 2.0, 3.0], [4.0, 5.0, 6.0]]}}
    e = ["index", 1, "a", "b", [1, 0, 1]]
    assert R.forward(e, lv, 0).arr.tolist() == [4.0, 2.0, 6.0]
    d = R.expected_adjoint(["sum", e, ["b"]], lv, 0, 1, "total")
    assert np.array_equal(R.expand(d, ("a", "b")), np.array([[0.0, 1.0, 0.0], [1.0, 0.0, 1.0]]))
