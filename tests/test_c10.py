"""Hand-computed checks of the C10 reference fold (fv.ref.markov) and a smoke test of the driver."""
import itertools
import sys

import numpy as np

sys.path.insert(0, "/repo")

from fv.ref import markov as m  # noqa: E402

A = np.array([[1.0, 2.0], [3.0, 4.0]])
P = np.array([[0.0, 1.0], [1.0, 0.0]])


def test_semiring_ops():
    assert m.s_sum("add_mul", np.array([1.0, 2.0, 4.0]), 0) == 7.0
    assert m.s_sum("max_add", np.array([1.0, 5.0, 4.0]), 0) == 5.0
    assert m.s_sum("min_add", np.array([1.0, 5.0, 4.0]), 0) == 1.0
    assert abs(m.s_sum("logaddexp_add", np.log(np.array([1.0, 2.0, 5.0])), 0) - np.log(8.0)) < 1e-12
    assert m.s_sum("logaddexp_add", np.array([-np.inf, -np.inf]), 0) == -np.inf
    assert abs(m.s_sum("logaddexp_add", np.array([-np.inf, 1000.0]), 0) - 1000.0) < 1e-12
    assert m.s_prod("add_mul", 2.0, 3.0) == 6.0 and m.s_prod("max_add", 2.0, 3.0) == 5.0
    assert m.s_prod("max_mul", 2.0, 3.0) == 6.0 and m.s_zero("min_add") == np.inf
    r = m.s_sum("logaddexp_add", np.log(np.arange(1.0, 7.0)).reshape(2, 3), (0, 1))
    assert abs(r - np.log(21.0)) < 1e-12


def test_chain_is_matrix_product_left_to_right():
    # [[1,2],[3,4]] . [[0,1],[1,0]] = [[2,1],[4,3]]   (the other order gives [[3,4],[1,2]])
    assert np.array_equal(m.chain_fold("add_mul", [A, P], 1), np.array([[2.0, 1.0], [4.0, 3.0]]))
    assert np.array_equal(m.chain_fold("add_mul", [P, A], 1), np.array([[3.0, 4.0], [1.0, 2.0]]))
    assert np.array_equal(m.chain_fold("add_mul", [A], 1), A)
    # three factors: (A.P).A = [[2,1],[4,3]].[[1,2],[3,4]] = [[5,8],[13,20]]
    assert np.array_equal(m.chain_fold("add_mul", [A, P, A], 1), np.array([[5.0, 8.0], [13.0, 20.0]]))


def test_chain_tropical_by_hand():
    X = np.array([[0.0, 1.0], [2.0, 3.0]])
    Y = np.array([[1.0, 0.0], [0.0, 5.0]])
    # (X (x) Y)[i,k] = max_j X[i,j] + Y[j,k]
    assert np.array_equal(m.chain_fold("max_add", [X, Y], 1), np.array([[1.0, 6.0], [3.0, 8.0]]))
    # min_j X[i,j] + Y[j,k]
    assert np.array_equal(m.chain_fold("min_add", [X, Y], 1), np.array([[1.0, 0.0], [3.0, 2.0]]))
    # max_j X[i,j] * Y[j,k]
    assert np.array_equal(m.chain_fold("max_mul", [X, Y], 1), np.array([[0.0, 5.0], [2.0, 15.0]]))
    got = m.chain_fold("logaddexp_add", [np.log(A), np.log(A)], 1)
    assert np.allclose(got, np.log(A @ A))
    Z = np.full((2, 2), -np.inf)
    assert np.all(m.chain_fold("logaddexp_add", [np.log(A), Z], 1) == -np.inf)


def test_chain_batch_and_two_pairs_against_loops():
    rng = np.random.RandomState(0)
    T, nb, s1, s2 = 3, 2, 2, 3
    Ts = [rng.rand(nb, s1, s2, s1, s2) + 0.5 for _ in range(T)]
    for sr in m.SEMIRINGS:
        data = Ts if sr.endswith("_mul") else [np.log(t) for t in Ts]
        got = m.chain_fold(sr, data, 2)
        assert got.shape == (nb, s1, s2, s1, s2)
        for b in range(nb):
            for p in itertools.product(range(s1), range(s2)):
                for c in itertools.product(range(s1), range(s2)):
                    terms = []
                    for u in itertools.product(range(s1), range(s2)):
                        for v in itertools.product(range(s1), range(s2)):
                            f = [data[0][(b,) + p + u], data[1][(b,) + u + v], data[2][(b,) + v + c]]
                            terms.append(np.prod(f) if sr.endswith("_mul") else sum(f))
                    kind = sr.split("_")[0]
                    want = {"add": sum, "max": max, "min": min, "logaddexp": lambda x: np.log(np.sum(np.exp(x)))}[kind](terms)
                    assert abs(got[(b,) + p + c] - want) < 1e-10


def test_lag1_is_the_chain():
    rng = np.random.RandomState(1)
    Ts = [rng.rand(3, 3) + 0.5 for _ in range(4)]  # axes (x at t-1, x at t)
    for sr in ("add_mul", "max_mul"):
        f = m.lagged_fold(sr, Ts, [("v", "x", 1), ("v", "x", 0)])
        got = m.f_align(f, [("x", "x", -1), ("x", "x", 3)])
        assert np.allclose(got, m.chain_fold(sr, Ts, 1))


def test_lagged_fold_against_full_joint():
    rng = np.random.RandomState(2)
    T, n, g = 4, 2, 3
    labels = [("g", "w"), ("v", "x", 0), ("v", "x", 1), ("v", "x", 3), ("v", "u", 0)]
    Ts = [rng.rand(g, n, n, n, 2) + 0.5 for _ in range(T)]
    f = m.lagged_fold("add_mul", Ts, labels)
    keep = [("g", "w"), ("x", "x", -3), ("x", "x", -2), ("x", "x", -1), ("x", "x", T - 1), ("x", "u", T - 1)]
    got = m.f_align(f, keep)
    want = np.zeros(got.shape)
    times = list(range(-3, T))
    for w in range(g):
        for xs in itertools.product(range(n), repeat=len(times)):
            x = dict(zip(times, xs))
            for us in itertools.product(range(2), repeat=T):
                val = 1.0
                for t in range(T):
                    val *= Ts[t][w, x[t], x[t - 1], x[t - 3], us[t]]
                want[w, x[-3], x[-2], x[-1], x[T - 1], us[T - 1]] += val
    assert np.allclose(got, want)
    # a lag that never reaches before time 0 leaves no such input: T=1, lag set {2} -> x[-2] only
    f1 = m.lagged_fold("add_mul", [rng.rand(n, n)], [("v", "x", 0), ("v", "x", 2)])
    assert sorted(f1[0]) == [("x", "x", -2), ("x", "x", 0)]


def test_driver_smoke():
    from fv.props import c10

    for case in (
        ["seq", "add_mul", 5, [2, 3], ["a"], 1, 0, "g", 0, [0, 1], "seq"],
        ["seq", "logaddexp_add", 4, [3], [], 1, 0, "z", 0, [0], "mixed:3"],
        ["seq", "max_add", 3, [2], ["b"], 0, 0, "g", 0, [0], "naive"],
        ["seq", "min_add", 2, [2], ["a", "b"], 1, 1, "g", 0, [0], "mp_fresh"],
        ["seq", "add_mul", 3, [2, 2], [], 1, 0, "g", 0, [1, 0], "seq"],
        ["seq", "max_add", 5, [3, 3, 3], ["a"], 1, 0, "g", 0, [2, 0, 1], "mp_swap"],
        ["sb", "max_mul", 5, [["x", 2, [1, 3]]], [["g", 2]], "g", 0, "np:2"],
    ):
        out = c10.check(case, 0)
        assert out["status"] == "ok", out
    # a time-independent transition of odd length is declined by the library (AssertionError), not a violation
    out = c10.check(["seq", "add_mul", 3, [2], [], 0, 0, "g", 0, [0], "seq"], 0)
    assert out["status"] == "decline" and "AssertionError" in out["why"]
    assert len(c10.cases("quick")) == len({str(c) for c in c10.cases("quick")})
