"""Runner infrastructure shared by all property checks.

A property module (``fv.props.cXX``) exposes

    ID            "C01"
    LEVEL_RULE    text: how cases are enumerated / what is non-trivial
    ASSUMPTIONS   list of strings
    bounds(tier)  -> dict (reported verbatim in the evidence)
    cases(tier)   -> iterable of JSON-able case descriptors (deterministic, simplest first)
    check(case, seed) -> outcome dict (see ``Outcome`` helpers below)
    describe(case)    -> short string used for evidence samples (optional)

or, for explicit-state searches that cannot be split into independent cases,

    explore(tier, seed, report)  -> None   (calls report.add(outcome) itself)

Outcome dict keys
    status       "ok" | "decline" | "skip" | "violation"
    key          canonical text of the case (distinctness)
    nontrivial   bool   (the mechanism under test was exercised)
    why          reason for decline / skip (counted)
    outcome      short hashable text classifying what was observed (distinct outcomes)
    transitions  int    operations mirrored in the reference for this execution
    counters     {name: int} merged into coverage["counters"]
    violation    {"site": str, "features": {...}, "message": str, "case": ..., "snippet": str, ...}
"""
import hashlib
import importlib
import json
import multiprocessing as mp
import os
import sys
import time
import traceback
from collections import Counter

VERIF = os.path.dirname(os.path.dirname(os.path.abspath(__file__)))
REPO = os.environ.get("FV_REPO", "/repo")
EVIDENCE_DIR = os.environ.get("FV_EVIDENCE_DIR") or os.path.join(VERIF, "evidence")
REPLAY_DIR = os.environ.get("FV_REPLAY_DIR") or os.path.join(VERIF, "replays")
FINDINGS_FILE = os.path.join(VERIF, "known_findings.json")
NPROC = int(os.environ.get("VERIF_JOBS", "16"))


def seed_from_env():
    try:
        return int(os.environ.get("VERIF_SEED", "0"))
    except ValueError:
        return 0


# ---------------------------------------------------------------------------
# outcomes


def ok(key, nontrivial=True, outcome="ok", transitions=1, counters=None):
    return {
        "status": "ok",
        "key": key,
        "nontrivial": bool(nontrivial),
        "outcome": outcome,
        "transitions": transitions,
        "counters": counters or {},
    }


def decline(key, why, transitions=0, counters=None):
    return {
        "status": "decline",
        "key": key,
        "nontrivial": False,
        "why": why,
        "outcome": "decline:" + why,
        "transitions": transitions,
        "counters": counters or {},
    }


def skip(key, why):
    return {
        "status": "skip",
        "key": key,
        "nontrivial": False,
        "why": why,
        "outcome": "skip:" + why,
        "transitions": 0,
        "counters": {},
    }


def violation(key, site, message, case, features=None, snippet="", extra=None, transitions=1):
    v = {
        "site": site,
        "features": features or {},
        "message": message,
        "case": case,
        "snippet": snippet,
    }
    if extra:
        v.update(extra)
    return {
        "status": "violation",
        "key": key,
        "nontrivial": True,
        "outcome": "violation:" + site,
        "transitions": transitions,
        "counters": {},
        "violation": v,
    }


# ---------------------------------------------------------------------------
# known findings


def load_findings(pid):
    if not os.path.exists(FINDINGS_FILE):
        return []
    with open(FINDINGS_FILE) as f:
        data = json.load(f)
    return [e for e in data.get("findings", []) if e["property"] == pid]


def _pred_holds(pred, features):
    for k, allowed in pred.items():
        if k not in features:
            return False
        val = features[k]
        if isinstance(allowed, list):
            if val not in allowed:
                return False
        elif val != allowed:
            return False
    return True


def match_finding(findings, v):
    """Return the known-finding entry that covers violation ``v`` or None.

    A violation is covered only when its localised site equals the entry's site and
    the entry's predicate holds on the violation's features."""
    for e in findings:
        if e["site"] in ("*", v["site"]) and _pred_holds(e.get("predicate", {}), v.get("features", {})):
            return e
    return None


# ---------------------------------------------------------------------------
# report


class Report:
    MAX_KEPT_VIOLATIONS = 40
    MAX_SAMPLES = 8

    def __init__(self, pid, tier, seed):
        self.pid, self.tier, self.seed = pid, tier, seed
        self.evaluations = 0
        self.transitions = 0
        self.validated = 0
        self.status = Counter()
        self.declines = Counter()
        self.skips = Counter()
        self.outcomes = Counter()
        self.counters = Counter()
        self.keys = set()
        self.nontrivial_keys = set()
        self.violations = []  # kept NEW violations (deduplicated by site+features)
        self.known = {}  # finding id -> first violation covered by that known finding
        self._findings = load_findings(pid)
        self.violation_sites = Counter()
        self.samples = []
        self.extra = {}
        self.exhaustive = True
        self.notes = []

    def add(self, out, sample=None):
        self.evaluations += 1
        st = out["status"]
        self.status[st] += 1
        self.transitions += int(out.get("transitions", 0))
        if st in ("ok", "violation"):
            self.validated += 1
        h = hashlib.sha1(out["key"].encode()).digest()[:10]
        self.keys.add(h)
        if out.get("nontrivial"):
            self.nontrivial_keys.add(h)
        if st == "decline":
            self.declines[out.get("why", "?")] += 1
        elif st == "skip":
            self.skips[out.get("why", "?")] += 1
        self.outcomes[out.get("outcome", st)] += 1
        for k, n in out.get("counters", {}).items():
            self.counters[k] += n
        if st == "violation":
            v = out["violation"]
            sig = v["site"] + "|" + json.dumps(v.get("features", {}), sort_keys=True, default=str)
            self.violation_sites[sig] += 1
            if self.violation_sites[sig] == 1:
                # violations covered by a known finding never compete with new ones for the kept slots
                e = match_finding(self._findings, v)
                if e is not None:
                    self.known.setdefault(e["id"], v)
                elif len(self.violations) < self.MAX_KEPT_VIOLATIONS:
                    self.violations.append(v)
        if sample is not None and len(self.samples) < self.MAX_SAMPLES:
            self.samples.append(sample)

    def merge(self, other):
        self.evaluations += other.evaluations
        self.transitions += other.transitions
        self.validated += other.validated
        self.status.update(other.status)
        self.declines.update(other.declines)
        self.skips.update(other.skips)
        self.outcomes.update(other.outcomes)
        self.counters.update(other.counters)
        self.keys |= other.keys
        self.nontrivial_keys |= other.nontrivial_keys
        seen = {
            v["site"] + "|" + json.dumps(v.get("features", {}), sort_keys=True, default=str)
            for v in self.violations
        }
        for v in other.violations:
            sig = v["site"] + "|" + json.dumps(v.get("features", {}), sort_keys=True, default=str)
            if sig not in seen and len(self.violations) < self.MAX_KEPT_VIOLATIONS:
                self.violations.append(v)
                seen.add(sig)
        for fid, v in other.known.items():
            self.known.setdefault(fid, v)
        self.violation_sites.update(other.violation_sites)
        for s in other.samples:
            if len(self.samples) < self.MAX_SAMPLES:
                self.samples.append(s)
        self.exhaustive = self.exhaustive and other.exhaustive
        self.notes.extend(other.notes)


# ---------------------------------------------------------------------------
# parallel driver

_MOD = None


def _worker_init(modname, repo, env=None):
    global _MOD
    os.environ.setdefault("PYTHONHASHSEED", "0")
    if env:
        assert "funsor" not in sys.modules, "environment flags are read at import: funsor must not be imported yet"
        os.environ.update(env)
    if repo not in sys.path:
        sys.path.insert(0, repo)
    _MOD = importlib.import_module(modname)
    import funsor

    assert os.path.realpath(funsor.__file__).startswith(os.path.realpath(repo) + os.sep), (
        funsor.__file__,
        repo,
    )
    if hasattr(_MOD, "worker_init"):
        _MOD.worker_init()


def _run_chunk(args):
    pid, tier, seed, idx, chunk = args
    rep = Report(pid, tier, seed)
    describe = getattr(_MOD, "describe", None)
    for j, case in enumerate(chunk):
        try:
            out = _MOD.check(case, seed)
        except BaseException as e:  # harness error: never a VIOLATION
            if isinstance(e, (KeyboardInterrupt, SystemExit)):
                raise
            out = skip(json.dumps(case, default=str), "HARNESS-ERROR:" + type(e).__name__)
            rep.notes.append(
                "harness error on case %s: %s" % (json.dumps(case, default=str)[:300], traceback.format_exc()[-1500:])
            )
        sample = None
        if idx < 4 and j < 2:
            sample = {
                "case": describe(case) if describe else case,
                "status": out["status"],
                "observed": out.get("outcome"),
            }
        rep.add(out, sample)
    return rep


def chunked(it, n):
    buf = []
    for x in it:
        buf.append(x)
        if len(buf) >= n:
            yield buf
            buf = []
    if buf:
        yield buf


def run_cases(mod, tier, seed, rep, cases=None, chunk=None, nproc=None, env=None):
    """Run mod.check over mod.cases(tier) on a pool of long-lived workers.

    env: environment variables set in every worker BEFORE funsor is imported there (FUNSOR_TYPECHECK ...)."""
    nproc = nproc or NPROC
    cases = list(mod.cases(tier) if cases is None else cases)
    if not cases:
        return
    if chunk is None:
        chunk = max(1, min(400, len(cases) // (nproc * 8) or 1))
    budget = float(os.environ.get("VERIF_BUDGET_S", "0") or 0)
    t0 = time.time()
    # interleave so that every worker sees simple and complex cases
    jobs = [
        (mod.ID, tier, seed, i, c) for i, c in enumerate(chunked(cases, chunk))
    ]
    if nproc == 1:
        _worker_init(mod.__name__, REPO, env)
        for job in jobs:
            rep.merge(_run_chunk(job))
        return
    ctx = mp.get_context("fork")
    with ctx.Pool(nproc, initializer=_worker_init, initargs=(mod.__name__, REPO, env)) as pool:
        for r in pool.imap_unordered(_run_chunk, jobs):
            rep.merge(r)
            if budget and time.time() - t0 > budget:
                rep.exhaustive = False
                rep.notes.append("VERIF_BUDGET_S hit after %d evaluations" % rep.evaluations)
                pool.terminate()
                break


# ---------------------------------------------------------------------------
# finishing: findings, replays, evidence, exit code


def write_replay(pid, v, tier, seed):
    d = os.path.join(REPLAY_DIR, pid)
    os.makedirs(d, exist_ok=True)
    body = {"property": pid, "tier": tier, "seed": seed}
    body.update(v)
    text = json.dumps(body, indent=1, sort_keys=True, default=str)
    name = hashlib.sha1(
        (v["site"] + json.dumps(v.get("case"), sort_keys=True, default=str)).encode()
    ).hexdigest()[:16]
    path = os.path.join(d, name + ".json")
    with open(path, "w") as f:
        f.write(text)
    return path


def finish(mod, rep, t0, extra_coverage=None):
    pid, tier, seed = rep.pid, rep.tier, rep.seed
    findings = load_findings(pid)
    by_id = {e["id"]: e for e in findings}
    new, known = [], {}
    for fid, v in rep.known.items():
        if fid in by_id:
            known[fid] = (by_id[fid], v)
    for v in rep.violations:
        e = match_finding(findings, v)
        if e is None:
            new.append(v)
        else:
            known.setdefault(e["id"], (e, v))
    harness_errors = sum(n for k, n in rep.skips.items() if k.startswith("HARNESS-ERROR"))
    coverage = {
        "states": len(rep.keys),
        "transitions": max(rep.transitions, 0),
        "traces_validated_against_impl": rep.validated,
        "evaluations": rep.evaluations,
        "distinct_nontrivial": len(rep.nontrivial_keys),
        "rule": getattr(mod, "LEVEL_RULE", ""),
        "samples": rep.samples or [{"note": "no sample recorded"}],
        "exhaustive": bool(rep.exhaustive and harness_errors == 0),
        "bounds": mod.bounds(tier) if hasattr(mod, "bounds") else {},
        "status_counts": dict(rep.status),
        "declines": dict(rep.declines),
        "skipped": dict(rep.skips),
        "distinct_outcomes": len(rep.outcomes),
        "outcome_classes": dict(rep.outcomes.most_common(25)),
        "counters": dict(rep.counters),
        "known_findings_reproduced": sorted(known),
        "violation_classes": dict(rep.violation_sites),
        "notes": rep.notes[:10],
    }
    if extra_coverage:
        coverage.update(extra_coverage)
    coverage.update(rep.extra)
    ev = {
        "property_id": pid,
        "tier": tier,
        "seed": seed,
        "level": "model_checking",
        "coverage": coverage,
        "assumptions": list(getattr(mod, "ASSUMPTIONS", [])),
        "wall_s": round(time.time() - t0, 2),
        "violations": len(new),
    }
    os.makedirs(EVIDENCE_DIR, exist_ok=True)
    tmp = os.path.join(EVIDENCE_DIR, pid + ".json.tmp")
    with open(tmp, "w") as f:
        json.dump(ev, f, indent=1, sort_keys=True, default=str)
    os.replace(tmp, os.path.join(EVIDENCE_DIR, pid + ".json"))

    print(
        "%s tier=%s seed=%d evaluations=%d states=%d nontrivial=%d transitions=%d ok=%d decline=%d skip=%d "
        "violating_cases=%d outcomes=%d wall=%.1fs"
        % (
            pid,
            tier,
            seed,
            rep.evaluations,
            len(rep.keys),
            len(rep.nontrivial_keys),
            rep.transitions,
            rep.status["ok"],
            rep.status["decline"],
            rep.status["skip"],
            rep.status["violation"],
            len(rep.outcomes),
            time.time() - t0,
        )
    )
    for fid, (e, v) in sorted(known.items()):
        print("KNOWN-FINDING: property=%s %s [%s]" % (pid, e["what"], fid))
    if harness_errors:
        print("HARNESS-ERROR: %d cases raised inside the harness; see evidence notes" % harness_errors)
        for n in rep.notes[:3]:
            print(n)
    for v in new:
        path = write_replay(pid, v, tier, seed)
        print("  site=%s features=%s :: %s" % (v["site"], json.dumps(v.get("features", {}), default=str), v["message"][:400]))
        print("VIOLATION property=%s replay=%s" % (pid, path))
    if new:
        return 1
    if harness_errors:
        return 3
    return 0


def run_property(pid, tier, seed):
    t0 = time.time()
    os.environ.setdefault("PYTHONHASHSEED", "0")
    if REPO not in sys.path:
        sys.path.insert(0, REPO)
    mod = importlib.import_module("fv.props." + pid.lower())
    rep = Report(pid, tier, seed)
    if hasattr(mod, "explore"):
        if not getattr(mod, "EXPLORE_FORKS", False):
            _worker_init(mod.__name__, REPO)
        mod.explore(tier, seed, rep)
    else:
        run_cases(mod, tier, seed, rep)
    extra = mod.finalize(rep, tier, seed) if hasattr(mod, "finalize") else None
    return finish(mod, rep, t0, extra)
