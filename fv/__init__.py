"""fv -- bounded-exhaustive exploration ("model checking") of funsor's semantic properties.

See /verif/DESIGN.md.  Entry points: ``python -m fv.run <ID> --tier quick|thorough`` and
``python -m fv.replay <path>``.
"""
