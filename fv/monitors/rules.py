"""Rule monitor (DESIGN 2.2): reports every *firing* of a registered rewrite rule of the exact interpretations.

A firing = a function registered in a DispatchedInterpretation's registry returning a non-None result for (cls, args).
Installed at run time by wrapping the ``dispatch`` attribute of the interpretation objects: no repository hook.
"""
import gc

EXACT = ("eager", "normalize", "lazy", "sequential", "dispatched")  # "dispatched" = unfold_base / optimize_base (default name)


def dispatched_interpretations():
    import funsor  # noqa
    import funsor.optimizer as optimizer
    from funsor import interpretations as I

    named = {
        "eager": I.eager_base,
        "normalize": I.normalize_base,
        "lazy": I.lazy_base,
        "sequential": I.sequential_base,
        "unfold": optimizer.unfold_base,
        "optimize": optimizer.optimize_base,
    }
    return named


_ORDINALS = {}


def _build_ordinals():
    """Same-named rule functions of one module are told apart by their definition order (stable under unrelated edits)."""
    groups = {}
    for name, interp in dispatched_interpretations().items():
        for key, disp in interp.registry.registry.items():
            for sig, fn in disp.funcs.items():
                code = getattr(fn, "__code__", None)
                if code is None:
                    continue
                groups.setdefault((getattr(fn, "__module__", "?"), fn.__name__), set()).add(code.co_firstlineno)
    for k, lines in groups.items():
        for i, line in enumerate(sorted(lines)):
            _ORDINALS[k + (line,)] = i


def rule_id(fn):
    if not _ORDINALS:
        _build_ordinals()
    code = getattr(fn, "__code__", None)
    mod = getattr(fn, "__module__", "?")
    name = getattr(fn, "__name__", "?")
    line = code.co_firstlineno if code else 0
    return "%s.%s#%d" % (mod.replace("funsor.", ""), name, _ORDINALS.get((mod, name, line), 0))


def registered_rules():
    """{interpretation name: set(rule ids)} of everything registered (defaults excluded)."""
    out = {}
    for name, interp in dispatched_interpretations().items():
        ids = set()
        for key, disp in interp.registry.registry.items():
            for sig, fn in disp.funcs.items():
                if type(fn).__name__ == "PartialDefault":
                    continue
                ids.add(rule_id(fn))
        out[name] = ids
    return out


class Monitor:
    def __init__(self, on_firing):
        self.on_firing = on_firing
        self.active = False
        self.installed = False
        self._orig = {}

    def install(self):
        if self.installed:
            return
        for name, interp in dispatched_interpretations().items():
            orig = interp.registry.dispatch
            self._orig[name] = (interp, interp.dispatch)

            def dispatch(key, *args, _orig=orig, _name=name):
                fn = _orig(key, *args)
                if not self.active:
                    return fn

                def wrapped(*a):
                    result = fn(*a)
                    if result is not None and self.active:
                        self.active = False
                        try:
                            self.on_firing(_name, fn, key, a, result)
                        finally:
                            self.active = True
                    return result

                return wrapped

            interp.dispatch = dispatch
        self.installed = True

    def uninstall(self):
        for name, (interp, disp) in self._orig.items():
            interp.dispatch = disp
        self._orig.clear()
        self.installed = False

    def __enter__(self):
        self.install()
        self.active = True
        return self

    def __exit__(self, *a):
        self.active = False
