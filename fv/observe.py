"""Observables of a funsor result and their comparison with a reference table (DESIGN 2.5)."""
import numpy as np

ATOL = 1e-9
RTOL = 1e-7


class Decline(Exception):
    pass


def _dom_of(domain):
    """funsor Domain -> (dtype, shape) or None for non-array domains."""
    try:
        return (domain.dtype, tuple(domain.shape))
    except Exception:
        return None


def to_value(name, v, dom):
    """Reference value -> something funsor substitution accepts for an input of domain ``dom``."""
    from funsor.tensor import Tensor

    dtype, shape = dom
    if dtype == "real":
        return Tensor(np.array(v, dtype=np.float64))
    if shape == ():
        return int(v)
    return Tensor(np.array(v, dtype=np.int64), dtype=dtype)


def ground(r, rho):
    """Bind every input of funsor ``r`` from ``rho`` and return the ndarray value, or raise Decline."""
    from funsor.tensor import Tensor
    from funsor.terms import Funsor, Number

    if isinstance(r, Tensor) and all(not d.shape and isinstance(d.dtype, int) for d in r.inputs.values()):
        idx = tuple(int(rho[n]) for n in r.inputs)
        return np.asarray(r.data[idx])
    if isinstance(r, Number):
        return np.asarray(r.data)
    if not isinstance(r, Funsor):
        raise Decline("not-a-funsor:" + type(r).__name__)
    subs = {}
    for n, d in r.inputs.items():
        dom = _dom_of(d)
        if dom is None or n not in rho:
            raise Decline("unbindable-input")
        subs[n] = to_value(n, rho[n], dom)
    try:
        g = r(**subs) if subs else r
    except Exception as ex:  # noqa
        raise Decline("subs-raised:" + type(ex).__name__)
    if isinstance(g, Tensor) and not g.inputs:
        return np.asarray(g.data)
    if isinstance(g, Number):
        return np.asarray(g.data)
    raise Decline("lazy:" + type(g).__name__.split("[")[0])


def values_equal(actual, expected, dtype, rtol=RTOL, atol=ATOL):
    a = np.asarray(actual)
    b = np.asarray(expected)
    if a.shape != b.shape:
        return False
    if dtype != "real":
        try:
            return bool(np.all(a.astype(np.int64) == b.astype(np.int64)))
        except (ValueError, OverflowError):
            return False
    a = a.astype(np.float64)
    b = b.astype(np.float64)
    inf = np.isinf(b)
    if np.any(np.isnan(a)):
        return False
    if np.any(inf) and not np.all(a[inf] == b[inf]):
        return False
    fin = ~inf
    return bool(np.all(np.abs(a[fin] - b[fin]) <= atol + rtol * np.abs(b[fin])))


def depends_on(tbl, names, out_dtype):
    """Does the reference table depend on any of ``names``?  Decided exhaustively on the table."""
    groups = {}
    for rho, v in tbl:
        if v is None:
            continue
        key = tuple(
            (k, (val.tobytes() if isinstance(val, np.ndarray) else val))
            for k, val in sorted(rho.items())
            if k not in names
        )
        if key in groups:
            if not values_equal(v, groups[key], out_dtype):
                return True
        else:
            groups[key] = v
    return False


def compare(r, t, tbl, exact_inputs=False, exact_dtype=False, rtol=RTOL, atol=ATOL):
    """Compare funsor ``r`` with reference type ``t`` and table ``tbl``.

    Returns (kind, message) with kind in
      "ok"                          everything compared equal (at least one defined point)
      "ok-undefined"                reference undefined at every point
      "decline:<why>"               result could not be grounded
      "violation:<what>"            output / inputs / data-shape / range / value mismatch
    """
    from funsor.tensor import Tensor
    from funsor.terms import Funsor, Number

    if not isinstance(r, Funsor):
        return "decline:not-a-funsor", type(r).__name__
    rdom = _dom_of(r.output)
    if rdom is None:
        return "decline:non-array-output", str(r.output)
    odt, oshape = t.out
    if rdom[1] != tuple(oshape):
        return "violation:output-shape", "declared output %s, reference %s" % (r.output, t.out)
    if (rdom[0] == "real") != (odt == "real"):
        return "violation:output-dtype", "declared output %s, reference %s" % (r.output, t.out)
    if exact_dtype and rdom[0] != odt:
        return "violation:output-dtype", "declared output %s, reference %s" % (r.output, t.out)
    # inputs
    for n, d in r.inputs.items():
        if n not in t.inputs:
            return "violation:extra-input", "result has input %r (%s) the expression does not have; reference inputs %s" % (
                n,
                d,
                t.inputs,
            )
        if _dom_of(d) != (t.inputs[n][0], tuple(t.inputs[n][1])):
            return "violation:input-domain", "input %r declared %s, reference %s" % (n, d, t.inputs[n])
    missing = [n for n in t.inputs if n not in r.inputs]
    if missing:
        if exact_inputs:
            return "violation:missing-input", "lazy term lacks inputs %s" % (missing,)
        if depends_on(tbl, set(missing), odt):
            return "violation:dropped-input", "result lacks inputs %s but the value depends on them" % (missing,)
    # data layout
    if isinstance(r, Tensor):
        want = tuple(d.size for d in r.inputs.values()) + tuple(oshape)
        if tuple(r.data.shape) != want:
            return "violation:data-shape", "data shape %s, declared %s" % (tuple(r.data.shape), want)
        if isinstance(rdom[0], int) and r.data.size:
            lo, hi = r.data.min(), r.data.max()
            if lo < 0 or hi >= rdom[0]:
                return "violation:range", "bounded-integer data in [%s, %s] outside [0, %d)" % (lo, hi, rdom[0])
    elif isinstance(r, Number) and isinstance(rdom[0], int):
        if not 0 <= r.data < rdom[0]:
            return "violation:range", "number %s outside [0, %d)" % (r.data, rdom[0])
    # values
    n_defined = 0
    for rho, v in tbl:
        if v is None:
            continue
        try:
            a = ground(r, rho)
        except Decline as d:
            return "decline:" + str(d), ""
        n_defined += 1
        if not values_equal(a, v, odt, rtol, atol):
            pt = {k: (val.tolist() if isinstance(val, np.ndarray) else val) for k, val in rho.items()}
            return "violation:value", "at %s: funsor %s, reference %s" % (
                pt,
                np.asarray(a).tolist(),
                np.asarray(v).tolist(),
            )
    if n_defined == 0:
        return "ok-undefined", ""
    return "ok", ""
