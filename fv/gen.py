"""Bounded-exhaustive enumeration of L-terms by level (explorer E-prog of DESIGN 2.1).

Level 0 is a fixed leaf alphabet.  Level n+1 applies every constructor of the chosen alphabet to every
type-compatible operand tuple that contains at least one operand of level n, the others coming from a
(small) companion pool of leaves.  Where a level is too large to feed the next one, its operand pool is pruned
by the deterministic rule "first K terms per (root constructor+op, input names, output type)".
"""
import itertools

from .ref import lang
from .ref.lang import ty, well_typed

SIZES = {"i": 2, "j": 3, "k": 2, "m": 1, "l": 4}

_leaf_counter = [0]


def T(names, shape=(), dtype="real", contents=None, lid=None, sizes=None):
    names = tuple(names)
    sizes = tuple((sizes or {}).get(n, SIZES.get(n)) for n in names)
    if contents is None:
        if lid is None:
            _leaf_counter[0] += 1
            lid = _leaf_counter[0]
        fill = ("g", lid)
    else:
        fill = ("c", tuple(contents))
    return ("T", names, sizes, tuple(shape), dtype, fill)


def N(v, dtype="real"):
    return ("N", v, dtype)


def V(name, dtype=None, shape=()):
    if dtype is None:
        dtype = SIZES[name]
    return ("V", name, dtype, tuple(shape))


def leaves(tier):
    """The leaf alphabet.  Order = simplest first."""
    real = [
        T((), lid=1),
        T("i", lid=2),
        T("j", lid=3),
        T("ij", lid=4),
        T("ji", lid=5),
        T("ik", lid=6),
        T((), (2,), lid=7),
        T("i", (2,), lid=8),
        T("j", (3,), lid=9),
        T((), (2, 3), lid=10),
        T("i", (2, 3), lid=11),
        T("ji", (2,), lid=12),
        T((), (3,), lid=13),
        T("k", (3, 2), lid=14),
        T("ki", lid=15),
        T("ij", (2,), lid=23),  # same names as lid 12 in the other order, with an event shape (matmul / getitem alignment)
        T("ij", (2, 2), lid=24),
        T("ji", (2, 2), lid=25),
    ]
    ints = [
        T("i", dtype=3, contents=[2, 0]),
        T("j", dtype=2, contents=[1, 0, 1]),
        T((), dtype=3, contents=[1]),
        T("ij", dtype=2, contents=[0, 1, 1, 0, 0, 1]),
        T("k", dtype=3, contents=[1, 2]),
        T("i", dtype=2, contents=[1, 0]),
        T("j", dtype=3, contents=[2, 2, 0]),
        T("k", dtype=2, contents=[0, 1]),
        T((), (2,), dtype=2, contents=[1, 0]),
        T("i", (2,), dtype=2, contents=[1, 1, 0, 1]),
    ]
    nums = [N(0.0), N(1.0), N(2.5), N(-1.0), N(1, 3), N(0, 2), N(1, 2), N(2, 3)]
    vars_ = [V("i"), V("j"), V("k"), V("x", "real"), V("y", "real", (2,))]
    if tier == "thorough":
        real += [T("m", lid=16), T("im", lid=17), T("jk", lid=18), T("ijk", lid=19), T("kji", lid=20), T("l", lid=21), T("il", (2,), lid=22)]
        ints += [T("m", dtype=2, contents=[1]), T("l", dtype=3, contents=[0, 2, 1, 2]), T("jk", dtype=2, contents=[0, 1, 1, 1, 0, 0])]
        vars_ += [V("m"), V("l"), V("z", "real", (2, 3))]
    return {"real": real, "int": ints, "num": nums, "var": vars_}


def companion(tier):
    """Small pool used for the 'other' operands at level >= 2."""
    L = leaves("quick")
    picks = [L["real"][i] for i in (0, 1, 3, 4, 7, 9)] + [L["int"][i] for i in (0, 1, 5)] + [L["num"][i] for i in (2, 4)] + [L["var"][0], L["var"][3]]
    if tier == "thorough":
        picks += [L["real"][i] for i in (2, 5, 8, 11)] + [L["int"][3], L["var"][1]]
    return picks


# ---------------------------------------------------------------------------
# constructor families: each maps (new, others) -> iterable of candidate terms (typed afterwards)

AXES = [(None, False), (0, False), (-1, False), (1, False), (-2, True), ((0, 1), False), (None, True), (0, True),
        ((-1,), False), ((0, -1), True), ((-2, -1), False), ((-1,), True)]
INDEXES = [
    (0,),
    (-1,),
    (("s", 1, None, None),),
    (("s", None, None, 2),),
    ("...", 0),
    (None,),
    (("s", None, None, None), 1),
    (0, ("s", 0, 2, None)),
    ("...", None),
    (1, "..."),
]
RESHAPES = [(6,), (3, 2), (2, 1), (1, 2), (2, 3, 1), (3,), (1,), (2,)]
BINOPS = list(lang.ARITH) + list(lang.COMPARE) + list(lang.BOOLEAN) + ["floordiv", "mod", "matmul"]
EINSUMS = ["a,a->", "a,a->a", "ab,b->a", "ab->ba", "ab,ab->", "a->", "ab->a", "a,b->ab", "ab,bc->ac", "ab->", "a,ab->b"]


LIGHT_POINTWISE = ("neg", "exp", "abs")
LIGHT_EVRED = ("sum", "logsumexp", "max", "all", "argmax")
LIGHT_BINOPS = ["add", "sub", "logaddexp", "max", "lt", "eq", "and", "floordiv", "mod", "matmul"]


def fam_unary(x, light=False):
    for op in LIGHT_POINTWISE if light else lang.POINTWISE_REAL:
        yield ("U", op, (), x)
    for op in LIGHT_EVRED if light else lang.EVENT_REDUCTIONS_REAL + lang.EVENT_REDUCTIONS_BOOL + lang.ARG_REDUCTIONS:
        for ax in AXES[:4] if light else AXES:
            yield ("U", op, ax, x)
    for shp in RESHAPES[:4] if light else RESHAPES:
        yield ("U", "reshape", (shp,), x)
    for idx in INDEXES[:5] if light else INDEXES:
        yield ("U", "getslice", (idx,), x)


def fam_binary(x, others, light=False):
    for y in others:
        for op in LIGHT_BINOPS if light else BINOPS:
            yield ("B", op, x, y)
            if y is not x:
                yield ("B", op, y, x)
        for off in (0, 1):
            yield ("B", ("getitem", off), x, y)
            yield ("B", ("getitem", off), y, x)


def _name_subsets(names, maxlen=2):
    for r in range(1, maxlen + 1):
        for c in itertools.combinations(names, r):
            yield c


def fam_reduce(x, tier):
    names = ["i", "j", "k"] + (["m"] if tier == "thorough" else [])
    try:
        own = list(ty(x).inputs)
    except lang.IllTyped:
        return
    # every subset of own inputs (<=3), and own subsets + one unrelated name
    cands = set()
    for c in _name_subsets([n for n in own if n in SIZES], 3):
        cands.add(c)
    for u in names:
        if u not in own:
            cands.add((u,))
            for o in own[:2]:
                if o in SIZES:
                    cands.add(tuple(sorted((o, u))))
    for op in lang.REDUCE_OPS:
        for c in sorted(cands):
            yield ("R", op, x, tuple((n, SIZES[n]) for n in c))


def subst_values(name, dom, tier, siblings=None):
    """The menu of values that may be substituted for input ``name`` of domain ``dom``.

    siblings: the other inputs (name -> domain) of the term substituted into; same-domain siblings are offered as
    renaming targets (collision / swap / diagonal / chains of renamings)."""
    dtype, shape = dom
    vals = []
    if dtype == "real":
        if shape == ():
            vals += [T((), lid=31), N(2.5), T("i", lid=32), V("x", "real"), V("w", "real"),
                     ("B", "add", ("B", "mul", N(2.0), V("w", "real")), N(1.0)),
                     ("B", ("getitem", 0), V("y", "real", (2,)), N(0, 2))]
            vals.append(("U", "exp", (), V("w", "real")))  # a non-affine lazy value
            # affine / non-affine values mentioning a sibling real input of the term (simultaneity: the caller's sibling is meant)
            for o, d in (siblings or {}).items():
                if o != name and d == ("real", ()):
                    vals.append(("B", "add", ("B", "mul", N(2.0), V(o, "real")), N(1.0)))
                    vals.append(V(o, "real"))
                    vals.append(("U", "exp", (), V(o, "real")))
            # a tensor indexed by a sibling integer input of the term (e.g. the index a Cat / Stack introduces itself):
            # the value's name and the term's own name must be identified on the diagonal, not merged
            for o, d in list((siblings or {}).items()):
                if o != name and d[0] != "real" and d[1] == () and not (o == "i" and d[0] == SIZES["i"]):
                    vals.append(T((o,), lid=37, sizes={o: d[0]}))
        else:
            vals += [T((), shape, lid=33), T("j", shape, lid=34), V("v", "real", shape)]
            # a batch of arrays whose batch size equals the leading event size (an index applied to the wrong block of
            # dimensions is then silent), and one with two batch inputs
            eq = [o for o in ("i", "j", "m") if SIZES[o] == shape[0]]
            if eq:
                vals.append(T(eq[0], shape, lid=35))
            vals.append(T("ik", shape, lid=36))
        return vals
    if shape != ():
        return vals
    n = dtype
    others = [o for o in ("i", "j", "k") if o != name]
    if name not in SIZES:
        others = ["i", "j", "k"]
    same = [o for o in others if SIZES[o] == n]
    vals.append(N(n - 1, n))
    vals.append(N(0, n))
    vals.append(T((), dtype=n, contents=[n - 1]))
    vals.append(T((name,), dtype=n, contents=list(reversed(range(n))), sizes={name: n}))  # over the key itself
    for o in others:
        vals.append(T(o, dtype=n, contents=[(2 * q + 1) % n for q in range(SIZES[o])]))
    vals.append(T("ik" if name != "i" else "jk", dtype=n, contents=[(q * q + 1) % n for q in range(SIZES["k"] * (SIZES["i"] if name != "i" else SIZES["j"]))]))
    vals.append(V("f", n))  # fresh variable
    for o in same:
        vals.append(V(o, n))  # rename onto a (possibly existing) name: collision / swap / diagonal
    for o, d in (siblings or {}).items():
        if o != name and o not in same and d == (n, ()):
            vals.append(V(o, n))
    vals.append(("Slice", "s", 0, n, 1, n))
    vals.append(("Slice", "s", 0, n + 2, 1, n))  # stop beyond the bounded type: clamped to it
    if n >= 2:
        vals.append(("Slice", "s", 1, n + 3, 2, n))
        vals.append(("Slice", "s", 1, n, 1, n))
        vals.append(("Slice", name, 0, n, 2, n))
        vals.append(("Slice", "s", 0, n - 1, 1, n))
    vals.append(("B", "mod", ("B", "add", V("f", n), N(1, 2)), N(n, n + 1)))  # (f + 1) % n
    if n >= 5:  # long inputs (concatenations): a grid of strided slices starting inside / at / after the first part
        for start in (0, 1, 3, 4, 5, 6):
            for stop in (n, n - 1, 7):
                for step in (1, 2, 3):
                    if start < stop <= n:
                        vals.append(("Slice", "s", start, stop, step, n))
    return vals


def fam_subs(x, tier):
    try:
        t = ty(x)
    except lang.IllTyped:
        return
    names = list(t.inputs)
    menus = {n: subst_values(n, t.inputs[n], tier) for n in names}
    for n in names:
        for v in menus[n]:
            yield ("S", x, ((n, v),))
    # pairs: every pair of keys, a reduced menu crossing (first 8 values each incl. variables)
    for a, b in itertools.combinations(names, 2):
        ma = [v for v in menus[a] if v[0] in ("V", "N", "Slice") or v[0] == "T"][:9]
        mb = [v for v in menus[b] if v[0] in ("V", "N", "Slice") or v[0] == "T"][:9]
        for va in ma:
            for vb in mb:
                yield ("S", x, ((a, va), (b, vb)))
                if va[0] == "V" or vb[0] == "V":
                    yield ("S", x, ((b, vb), (a, va)))
    # keys that are not inputs are ignored
    if names:
        yield ("S", x, (("q", N(0, 2)), (names[0], menus[names[0]][0])))


def fam_binders(x, others, tier):
    for n in ("i", "j", "k"):
        yield ("Lam", n, SIZES[n], x)
    for y in others:
        for n in ("i", "j", "k"):
            yield ("Stack", n, (x, y))
            yield ("Stack", n, (y, x))
            yield ("Stack", n, (x, y, x))
        for n in ("i", "j"):
            yield ("Cat", n, (x, y), n)
            yield ("Cat", n, (y, x), n)
            for pn in ("i", "j", "k"):
                if pn != n:
                    yield ("Cat", n, (x, y), pn)
    for n in ("i", "j"):
        yield ("Cat", n, (x,), n)
        yield ("Cat", n, (x, x), n)
        yield ("Cat", "k" if n == "i" else "i", (x, x, x), n)
    for bv in ("i", "j", "k"):
        for dv in ("x", "y"):
            yield ("Ind", x, "r", bv, dv)


def fam_einsum(x, others):
    for eq in EINSUMS:
        if "," not in eq.split("->")[0]:
            yield ("Ein", eq, (x,))
        else:
            for y in others:
                yield ("Ein", eq, (x, y))
                yield ("Ein", eq, (y, x))
    for y in others:
        for dim in (0, -1, 1):
            yield ("Fin", "stack", dim, (x, y))
            yield ("Fin", "cat", dim, (x, y))
            yield ("Fin", "stack", dim, (y, x, x))


FAMILIES = ("unary", "binary", "reduce", "subs", "binders", "einsum")


def expand(new, others, tier, families=FAMILIES, light=False):
    """All well-typed terms built by one constructor over >=1 operand from ``new`` (others from ``others``)."""
    seen = set()
    out = []

    def emit(c):
        if c in seen:
            return
        seen.add(c)
        if well_typed(c):
            out.append(c)

    for x in new:
        if "unary" in families:
            for c in fam_unary(x, light):
                emit(c)
        if "binary" in families:
            for c in fam_binary(x, others, light):
                emit(c)
        if "reduce" in families:
            for c in fam_reduce(x, tier):
                emit(c)
        if "subs" in families:
            for c in fam_subs(x, tier):
                emit(c)
        if "binders" in families:
            for c in fam_binders(x, others, tier):
                emit(c)
        if "einsum" in families:
            for c in fam_einsum(x, others):
                emit(c)
    return out


def prune(terms, k=1, coarse=False):
    """First k terms per (root constructor+op(+params class), input names, output type).

    coarse: the key uses the number of inputs instead of their names."""
    buckets = {}
    out = []
    for e in terms:
        t = ty(e)
        extra = ()
        if e[0] == "S":
            extra = tuple(sorted((v[0]) for _, v in e[2]))
        if e[0] == "R":
            own = ty(e[2]).inputs
            extra = (any(n not in own for n, _ in e[3]),)
        lazy_bit = any(d[0] == "real" for d in t.inputs.values())  # a real-valued free input keeps the term lazy
        if coarse == 2:
            key = (lang.head(e), extra, t.out[0] == "real", len(t.out[1]), lazy_bit)
        else:
            key = (lang.head(e), extra, len(t.inputs) if coarse else tuple(sorted(t.inputs)), t.out, lazy_bit)
        n = buckets.get(key, 0)
        if n < k:
            buckets[key] = n + 1
            out.append(e)
    return out


def all_leaves(tier):
    L = leaves(tier)
    return L["real"] + L["int"] + L["num"] + L["var"]


def corpus(tier, families=FAMILIES, depth=2, k1=1, cap2=None, coarse=None):
    """Terms of depth 1..depth.  Depth 1 is complete over the leaf alphabet; deeper levels use the pruned pool."""
    L0 = all_leaves(tier)
    level1 = expand(L0, L0, tier, families)
    out = list(level1)
    if depth >= 2:
        quick = tier != "thorough"
        reps = prune(level1, k1, coarse=True if coarse is None else coarse)
        level2 = expand(reps, companion(tier), tier, families, light=quick)
        if cap2:
            level2 = level2[:cap2]
        out += level2
        if depth >= 3:
            reps2 = prune(level2, 1, coarse=2)
            level3 = expand(reps2, companion("quick")[:6], tier, families, light=True)
            out += level3
    return out


def spines():
    """Depth-3 'spines' unary . reduce . binary (and unary . binary . reduce) that the level-wise pruning cannot guarantee:
    every outer unary op over every reduction op over every combining op, on two operand pairs."""
    L = leaves("quick")["real"]
    x = V("x", "real")
    pairs = [(L[3], L[2]), (L[3], ("B", "mul", L[1], x)), (L[1], L[3])]
    out = []
    for u in ("neg", "exp", "log", "reciprocal", "abs"):
        for r in ("add", "mul", "max", "min", "logaddexp"):
            for b in ("add", "mul", "sub", "max", "logaddexp"):
                for a1, a2 in pairs:
                    for names in ((("i", 2),), (("j", 3),), (("i", 2), ("j", 3))):
                        out.append(("U", u, (), ("R", r, ("B", b, a1, a2), names)))
                        out.append(("U", u, (), ("B", b, ("R", r, a1, names), a2)))
    return [e for e in out if well_typed(e)]
