"""CLI: /venv/bin/python -m fv.run C01 --tier quick"""
import argparse
import os
import sys


def main():
    ap = argparse.ArgumentParser()
    ap.add_argument("pid")
    ap.add_argument("--tier", default=os.environ.get("VERIF_TIER", "quick"), choices=["quick", "thorough"])
    ap.add_argument("--seed", type=int, default=None)
    args = ap.parse_args()
    # own hash randomisation: re-exec once with a fixed hash seed
    if os.environ.get("PYTHONHASHSEED") != "0":
        env = dict(os.environ, PYTHONHASHSEED="0")
        os.execve(sys.executable, [sys.executable, "-m", "fv.run"] + sys.argv[1:], env)
    # checks always run the working tree of /repo, with the verification guard on
    os.environ["FUNSOR_VERIF"] = "1"
    os.environ.setdefault("FUNSOR_BACKEND", "numpy")
    for var in ("FUNSOR_DEBUG", "FUNSOR_PROFILE"):
        os.environ.pop(var, None)
    from fv import core

    seed = args.seed if args.seed is not None else core.seed_from_env()
    sys.exit(core.run_property(args.pid.upper(), args.tier, seed))


if __name__ == "__main__":
    main()
