"""The term language L: typing, point-wise denotation, construction through funsor's public API.

This module is the *reference model* of DESIGN.md 2.3.  ``ty`` and ``den`` share no code with
funsor: they only use numpy on single event values.  ``build`` is the only function that touches
funsor, and it only calls public constructors / methods.

Nodes are nested tuples (hashable, JSON-able via lists):

    ("T", names, sizes, shape, dtype, fill)   tensor leaf; fill = ("g", id) generic reals | ("c", flat values)
    ("N", value, dtype)                       number ("real" or bint size)
    ("V", name, dtype, shape)                 variable
    ("U", op, params, e)                      unary op on the output (pointwise, reduction, reshape, getslice)
    ("B", op, e1, e2)                         binary op on outputs; op may be ("getitem", offset)
    ("R", op, e, ((name, size), ...))         reduction over named inputs (possibly unrelated ones)
    ("S", e, ((name, value_expr), ...))       simultaneous substitution
    ("Lam", name, size, e)   ("Stack", name, parts)   ("Cat", name, parts, part_name)
    ("Slice", name, start, stop, step, dtype)
    ("Ind", e, reals_var, bint_var, diag_var)
    ("Ein", equation, parts)   ("Fin", "stack"|"cat", dim, parts)
"""
import functools
import itertools
import math

import numpy as np

PHI = 0.6180339887498949
RHO = 0.7548776662466927


class IllTyped(Exception):
    pass


class Undefined(Exception):
    """The reference value does not exist at this point (division by zero, log of a negative ...)."""


def tuplify(x):
    if isinstance(x, (list, tuple)):
        return tuple(tuplify(y) for y in x)
    return x


# ---------------------------------------------------------------------------
# data


def generic_fill(leaf_id, shape, seed):
    n = int(np.prod(shape)) if shape else 1
    c = np.arange(n, dtype=np.float64)
    vals = 0.5 + 1.5 * np.mod(PHI * (131.0 * leaf_id + c + 1.0) + seed * RHO, 1.0)
    return vals.reshape(shape)


def leaf_array(node, seed):
    _, names, sizes, shape, dtype, fill = node
    full = tuple(sizes) + tuple(shape)
    if fill[0] == "g":
        return generic_fill(fill[1], full, seed)
    if fill[0] == "c":
        arr = np.array(fill[1], dtype=np.float64 if dtype == "real" else np.int64)
        return arr.reshape(full)
    raise ValueError(fill)


def gauss_params(node, seed):
    """(white_vec, prec_sqrt) of a Gaussian leaf ("G", gid, ((name, dtype, shape), ...)); full rank, well conditioned."""
    _, gid, inputs = node
    batch = tuple(dt for _, dt, shp in inputs if dt != "real")
    dim = sum(int(np.prod(shp)) if shp else 1 for _, dt, shp in inputs if dt == "real")
    wv = generic_fill(700 + gid, batch + (dim,), seed) - 1.0
    ps = 0.5 * generic_fill(701 + gid, batch + (dim, dim), seed) + 2.0 * np.eye(dim)
    return wv, ps


def real_points(name, shape, seed, k=2):
    """The fixed finite point set at which a real-valued free input is bound."""
    h = sum((i + 1) * ord(c) for i, c in enumerate(name))
    return [generic_fill(1000 + 7 * h + 13 * j, tuple(shape), seed) - 0.25 * j for j in range(k)]


# ---------------------------------------------------------------------------
# typing

POINTWISE_REAL = ("neg", "abs", "exp", "log", "sqrt", "log1p", "sigmoid", "tanh", "reciprocal")
EVENT_REDUCTIONS_REAL = ("sum", "prod", "max", "min", "logsumexp", "mean", "std", "var")
EVENT_REDUCTIONS_BOOL = ("all", "any")
ARG_REDUCTIONS = ("argmax", "argmin")
ARITH = ("add", "sub", "mul", "truediv", "pow", "max", "min", "logaddexp")
COMPARE = ("eq", "ne", "lt", "le", "gt", "ge")
BOOLEAN = ("and", "or", "xor")
INT_ASSOC = ("add", "mul", "max", "min")
REDUCE_OPS = ("add", "mul", "max", "min", "logaddexp", "and", "or")


class Ty:
    __slots__ = ("inputs", "out")

    def __init__(self, inputs, out):
        self.inputs = inputs  # dict name -> (dtype, shape), insertion ordered
        self.out = out  # (dtype, shape)

    def __repr__(self):
        return "Ty(%r -> %r)" % (self.inputs, self.out)


def _merge(*dicts):
    res = {}
    for d in dicts:
        for k, v in d.items():
            if k in res and res[k] != v:
                raise IllTyped("input %s has two domains %s %s" % (k, res[k], v))
            res.setdefault(k, v)
    return res


def _bshape(*shapes):
    try:
        return tuple(np.broadcast_shapes(*shapes))
    except ValueError:
        raise IllTyped("shapes do not broadcast %s" % (shapes,))


def _norm_axis(axis, nd):
    if axis is None:
        return tuple(range(nd))
    if isinstance(axis, int):
        axis = (axis,)
    out = []
    for a in axis:
        if not -nd <= a < nd:
            raise IllTyped("axis out of range")
        a %= nd
        if a in out:
            raise IllTyped("duplicate axis")
        out.append(a)
    return tuple(out)


def decode_index(index):
    """index parts: int | ("s", start, stop, step) | None | "..." """
    out = []
    for p in index:
        if isinstance(p, tuple) and p and p[0] == "s":
            out.append(slice(p[1], p[2], p[3]))
        elif p == "...":
            out.append(Ellipsis)
        else:
            out.append(p)
    return tuple(out)


@functools.lru_cache(maxsize=200000)
def ty(e):
    tag = e[0]
    if tag == "T":
        _, names, sizes, shape, dtype, fill = e
        if len(set(names)) != len(names):
            raise IllTyped("duplicate names")
        return Ty({n: (s, ()) for n, s in zip(names, sizes)}, (dtype, tuple(shape)))
    if tag == "N":
        return Ty({}, (e[2], ()))
    if tag == "V":
        return Ty({e[1]: (e[2], tuple(e[3]))}, (e[2], tuple(e[3])))
    if tag == "Slice":
        _, name, start, stop, step, dtype = e
        stop = min(dtype, max(start, stop))
        size = max(0, (stop + step - 1 - start) // step)
        if size == 0:
            raise IllTyped("empty slice")
        return Ty({name: (size, ())}, (dtype, ()))
    if tag == "U":
        _, op, params, sub = e
        t = ty(sub)
        dtype, shape = t.out
        if op in POINTWISE_REAL:
            if op == "abs" and dtype != "real":
                return Ty(t.inputs, (dtype, shape))
            if dtype != "real":
                raise IllTyped("real op on integer")
            return Ty(t.inputs, ("real", shape))
        if op in EVENT_REDUCTIONS_REAL or op in EVENT_REDUCTIONS_BOOL or op in ARG_REDUCTIONS:
            axis, keepdims = params
            if not shape:
                raise IllTyped("reduction of a scalar output")
            if op in EVENT_REDUCTIONS_BOOL:
                if dtype != 2:
                    raise IllTyped("all/any need booleans")
            elif dtype != "real":
                raise IllTyped("numeric reduction of integers")
            if op in ARG_REDUCTIONS and not isinstance(axis, int):
                raise IllTyped("argmax needs one axis")
            ax = _norm_axis(axis, len(shape))
            if keepdims:
                new = tuple(1 if i in ax else s for i, s in enumerate(shape))
            else:
                new = tuple(s for i, s in enumerate(shape) if i not in ax)
            if op in EVENT_REDUCTIONS_BOOL:
                odt = 2
            elif op in ARG_REDUCTIONS:
                odt = shape[ax[0]]
            else:
                odt = "real"
            return Ty(t.inputs, (odt, new))
        if op == "reshape":
            (new,) = params
            if int(np.prod(new)) != int(np.prod(shape)) or not shape and not new:
                raise IllTyped("reshape size")
            return Ty(t.inputs, (dtype, tuple(new)))
        if op == "getslice":
            (index,) = params
            try:
                new = np.zeros(shape)[decode_index(index)].shape
            except IndexError:
                raise IllTyped("bad index")
            if 0 in new:
                raise IllTyped("empty result")
            return Ty(t.inputs, (dtype, tuple(new)))
        raise IllTyped("unknown unary %s" % (op,))
    if tag == "B":
        _, op, a, b = e
        ta, tb = ty(a), ty(b)
        inputs = _merge(ta.inputs, tb.inputs)
        (da, sa), (db, sb) = ta.out, tb.out
        if isinstance(op, tuple) and op[0] == "getitem":
            offset = op[1]
            if not isinstance(db, int) or sb != ():
                raise IllTyped("index must be a scalar bounded integer")
            if offset >= len(sa) or sa[offset] != db:
                raise IllTyped("index domain does not match the indexed dimension")
            return Ty(inputs, (da, sa[:offset] + sa[offset + 1 :]))
        if op in ARITH:
            if da == "real" and db == "real":
                return Ty(inputs, ("real", _bshape(sa, sb)))
            if isinstance(da, int) and isinstance(db, int):
                if op not in INT_ASSOC:
                    raise IllTyped("integer %s" % op)
                f = {"add": lambda x, y: x + y, "mul": lambda x, y: x * y, "max": max, "min": min}[op]
                return Ty(inputs, (f(da - 1, db - 1) + 1, _bshape(sa, sb)))
            # mixed integer/real arithmetic is left out of the language (no textbook typing without a cast)
            raise IllTyped("mixed dtypes")
        if op in COMPARE:
            if (da == "real") != (db == "real"):
                raise IllTyped("mixed comparison")
            return Ty(inputs, (2, _bshape(sa, sb)))
        if op in BOOLEAN:
            if da != 2 or db != 2:
                raise IllTyped("boolean op on non-booleans")
            return Ty(inputs, (2, _bshape(sa, sb)))
        if op in ("floordiv", "mod"):
            if isinstance(da, int) and isinstance(db, int):
                if db < 2:
                    raise IllTyped("divisor is always zero")
                return Ty(inputs, (da if op == "floordiv" else db - 1, _bshape(sa, sb)))
            if da == "real" and db == "real":
                return Ty(inputs, ("real", _bshape(sa, sb)))
            raise IllTyped("mixed dtypes")
        if op == "matmul":
            if da != "real" or db != "real" or not sa or not sb:
                raise IllTyped("matmul")
            try:
                new = np.matmul(np.zeros(sa), np.zeros(sb)).shape
            except ValueError:
                raise IllTyped("matmul shapes")
            return Ty(inputs, ("real", tuple(new)))
        raise IllTyped("unknown binary %s" % (op,))
    if tag == "R":
        _, op, sub, names = e
        t = ty(sub)
        dtype, shape = t.out
        if not names or len({n for n, _ in names}) != len(names):
            raise IllTyped("reduced names")
        if op in ("and", "or"):
            if dtype != 2:
                raise IllTyped("boolean reduction of non-booleans")
        elif dtype != "real":
            if op not in ("max", "min"):
                raise IllTyped("integer reduction would leave the declared range")
        for n, s in names:
            if n in t.inputs and t.inputs[n] != (s, ()):
                raise IllTyped("reduced variable domain")
        inputs = {k: v for k, v in t.inputs.items() if k not in {n for n, _ in names}}
        return Ty(inputs, t.out)
    if tag == "S":
        _, sub, subs = e
        t = ty(sub)
        keys = [k for k, _ in subs]
        if len(set(keys)) != len(keys):
            raise IllTyped("duplicate keys")
        inputs = {k: v for k, v in t.inputs.items() if k not in keys}
        for k, v in subs:
            if k not in t.inputs:
                ty(v)
                continue  # ignored
            tv = ty(v)
            if tv.out != t.inputs[k]:
                raise IllTyped("value domain %s does not match input domain %s" % (tv.out, t.inputs[k]))
            inputs = _merge(inputs, tv.inputs)
        return Ty(inputs, t.out)
    if tag == "Lam":
        _, name, size, sub = e
        t = ty(sub)
        if name in t.inputs and t.inputs[name] != (size, ()):
            raise IllTyped("lambda variable domain")
        inputs = {k: v for k, v in t.inputs.items() if k != name}
        return Ty(inputs, (t.out[0], (size,) + t.out[1]))
    if tag == "Stack":
        _, name, parts = e
        ts = [ty(p) for p in parts]
        if any(name in t.inputs for t in ts) or len({t.out for t in ts}) != 1:
            raise IllTyped("stack")
        return Ty(_merge({name: (len(parts), ())}, *[t.inputs for t in ts]), ts[0].out)
    if tag == "Cat":
        _, name, parts, part_name = e
        ts = [ty(p) for p in parts]
        if len({t.out for t in ts}) != 1:
            raise IllTyped("cat outputs")
        total = 0
        for t in ts:
            if part_name not in t.inputs or t.inputs[part_name][1] != () or not isinstance(t.inputs[part_name][0], int):
                raise IllTyped("cat part lacks the part name")
            if part_name != name and name in t.inputs:
                raise IllTyped("cat name clashes")
            total += t.inputs[part_name][0]
        inputs = {}
        for t in ts:
            inputs = _merge(inputs, {k: v for k, v in t.inputs.items() if k != part_name})
        inputs = _merge(inputs, {name: (total, ())})
        return Ty(inputs, ts[0].out)
    if tag == "Ind":
        _, sub, reals_var, bint_var, diag_var = e
        t = ty(sub)
        if bint_var not in t.inputs or diag_var not in t.inputs:
            raise IllTyped("independent vars missing")
        bd, dd = t.inputs[bint_var], t.inputs[diag_var]
        if not isinstance(bd[0], int) or bd[1] != () or bint_var == diag_var:
            raise IllTyped("independent")  # reals_var may be spelled like one of the two bound names
        if t.out[0] != "real":
            raise IllTyped("independent of an integer-valued term (the sum would leave the declared range)")
        inputs = {k: v for k, v in t.inputs.items() if k not in (bint_var, diag_var)}
        if reals_var in inputs:
            raise IllTyped("reals_var clashes")
        inputs[reals_var] = (dd[0], (bd[0],) + dd[1])
        return Ty(inputs, t.out)
    if tag == "G":
        _, gid, inputs = e
        if len({n for n, _, _ in inputs}) != len(inputs) or not any(dt == "real" for _, dt, _ in inputs):
            raise IllTyped("gaussian inputs")
        return Ty({n: (dt, tuple(shp)) for n, dt, shp in inputs}, ("real", ()))
    if tag == "D":
        _, name, point, ld = e
        tp, tl = ty(point), ty(ld)
        if name in tp.inputs or name in tl.inputs or tl.out != ("real", ()):
            raise IllTyped("delta")
        return Ty(_merge({name: tp.out}, tp.inputs, tl.inputs), ("real", ()))
    if tag == "Al":
        _, sub, names = e
        t = ty(sub)
        if len(set(names)) != len(names) or any(n not in t.inputs for n in names):
            raise IllTyped("align names")
        inputs = {n: t.inputs[n] for n in names}
        inputs.update(t.inputs)
        return Ty(inputs, t.out)
    if tag == "Ein":
        _, eq, parts = e
        ts = [ty(p) for p in parts]
        if any(t.out[0] != "real" for t in ts):
            raise IllTyped("einsum of integers")
        try:
            new = np.einsum(eq, *[np.zeros(t.out[1]) for t in ts]).shape
        except ValueError:
            raise IllTyped("einsum equation")
        return Ty(_merge(*[t.inputs for t in ts]), ("real", tuple(new)))
    if tag == "Fin":
        _, kind, dim, parts = e
        ts = [ty(p) for p in parts]
        if len({t.out[0] for t in ts}) != 1:
            raise IllTyped("finitary dtypes")
        try:
            arrs = [np.zeros(t.out[1]) for t in ts]
            if kind == "stack" and len({a.shape for a in arrs}) != 1:
                raise IllTyped("stack of different shapes (broadcasting stack is left out of the language)")
            new = (np.stack(arrs, dim) if kind == "stack" else np.concatenate(arrs, dim)).shape
        except (ValueError, IndexError):
            raise IllTyped("finitary shapes")
        return Ty(_merge(*[t.inputs for t in ts]), (ts[0].out[0], tuple(new)))
    raise IllTyped("unknown node %r" % (tag,))


def well_typed(e):
    try:
        ty(e)
        return True
    except IllTyped:
        return False


# ---------------------------------------------------------------------------
# denotation


def _logsumexp(x, axis=None, keepdims=False):
    m = np.max(x, axis=axis, keepdims=True)
    m0 = np.where(np.isfinite(m), m, 0.0)
    r = np.log(np.sum(np.exp(x - m0), axis=axis, keepdims=True)) + m0
    if not keepdims:
        r = np.squeeze(r, axis=axis)
    return r


def _logaddexp(x, y):
    return np.logaddexp(x, y)


_UNARY = {
    "neg": np.negative,
    "abs": np.abs,
    "exp": np.exp,
    "log": np.log,
    "sqrt": np.sqrt,
    "log1p": np.log1p,
    "sigmoid": lambda x: 1.0 / (1.0 + np.exp(-x)),
    "tanh": np.tanh,
    "reciprocal": lambda x: 1.0 / x,
}
_EVRED = {
    "sum": np.sum,
    "prod": np.prod,
    "max": np.max,
    "min": np.min,
    "mean": np.mean,
    "std": np.std,
    "var": np.var,
    "all": np.all,
    "any": np.any,
    "logsumexp": _logsumexp,
}
_BIN = {
    "add": np.add,
    "sub": np.subtract,
    "mul": np.multiply,
    "truediv": np.true_divide,
    "pow": np.power,
    "max": np.maximum,
    "min": np.minimum,
    "logaddexp": _logaddexp,
    "eq": np.equal,
    "ne": np.not_equal,
    "lt": np.less,
    "le": np.less_equal,
    "gt": np.greater,
    "ge": np.greater_equal,
    "and": np.logical_and,
    "or": np.logical_or,
    "xor": np.logical_xor,
    "matmul": np.matmul,
}


def _as_out(v, dtype):
    v = np.asarray(v)
    if dtype == "real":
        return v.astype(np.float64)
    return v.astype(np.int64)


def den(e, rho, seed=0):
    """Value of ``e`` (an ndarray of the output shape) in environment ``rho`` (name -> int | ndarray)."""
    tag = e[0]
    if tag == "T":
        arr = leaf_array(e, seed)
        return arr[tuple(int(rho[n]) for n in e[1])]
    if tag == "N":
        return _as_out(e[1], e[2])
    if tag == "V":
        return _as_out(rho[e[1]], e[2])
    if tag == "Slice":
        _, name, start, stop, step, dtype = e
        return np.asarray(start + step * int(rho[name]), dtype=np.int64)
    if tag == "U":
        _, op, params, sub = e
        x = den(sub, rho, seed)
        odt = ty(e).out[0]
        if op in _UNARY:
            if op in ("log", "sqrt") and np.any(x < 0) or op == "log1p" and np.any(x < -1) or op == "reciprocal" and np.any(x == 0):
                raise Undefined(op)
            return _as_out(_UNARY[op](x), odt)
        if op in _EVRED:
            axis, keepdims = params
            return _as_out(_EVRED[op](x, axis=axis, keepdims=keepdims), odt)
        if op in ARG_REDUCTIONS:
            axis, keepdims = params
            r = (np.argmax if op == "argmax" else np.argmin)(x, axis=axis)
            if keepdims:
                r = np.expand_dims(r, axis)
            return _as_out(r, odt)
        if op == "reshape":
            return x.reshape(params[0])
        if op == "getslice":
            return x[decode_index(params[0])]
        raise ValueError(op)
    if tag == "B":
        _, op, a, b = e
        x, y = den(a, rho, seed), den(b, rho, seed)
        odt = ty(e).out[0]
        if isinstance(op, tuple):
            offset = op[1]
            return x[(slice(None),) * offset + (int(y),)]
        if op in ("floordiv", "mod"):
            if np.any(y == 0):
                raise Undefined("division by zero")
            return _as_out(np.floor_divide(x, y) if op == "floordiv" else np.mod(x, y), odt)
        if op == "truediv" and np.any(y == 0):
            raise Undefined("division by zero")
        if op == "pow" and np.any((x < 0)) and ty(a).out[0] == "real":
            raise Undefined("negative base")
        return _as_out(_BIN[op](x, y), odt)
    if tag == "R":
        _, op, sub, names = e
        f = _BIN[op]
        acc = None
        for vals in itertools.product(*[range(s) for _, s in names]):
            rho2 = dict(rho)
            rho2.update({n: v for (n, _), v in zip(names, vals)})
            v = den(sub, rho2, seed)
            acc = v if acc is None else f(acc, v)
        return _as_out(acc, ty(e).out[0])
    if tag == "S":
        _, sub, subs = e
        t = ty(sub)
        rho2 = dict(rho)
        for k, v in subs:
            if k in t.inputs:
                rho2[k] = den(v, rho, seed)
        return den(sub, rho2, seed)
    if tag == "Lam":
        _, name, size, sub = e
        vals = []
        for i in range(size):
            rho2 = dict(rho)
            rho2[name] = i
            vals.append(den(sub, rho2, seed))
        return np.stack(vals, 0)
    if tag == "Stack":
        return den(e[2][int(rho[e[1]])], rho, seed)
    if tag == "Cat":
        _, name, parts, part_name = e
        n = int(rho[name])
        for p in parts:
            size = ty(p).inputs[part_name][0]
            if n < size:
                rho2 = dict(rho)
                rho2[part_name] = n
                return den(p, rho2, seed)
            n -= size
        raise ValueError("cat index out of range")
    if tag == "Ind":
        _, sub, reals_var, bint_var, diag_var = e
        size = ty(sub).inputs[bint_var][0]
        acc = None
        for b in range(size):
            rho2 = dict(rho)
            rho2[bint_var] = b
            rho2[diag_var] = np.asarray(rho[reals_var])[b]
            v = den(sub, rho2, seed)
            acc = v if acc is None else acc + v
        return acc
    if tag == "G":
        wv, ps = gauss_params(e, seed)
        idx = tuple(int(rho[n]) for n, dt, _ in e[2] if dt != "real")
        z = np.concatenate([np.asarray(rho[n], dtype=float).reshape(-1) for n, dt, _ in e[2] if dt == "real"])
        r = z @ ps[idx] - wv[idx]
        return np.asarray(-0.5 * np.sum(r * r))
    if tag == "D":
        _, name, point, ld = e
        p = den(point, rho, seed)
        v = np.asarray(rho[name])
        if p.shape == v.shape and np.all(p == v):
            return den(ld, rho, seed)
        return np.asarray(-np.inf)
    if tag == "Al":
        return den(e[1], rho, seed)
    if tag == "Ein":
        _, eq, parts = e
        return np.einsum(eq, *[den(p, rho, seed) for p in parts])
    if tag == "Fin":
        _, kind, dim, parts = e
        vals = [den(p, rho, seed) for p in parts]
        if kind == "stack":
            return np.stack(np.broadcast_arrays(*vals), dim)
        return np.concatenate(vals, dim)
    raise ValueError(tag)


def points(inputs, seed, k_real=2):
    """All assignments of the integer inputs x the fixed sample points of the real inputs."""
    names = list(inputs)
    axes = []
    for n in names:
        dtype, shape = inputs[n]
        if dtype == "real":
            axes.append(real_points(n, shape, seed, k_real))
        elif shape == ():
            axes.append(list(range(dtype)))
        else:
            # array-valued bounded integers: two deterministic contents
            size = int(np.prod(shape))
            axes.append(
                [
                    (np.arange(size) % dtype).reshape(shape),
                    ((np.arange(size) * 2 + 1) % dtype).reshape(shape),
                ]
            )
    for vals in itertools.product(*axes):
        yield dict(zip(names, vals))


def table(e, seed, k_real=2):
    """[(point, value | None)] over the whole input space of ``e``; None where the reference is undefined."""
    t = ty(e)
    out = []
    with np.errstate(all="ignore"):
        for rho in points(t.inputs, seed, k_real):
            try:
                v = den(e, rho, seed)
                if np.any(np.isnan(v)):
                    v = None
            except (Undefined, OverflowError, ZeroDivisionError):
                v = None
            out.append((rho, v))
    return t, out


# ---------------------------------------------------------------------------
# construction through the public API


def build(e, seed=0, arrays=None):
    """Build the funsor for ``e`` under the *current* interpretation using public API only.

    ``arrays``: optional dict collecting every leaf array created (for the immutability monitor)."""
    import funsor
    from funsor import ops
    from funsor.domains import Array, Bint, Real, Reals
    from funsor.tensor import Tensor
    from funsor.terms import Cat, Independent, Lambda, Number, Slice, Stack, Variable

    if arrays is None:
        arrays = {}  # identical leaf nodes of one build share one array (hence, by hash-consing, one Tensor)

    def dom(dtype, shape):
        return Array[dtype, tuple(shape)]

    OPS = {
        "add": ops.add,
        "sub": ops.sub,
        "mul": ops.mul,
        "truediv": ops.truediv,
        "pow": ops.pow,
        "max": ops.max,
        "min": ops.min,
        "logaddexp": ops.logaddexp,
        "eq": ops.eq,
        "ne": ops.ne,
        "lt": ops.lt,
        "le": ops.le,
        "gt": ops.gt,
        "ge": ops.ge,
        "and": ops.and_,
        "or": ops.or_,
        "xor": ops.xor,
        "floordiv": ops.floordiv,
        "mod": ops.mod,
        "matmul": ops.matmul,
    }
    INFIX = {
        "add": lambda a, b: a + b,
        "sub": lambda a, b: a - b,
        "mul": lambda a, b: a * b,
        "truediv": lambda a, b: a / b,
        "pow": lambda a, b: a**b,
        "eq": lambda a, b: a == b,
        "ne": lambda a, b: a != b,
        "lt": lambda a, b: a < b,
        "le": lambda a, b: a <= b,
        "gt": lambda a, b: a > b,
        "ge": lambda a, b: a >= b,
        "and": lambda a, b: a & b,
        "or": lambda a, b: a | b,
        "xor": lambda a, b: a ^ b,
        "floordiv": lambda a, b: a // b,
        "mod": lambda a, b: a % b,
        "matmul": lambda a, b: a @ b,
    }

    def go(e):
        tag = e[0]
        if tag == "T":
            _, names, sizes, shape, dtype, fill = e
            arr = leaf_array(e, seed)
            if dtype == 2 and fill[0] == "c" and fill[-1] == "bool":
                arr = arr.astype(bool)
            if arrays is not None:
                arrays.setdefault(e, arr)
                arr = arrays[e]
            from collections import OrderedDict

            return Tensor(arr, OrderedDict((n, Bint[s]) for n, s in zip(names, sizes)), dtype)
        if tag == "N":
            v = e[1]
            return Number(v, e[2]) if e[2] != "real" else Number(float(v))
        if tag == "V":
            return Variable(e[1], dom(e[2], e[3]))
        if tag == "Slice":
            return Slice(e[1], e[2], e[3], e[4], e[5])
        if tag == "U":
            _, op, params, sub = e
            x = go(sub)
            if op == "neg":
                return -x
            if op == "reciprocal":
                return ops.reciprocal(x)
            if op in POINTWISE_REAL:
                return getattr(x, op)()
            if op in _EVRED or op in ARG_REDUCTIONS:
                axis, keepdims = params
                return getattr(x, op)(axis=axis, keepdims=keepdims)
            if op == "reshape":
                return x.reshape(tuple(params[0]))
            if op == "getslice":
                idx = decode_index(params[0])
                return x[idx[0] if len(idx) == 1 else idx]
            raise ValueError(op)
        if tag == "B":
            _, op, a, b = e
            x, y = go(a), go(b)
            if isinstance(op, tuple):
                offset = op[1]
                if offset == 0:
                    return x[y]
                return ops.GetitemOp(offset)(x, y)
            if op in INFIX:
                return INFIX[op](x, y)
            return OPS[op](x, y)
        if tag == "R":
            _, op, sub, names = e
            x = go(sub)
            rv = frozenset(n if n in x.inputs else Variable(n, Bint[s]) for n, s in names)
            return x.reduce(OPS[op], rv)
        if tag == "S":
            _, sub, subs = e
            x = go(sub)
            return x(**{k: go(v) for k, v in subs})
        if tag == "Lam":
            return Lambda(Variable(e[1], Bint[e[2]]), go(e[3]))
        if tag == "Stack":
            return Stack(e[1], tuple(go(p) for p in e[2]))
        if tag == "Cat":
            return Cat(e[1], tuple(go(p) for p in e[2]), e[3])
        if tag == "Ind":
            return Independent(go(e[1]), e[2], e[3], e[4])
        if tag == "G":
            from collections import OrderedDict
            from funsor.gaussian import Gaussian

            wv, ps = gauss_params(e, seed)
            if arrays is not None:
                wv = arrays.setdefault((e, "wv"), wv)
                ps = arrays.setdefault((e, "ps"), ps)
            return Gaussian(wv, ps, OrderedDict((n, dom(dt, shp)) for n, dt, shp in e[2]))
        if tag == "D":
            from funsor.delta import Delta

            return Delta(e[1], go(e[2]), go(e[3]))
        if tag == "Al":
            return go(e[1]).align(tuple(e[2]))
        if tag == "Ein":
            return ops.einsum(tuple(go(p) for p in e[2]), e[1])
        if tag == "Fin":
            parts = tuple(go(p) for p in e[3])
            return ops.stack(parts, e[2]) if e[1] == "stack" else ops.cat(parts, e[2])
        raise ValueError(tag)

    return go(e)


# ---------------------------------------------------------------------------
# printing as stand-alone public-API code


def code(e):
    tag = e[0]
    if tag == "T":
        _, names, sizes, shape, dtype, fill = e
        ins = "OrderedDict([%s])" % ", ".join("(%r, Bint[%d])" % (n, s) for n, s in zip(names, sizes))
        return "Tensor(leaf(%r), %s, %r)" % (e, ins, dtype)
    if tag == "N":
        return "Number(%r%s)" % (e[1], "" if e[2] == "real" else ", %r" % (e[2],))
    if tag == "V":
        return "Variable(%r, Array[%r, %r])" % (e[1], e[2], tuple(e[3]))
    if tag == "Slice":
        return "Slice(%r, %d, %d, %d, %d)" % tuple(e[1:])
    if tag == "U":
        _, op, params, sub = e
        s = code(sub)
        if op == "neg":
            return "(-%s)" % s
        if op == "reciprocal":
            return "ops.reciprocal(%s)" % s
        if op in POINTWISE_REAL:
            return "%s.%s()" % (s, op)
        if op == "reshape":
            return "%s.reshape(%r)" % (s, tuple(params[0]))
        if op == "getslice":
            return "%s[%s]" % (s, ", ".join(_idx_code(p) for p in params[0]))
        return "%s.%s(axis=%r, keepdims=%r)" % (s, op, params[0], params[1])
    if tag == "B":
        _, op, a, b = e
        if isinstance(op, tuple):
            return "ops.GetitemOp(%d)(%s, %s)" % (op[1], code(a), code(b))
        sym = {
            "add": "+", "sub": "-", "mul": "*", "truediv": "/", "pow": "**", "eq": "==", "ne": "!=", "lt": "<",
            "le": "<=", "gt": ">", "ge": ">=", "and": "&", "or": "|", "xor": "^", "floordiv": "//", "mod": "%",
            "matmul": "@",
        }  # fmt: skip
        if op in sym:
            return "(%s %s %s)" % (code(a), sym[op], code(b))
        return "ops.%s(%s, %s)" % (op, code(a), code(b))
    if tag == "R":
        _, op, sub, names = e
        opn = {"and": "and_", "or": "or_"}.get(op, op)
        return "%s.reduce(ops.%s, frozenset({%s}))" % (
            code(sub),
            opn,
            ", ".join("Variable(%r, Bint[%d])" % (n, s) for n, s in names),
        )
    if tag == "S":
        return "%s(**{%s})" % (code(e[1]), ", ".join("%r: %s" % (k, code(v)) for k, v in e[2]))
    if tag == "Lam":
        return "Lambda(Variable(%r, Bint[%d]), %s)" % (e[1], e[2], code(e[3]))
    if tag == "Stack":
        return "Stack(%r, (%s,))" % (e[1], ", ".join(code(p) for p in e[2]))
    if tag == "Cat":
        return "Cat(%r, (%s,), %r)" % (e[1], ", ".join(code(p) for p in e[2]), e[3])
    if tag == "Ind":
        return "Independent(%s, %r, %r, %r)" % (code(e[1]), e[2], e[3], e[4])
    if tag == "G":
        ins = "OrderedDict([%s])" % ", ".join("(%r, Array[%r, %r])" % (n, dt, tuple(shp)) for n, dt, shp in e[2])
        return "Gaussian(*gauss_leaf(%r), %s)" % (e, ins)
    if tag == "D":
        return "Delta(%r, %s, %s)" % (e[1], code(e[2]), code(e[3]))
    if tag == "Al":
        return "%s.align(%r)" % (code(e[1]), tuple(e[2]))
    if tag == "Ein":
        return "ops.einsum((%s,), %r)" % (", ".join(code(p) for p in e[2]), e[1])
    if tag == "Fin":
        return "ops.%s((%s,), %r)" % (e[1], ", ".join(code(p) for p in e[3]), e[2])
    return repr(e)


def _idx_code(p):
    if isinstance(p, tuple) and p and p[0] == "s":
        return "slice(%r, %r, %r)" % (p[1], p[2], p[3])
    if p == "...":
        return "Ellipsis"
    return repr(p)


SNIPPET_HEADER = """\
# stand-alone reproduction (public funsor API + numpy only); run with /venv/bin/python
import numpy as np
from collections import OrderedDict
import funsor
from funsor import ops
from funsor.domains import Array, Bint, Real, Reals
from funsor.tensor import Tensor
from funsor.terms import Cat, Independent, Lambda, Number, Slice, Stack, Variable
funsor.set_backend("numpy")
def leaf(node, seed=%d):
    _, names, sizes, shape, dtype, fill = node
    full = tuple(sizes) + tuple(shape)
    if fill[0] == "g":
        n = int(np.prod(full)) if full else 1
        c = np.arange(n, dtype=np.float64)
        return (0.5 + 1.5 * np.mod(0.6180339887498949 * (131.0 * fill[1] + c + 1.0) + seed * 0.7548776662466927, 1.0)).reshape(full)
    return np.array(fill[1], dtype=np.float64 if dtype == "real" else np.int64).reshape(full)
def gfill(i, shape, seed):
    n = int(np.prod(shape)) if shape else 1
    c = np.arange(n, dtype=np.float64)
    return (0.5 + 1.5 * np.mod(0.6180339887498949 * (131.0 * i + c + 1.0) + seed * 0.7548776662466927, 1.0)).reshape(shape)
def gauss_leaf(node, seed=%d):
    from funsor.gaussian import Gaussian
    _, gid, inputs = node
    batch = tuple(dt for _, dt, shp in inputs if dt != "real")
    dim = sum(int(np.prod(shp)) if shp else 1 for _, dt, shp in inputs if dt == "real")
    return gfill(700 + gid, batch + (dim,), seed) - 1.0, 0.5 * gfill(701 + gid, batch + (dim, dim), seed) + 2.0 * np.eye(dim)
from funsor.gaussian import Gaussian
from funsor.delta import Delta
"""


def snippet(e, seed, expected=None, interpretation=None):
    lines = [SNIPPET_HEADER % (seed, seed)]
    if interpretation:
        lines.append("with funsor.interpretations.%s:\n    r = %s" % (interpretation, code(e)))
    else:
        lines.append("r = %s" % code(e))
    lines.append("print(r)")
    if expected is not None:
        lines.append("# reference (point -> value): %s" % (expected,))
    return "\n".join(lines)


# ---------------------------------------------------------------------------
# structural helpers


def children(e):
    tag = e[0]
    if tag in ("T", "N", "V", "Slice"):
        return ()
    if tag == "U":
        return (e[3],)
    if tag == "B":
        return (e[2], e[3])
    if tag == "R":
        return (e[2],)
    if tag == "S":
        return (e[1],) + tuple(v for _, v in e[2])
    if tag == "Lam":
        return (e[3],)
    if tag in ("Stack", "Cat"):
        return tuple(e[2])
    if tag == "D":
        return (e[2], e[3])
    if tag in ("Ind", "Al"):
        return (e[1],)
    if tag == "Ein":
        return tuple(e[2])
    if tag == "Fin":
        return tuple(e[3])
    return ()


def subterms(e):
    """Post-order list of all sub-terms (children first)."""
    out = []
    seen = set()

    def go(x):
        if x in seen:
            return
        seen.add(x)
        for c in children(x):
            go(c)
        out.append(x)

    go(e)
    return out


def size(e):
    return 1 + sum(size(c) for c in children(e))


def depth(e):
    cs = children(e)
    return 1 + (max(depth(c) for c in cs) if cs else 0)


def head(e):
    """Constructor + op label of the root, used as violation 'site'."""
    tag = e[0]
    if tag in ("U", "B", "R"):
        op = e[1]
        if isinstance(op, tuple):
            op = op[0]
        return "%s:%s" % (tag, op)
    if tag == "Fin":
        return "Fin:" + e[1]
    return tag
