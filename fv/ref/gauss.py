"""Reference model for Gaussian funsors: the dense quadratic form per batch index (plain numpy, no funsor).

A Gaussian funsor with square-root parameters ``(white_vec w, prec_sqrt S)`` denotes, at every batch index,

    f(x) = -1/2 || x @ S - w ||^2  =  -1/2 x'Px + x'eta + c,     P = S S',  eta = S w,  c = -1/2 w'w

where ``x`` is the concatenation of the flattened real inputs in ``.inputs`` order (funsor/gaussian.py, class
docstring and the complete-substitution branch of ``_eager_subs_real``).  It is *not* normalised.

This module holds

* the deterministic well-conditioned parameter generator (Householder orthogonal factors times singular values in
  [1, 3]; a function of ``VERIF_SEED`` only through ``lang.generic_fill``),
* ``Dense``: (P, eta, c) per batch index with point evaluation,
* the dense forms of all (mean | info_vec | white_vec) x (precision | covariance | scale_tril | prec_sqrt)
  parametrisations of one mathematical Gaussian,
* a small expression language of pointwise operations with its typing ``ty`` and point-wise evaluation ``ev``
  (function composition on the dense form: the value of op(e) at a point is the value of e at the transformed point),
* the unisolvent lattice on which two quadratics agree iff they are equal.

Input descriptors: ``(name, "b", size)`` for a batch (bounded-integer) input, ``(name, "r", shape)`` for a real one.

Expressions (nested tuples, JSON-able):

    ("G", gid, inputs, rank)                    Gaussian leaf from square-root parameters
    ("C", gid, inputs, loc, scale, rank)        Gaussian leaf built from another parametrisation
    ("T", tid, binputs)   ("N", value)          real tensor over batch inputs; number
    ("add", e1, e2)
    ("subs", e, ((name, value), ...))           simultaneous substitution; values:
         ("rt", tid, binputs, shape)            real tensor (ground when binputs == ())
         ("int", k) | ("slice", new, start, stop, step, size) | ("idx", binputs, flat_contents) | ("var", new)
         ("matvec", y, yshape, aid, binputs)    x = A y + b  (A, b tensors, possibly batched)
         ("getitem", y, yshape, index)          x = y[index]
         ("sum2", y, z)                         x = y + z
         ("scale", y)                           x = 2 y - 1
    ("osubs", e, pairs)                         the same substitution, handed over as funsor.terms.Subs(e, pairs) with the
                                                pairs in exactly this order (x(**kw) re-orders them into x.inputs order)
    ("lin", ((name, shape, coef), ...))         lazy linear term  sum_j coef_j * sum(elements of name_j)
    ("align", e, names)   ("compress", e)       value-preserving
    ("cat", name, part_name, parts)
"""
import itertools
from collections import OrderedDict

import numpy as np

from .lang import generic_fill

# ---------------------------------------------------------------------------
# small helpers on input descriptors


def numel(shape):
    n = 1
    for s in shape:
        n *= s
    return n


def split_inputs(inputs):
    """-> (batch [(name, size)], reals [(name, shape)]) in the given order."""
    b = [(n, d) for n, k, d in inputs if k == "b"]
    r = [(n, tuple(d)) for n, k, d in inputs if k == "r"]
    return b, r


def total_dim(inputs):
    return sum(numel(d) for n, k, d in inputs if k == "r")


def batch_shape(inputs):
    return tuple(d for n, k, d in inputs if k == "b")


# ---------------------------------------------------------------------------
# deterministic, well-conditioned parameters


def centred(fid, shape, seed):
    """generic fill shifted to (-0.75, 0.75): pairwise distinct, both signs."""
    return generic_fill(fid, shape, seed) - 1.25


def orthogonal(fid, n, seed):
    """An n x n orthogonal matrix: product of two Householder reflections with generic normals."""
    if n == 0:
        return np.zeros((0, 0))
    q = np.eye(n)
    for j in range(2):
        v = centred(fid + 17 * j + 3, (n,), seed) + (0.9 if j == 0 else -0.4)
        q = q @ (np.eye(n) - 2.0 * np.outer(v, v) / (v @ v))
    return q


def singular_values(fid, m, seed):
    """m values in [1, 3]."""
    return 1.0 + 2.0 * (generic_fill(fid + 5, (m,), seed) - 0.5) / 1.5


def sqrt_factor(fid, dim, rank, seed):
    """A dim x rank matrix of full rank min(dim, rank) with singular values in [1, 3]."""
    m = min(dim, rank)
    if m == 0:
        return np.zeros((dim, rank))
    u = orthogonal(fid, dim, seed)[:, :m]
    v = orthogonal(fid + 41, rank, seed)[:, :m]
    return (u * singular_values(fid, m, seed)) @ v.T


def sqrt_params(gid, inputs, rank, seed):
    """(white_vec, prec_sqrt) arrays of a Gaussian leaf: batch_shape + (rank,), batch_shape + (dim, rank)."""
    bs = batch_shape(inputs)
    dim = total_dim(inputs)
    w = np.zeros(bs + (rank,))
    s = np.zeros(bs + (dim, rank))
    for flat, idx in enumerate(itertools.product(*map(range, bs))):
        fid = 1000 * gid + 97 * flat
        s[idx] = sqrt_factor(fid, dim, rank, seed)
        w[idx] = 2.0 * centred(fid + 59, (rank,), seed)
    return w, s


def moment_params(gid, inputs, seed):
    """One mathematical Gaussian per batch index: dict of arrays mean, covariance, precision, scale_tril, info_vec."""
    bs = batch_shape(inputs)
    dim = total_dim(inputs)
    out = {
        "mean": np.zeros(bs + (dim,)),
        "covariance": np.zeros(bs + (dim, dim)),
        "precision": np.zeros(bs + (dim, dim)),
        "scale_tril": np.zeros(bs + (dim, dim)),
        "info_vec": np.zeros(bs + (dim,)),
    }
    for flat, idx in enumerate(itertools.product(*map(range, bs))):
        fid = 1000 * gid + 97 * flat
        u = orthogonal(fid, dim, seed)
        sv = singular_values(fid, dim, seed)
        prec = (u * sv**2) @ u.T
        cov = (u / sv**2) @ u.T
        prec = 0.5 * (prec + prec.T)
        cov = 0.5 * (cov + cov.T)
        mean = 2.0 * centred(fid + 59, (dim,), seed)
        out["mean"][idx] = mean
        out["covariance"][idx] = cov
        out["precision"][idx] = prec
        out["scale_tril"][idx] = np.linalg.cholesky(cov)
        out["info_vec"][idx] = prec @ mean
    return out


LOCS = ("white_vec", "mean", "info_vec")
SCALES = ("prec_sqrt", "precision", "covariance", "scale_tril")


def valid_parametrisation(loc, scale, dim, rank):
    """Which of the 3 x 4 combinations the constructor accepts / is mathematically defined for."""
    if loc == "white_vec" and scale != "prec_sqrt":
        return False  # the constructor raises ValueError("Cannot specify white_vec without prec_sqrt")
    if scale != "prec_sqrt":
        return rank == dim
    if loc == "info_vec":
        return rank >= dim  # eta must lie in the range of P: only guaranteed for full row rank
    return True


def constructor_args(gid, inputs, loc, scale, rank, seed):
    """-> (kwargs of numpy arrays for funsor's Gaussian(...), Dense reference of the same mathematical function)."""
    bs = batch_shape(inputs)
    dim = total_dim(inputs)
    mp = moment_params(gid, inputs, seed)
    kw = {}
    if scale == "prec_sqrt":
        # a (possibly rank-deficient or wide) factor of its own
        _, s = sqrt_params(gid + 1, inputs, rank, seed)
        kw["prec_sqrt"] = s
        prec = s @ np.swapaxes(s, -1, -2)
    else:
        kw[scale] = mp[scale]
        prec = mp["precision"]
    if loc == "mean":
        mean = mp["mean"]
        kw["mean"] = mean
        eta = (prec @ mean[..., None])[..., 0]
        c = -0.5 * (mean * eta).sum(-1)
    elif loc == "info_vec":
        eta = 1.5 * mp["info_vec"] if scale == "prec_sqrt" else mp["info_vec"]
        kw["info_vec"] = eta
        c = np.zeros(bs)
        for idx in itertools.product(*map(range, bs)):
            c[idx] = -0.5 * eta[idx] @ np.linalg.solve(prec[idx], eta[idx])
    elif loc == "white_vec":
        w, _ = sqrt_params(gid + 1, inputs, rank, seed)
        kw["white_vec"] = w
        eta = (kw["prec_sqrt"] @ w[..., None])[..., 0]
        c = -0.5 * (w * w).sum(-1)
    else:
        raise ValueError(loc)
    return kw, Dense(inputs, prec, eta, c)


# ---------------------------------------------------------------------------
# the dense form


class Dense:
    """-1/2 x'Px + x'eta + c per batch index; x = concatenated flattened real inputs in ``inputs`` order."""

    def __init__(self, inputs, P, eta, c):
        self.inputs = tuple(inputs)
        self.batch, self.reals = split_inputs(inputs)
        self.P, self.eta, self.c = np.asarray(P, float), np.asarray(eta, float), np.asarray(c, float)
        bs = batch_shape(inputs)
        dim = total_dim(inputs)
        assert self.P.shape == bs + (dim, dim), (self.P.shape, bs, dim)
        assert self.eta.shape == bs + (dim,)
        assert self.c.shape == bs

    @staticmethod
    def from_sqrt(inputs, white_vec, prec_sqrt):
        w, s = np.asarray(white_vec, float), np.asarray(prec_sqrt, float)
        P = s @ np.swapaxes(s, -1, -2)
        eta = (s @ w[..., None])[..., 0]
        c = -0.5 * (w * w).sum(-1)
        return Dense(inputs, P, eta, c)

    def value(self, env):
        """env: name -> int (batch) | array (real) with a leading axis of points.  -> array of one value per point."""
        idx = tuple(int(env[n]) for n, _ in self.batch)
        parts = []
        for n, shape in self.reals:
            p = np.asarray(env[n], float)
            assert p.shape[1:] == tuple(shape), (n, shape, p.shape)
            parts.append(p.reshape(p.shape[0], -1))
        npts = max(p.shape[0] for p in parts)  # values that are the same at every point have a leading axis of 1
        x = np.concatenate([np.broadcast_to(p, (npts, p.shape[1])) for p in parts], axis=1)  # points x dim
        P, eta, c = self.P[idx], self.eta[idx], self.c[idx]
        return -0.5 * np.einsum("pi,ij,pj->p", x, P, x) + x @ eta + c

    def value_at(self, env):
        """Single point: env maps real names to arrays of the input's own shape."""
        one = {n: (np.asarray(v, float)[None] if n in dict(self.reals) else v) for n, v in env.items()}
        return float(self.value(one)[0])


# ---------------------------------------------------------------------------
# leaf data (cached per process: deterministic functions of their arguments)

_CACHE = {}


def _cached(key, fn):
    v = _CACHE.get(key)
    if v is None:
        if len(_CACHE) > 4000:
            _CACHE.clear()
        v = _CACHE[key] = fn()
    return v


def leaf_sqrt(e, seed):
    _, gid, inputs, rank = e
    return _cached(("G", gid, inputs, rank, seed), lambda: sqrt_params(gid, inputs, rank, seed))


def leaf_constructor(e, seed):
    _, gid, inputs, loc, scale, rank = e
    return _cached(("C",) + e[1:] + (seed,), lambda: constructor_args(gid, inputs, loc, scale, rank, seed))


def leaf_dense(e, seed):
    if e[0] == "G":
        return _cached(("GD",) + e[1:] + (seed,), lambda: Dense.from_sqrt(e[2], *leaf_sqrt(e, seed)))
    return leaf_constructor(e, seed)[1]


def tensor_data(tid, binputs, shape, seed):
    """Real data of a tensor leaf / substituted value: batch sizes + event shape, both signs."""
    full = tuple(d for _, _, d in binputs) + tuple(shape)
    return 1.6 * centred(5000 + tid, full, seed)


def matvec_data(aid, binputs, xshape, yshape, seed):
    """(A, b) of the affine map x = A y + b.  A has shape batch + xshape + yshape-contracted layout:

    x: ()    y: (m,)    A: (m,)     x = A . y + b
    x: (n,)  y: (m,)    A: (n, m)   x = A @ y + b
    x: (n,k) y: (m,k)   A: (n, m)   x = A @ y + b
    """
    bs = tuple(d for _, _, d in binputs)
    xshape, yshape = tuple(xshape), tuple(yshape)
    if len(xshape) == 0:
        ashape = (yshape[0],)
    else:
        ashape = (xshape[0], yshape[0])
    A = 1.2 * centred(7000 + aid, bs + ashape, seed) + 0.3
    b = centred(7500 + aid, bs + xshape, seed)
    return A, b


def index_contents(binputs, contents):
    return np.array(contents, dtype=np.int64).reshape(tuple(d for _, _, d in binputs))


# ---------------------------------------------------------------------------
# typing


class IllTyped(Exception):
    pass


def _merge(into, name, dom):
    dom = (dom[0], tuple(dom[1]) if dom[0] == "r" else dom[1])
    if name in into and into[name] != dom:
        raise IllTyped("input %s has domains %s and %s" % (name, into[name], dom))
    into[name] = dom


def value_type(val, target_dom):
    """-> (inputs contributed by the substituted value, domain the value has)."""
    k = val[0]
    ins = OrderedDict()
    if k == "rt":
        for n, _, d in val[2]:
            _merge(ins, n, ("b", d))
        return ins, ("r", tuple(val[3]))
    if k == "int":
        if not (target_dom[0] == "b" and 0 <= val[1] < target_dom[1]):
            raise IllTyped("int out of range")
        return ins, target_dom
    if k == "slice":
        _, new, start, stop, step, size = val
        _merge(ins, new, ("b", len(range(start, stop, step))))
        return ins, ("b", size)
    if k == "idx":
        for n, _, d in val[1]:
            _merge(ins, n, ("b", d))
        return ins, target_dom
    if k == "var":
        _merge(ins, val[1], target_dom)
        return ins, target_dom
    if k == "matvec":
        _, y, yshape, aid, binputs = val
        xshape, yshape = tuple(target_dom[1]), tuple(yshape)
        if target_dom[0] != "r" or len(yshape) != max(len(xshape), 1) or yshape[1:] != xshape[1:]:
            raise IllTyped("matvec: x of shape %s cannot be A @ y with y of shape %s" % (xshape, yshape))
        for n, _, d in binputs:
            _merge(ins, n, ("b", d))
        _merge(ins, y, ("r", yshape))
        return ins, target_dom
    if k == "getitem":
        _, y, yshape, index = val
        _merge(ins, y, ("r", tuple(yshape)))
        return ins, ("r", tuple(yshape)[1:])
    if k == "sum2":
        _merge(ins, val[1], target_dom)
        _merge(ins, val[2], target_dom)
        return ins, target_dom
    if k == "scale":
        _merge(ins, val[1], target_dom)
        return ins, target_dom
    raise IllTyped("unknown value %r" % (k,))


def ty(e):
    """Ordered dict name -> ("b", size) | ("r", shape) of the free inputs of ``e`` (order is not semantic)."""
    tag = e[0]
    out = OrderedDict()
    if tag in ("G", "C"):
        for n, k, d in e[2]:
            _merge(out, n, (k, d))
        return out
    if tag == "T":
        for n, k, d in e[2]:
            _merge(out, n, (k, d))
        return out
    if tag == "N":
        return out
    if tag == "lin":
        for n, shape, _ in e[1]:
            _merge(out, n, ("r", tuple(shape)))
        return out
    if tag == "add":
        for sub in (e[1], e[2]):
            for n, d in ty(sub).items():
                _merge(out, n, d)
        return out
    if tag in ("subs", "osubs"):
        inner = ty(e[1])
        keys = [n for n, _ in e[2]]
        if len(set(keys)) != len(keys):
            raise IllTyped("duplicate key")
        subs = dict(e[2])
        for n, d in inner.items():
            if n not in subs:
                _merge(out, n, d)
        for n, val in e[2]:
            if n not in inner:
                continue  # ignored key
            ins, dom = value_type(val, inner[n])
            if dom != inner[n]:
                raise IllTyped("value domain %s for input %s of domain %s" % (dom, n, inner[n]))
            for m, d in ins.items():
                _merge(out, m, d)
        return out
    if tag == "align":
        inner = ty(e[1])
        if any(n not in inner for n in e[2]):
            raise IllTyped("align to unknown name")
        return inner
    if tag == "compress":
        return ty(e[1])
    if tag == "cat":
        _, name, part_name, parts = e
        total = 0
        for p in parts:
            t = ty(p)
            if part_name not in t or t[part_name][0] != "b":
                raise IllTyped("part lacks part_name")
            if name != part_name and name in t:
                raise IllTyped("name clashes")
            total += t[part_name][1]
            for n, d in t.items():
                if n != part_name:
                    _merge(out, n, d)
        _merge(out, name, ("b", total))
        return out
    raise IllTyped("unknown tag %r" % (tag,))


# ---------------------------------------------------------------------------
# evaluation at a point (function composition)


def value_at(val, env, target_dom, seed):
    """Value of a substituted term at the points of ``env`` (real entries carry a leading axis of points)."""
    k = val[0]
    if k == "rt":
        data = _cached(("rt", val[1], val[2], tuple(val[3]), seed), lambda: tensor_data(val[1], val[2], val[3], seed))
        return data[tuple(int(env[n]) for n, _, _ in val[2])][None]  # the same value at every point
    if k == "int":
        return val[1]
    if k == "slice":
        _, new, start, stop, step, size = val
        return start + step * int(env[new])
    if k == "idx":
        return int(index_contents(val[1], val[2])[tuple(int(env[n]) for n, _, _ in val[1])])
    if k == "var":
        return env[val[1]]
    if k == "matvec":
        _, y, yshape, aid, binputs = val
        A, b = _cached(
            ("mv", aid, binputs, target_dom[1], tuple(yshape), seed),
            lambda: matvec_data(aid, binputs, target_dom[1], yshape, seed),
        )
        idx = tuple(int(env[n]) for n, _, _ in binputs)
        yv = np.asarray(env[y], float)
        return np.stack([A[idx] @ yp + b[idx] for yp in yv])  # point by point
    if k == "getitem":
        return np.asarray(env[val[1]], float)[:, val[3]]
    if k == "sum2":
        return np.asarray(env[val[1]], float) + np.asarray(env[val[2]], float)
    if k == "scale":
        return 2.0 * np.asarray(env[val[1]], float) - 1.0
    raise ValueError(k)


def ev(e, env, seed):
    """Values of ``e`` at the points of ``env`` (name -> int | array with a leading axis of points).

    Structural recursion; returns an array of one value per point, or a scalar if ``e`` does not depend on them."""
    tag = e[0]
    if tag in ("G", "C"):
        return leaf_dense(e, seed).value(env)
    if tag == "T":
        data = _cached(("T", e[1], e[2], seed), lambda: tensor_data(e[1], e[2], (), seed))
        return float(data[tuple(int(env[n]) for n, _, _ in e[2])])
    if tag == "N":
        return float(e[1])
    if tag == "lin":
        total = 0.0
        for n, shape, coef in e[1]:
            v = np.asarray(env[n], float)
            total = total + coef * v.reshape(v.shape[0], -1).sum(1)
        return total
    if tag == "add":
        return ev(e[1], env, seed) + ev(e[2], env, seed)
    if tag in ("subs", "osubs"):
        inner = ty(e[1])
        new = dict(env)
        for n, val in e[2]:
            if n in inner:
                new[n] = value_at(val, env, inner[n], seed)
        return ev(e[1], new, seed)
    if tag in ("align", "compress"):
        return ev(e[1], env, seed)
    if tag == "cat":
        _, name, part_name, parts = e
        k = int(env[name])
        for p in parts:
            size = ty(p)[part_name][1]
            if k < size:
                new = dict(env)
                if name != part_name:
                    new.pop(name, None)
                new[part_name] = k
                return ev(p, new, seed)
            k -= size
        raise IndexError("cat index out of range")
    raise ValueError(tag)


# ---------------------------------------------------------------------------
# the unisolvent lattice


def lattice(n, seed):
    """Points {0, h1 e_a, h1 e_a + h2 e_b (a <= b)} of R^n: 1 + n + n(n+1)/2 points.

    A polynomial of degree <= 2 in n variables that vanishes on them vanishes identically (along axis a the three
    abscissae 0, h1, h1+h2 fix the constant, linear and pure quadratic coefficients; h1 e_a + h2 e_b then fixes the
    mixed coefficient ab)."""
    h1, h2 = generic_fill(9001, (2,), seed)
    h1, h2 = 0.4 + 0.5 * h1, 0.3 + 0.4 * h2  # abscissae 0 < h1 < h1 + h2 along every axis
    pts = [np.zeros(n)]
    for a in range(n):
        p = np.zeros(n)
        p[a] = h1
        pts.append(p)
    for a in range(n):
        for b in range(a, n):
            p = np.zeros(n)
            p[a] += h1
            p[b] += h2
            pts.append(p)
    return np.array(pts).reshape(len(pts), n)


def split_points(pts, reals):
    """points x flat coordinates -> {name: array (points,) + shape of the input}."""
    pts = np.asarray(pts, float)
    out, o = {}, 0
    for n, shape in reals:
        k = numel(shape)
        out[n] = pts[:, o : o + k].reshape((pts.shape[0],) + tuple(shape))
        o += k
    return out


def generic_point(n, seed):
    """One point of R^n with pairwise distinct non-zero coordinates of both signs."""
    return 1.3 * centred(9100, (n,), seed) + 0.1
