"""Reference model for C11: brute-force semiring derivatives of sum-product expressions (plain numpy).

Expression trees (JSON-able lists/tuples).  ``lid`` names a leaf of the leaf table; the same lid may occur several times.

    ("leaf", lid)                                   the leaf itself
    ("ren", lid, old, new)                          leaf(old=new)               renaming
    ("mren", lid, [[old, new], ..])                 leaf(old1=new1, old2=new2, ..)  simultaneous renaming (e.g. a swap)
    ("slice", lid, var, new, start, stop, step)     leaf(var=Slice(new, start, stop, step, size(var)))
    ("index", lid, var, new, [v0, v1, ..])          leaf(var=IndexTensor[new]) with IndexTensor[q] = v_q (injective)
    ("cat", var, [occ, occ, ..])                    concatenation of leaf occurrences along var
    ("mul", [e, e, ..])                             semiring product (left fold)
    ("sum", e, [vars])                              semiring sum over variables e mentions
    ("prod", e, [vars])                             semiring PRODUCT over variables e mentions (a plate)

Leaf table: {lid: {"inputs": [[name, size], ..], "zeros": [flat cell indices holding the semiring zero]}}.

Everything is computed in the LINEAR domain, semiring (+, *), on arrays with named axes; the (logaddexp, add)
semiring is the same computation on exp(data) followed by log (log 0 = -inf).  The value of an expression is the joint
table multiplied out and folded as the expression says.  The derivative of the root with respect to one OCCURRENCE of
a leaf is obtained by the indicator formulation: the occurrence is replaced by the family of one-hot tables (one per
leaf cell; the cell index is carried as extra axes "@0", "@1"), every other occurrence keeps its data, and the
expression is evaluated keeping only the part that is linear in the replaced occurrence (for a product over a plate:
the instance at plate index p0 is replaced, the other instances keep their data, summed over p0; for a concatenation:
the other parts contribute nothing).  The root is multilinear in the occurrences, so this *is* d root / d leaf[cell].
The derivative with respect to a leaf is the sum over its occurrences.
"""
import itertools

import numpy as np

PHI = 0.6180339887498949
RHO = 0.7548776662466927


def generic_fill(leaf_id, shape, seed):
    """Same generic fill as fv.ref.lang.generic_fill (pairwise distinct, in [0.5, 2))."""
    n = int(np.prod(shape)) if shape else 1
    c = np.arange(n, dtype=np.float64)
    vals = 0.5 + 1.5 * np.mod(PHI * (131.0 * leaf_id + c + 1.0) + seed * RHO, 1.0)
    return vals.reshape(shape)


def leaf_data(lid, spec, seed):
    """Linear-domain data of a leaf (positive generic values, 0.0 in the listed cells)."""
    shape = tuple(int(s) for _, s in spec["inputs"])
    if spec.get("data") is not None:  # explicit contents (unit tests)
        arr = np.array(spec["data"], dtype=np.float64).reshape(shape)
    else:
        arr = generic_fill(100 + int(lid), shape, seed).copy()
    flat = arr.reshape(-1)
    for z in spec.get("zeros", ()):
        flat[int(z)] = 0.0
    return flat.reshape(shape)


# ---------------------------------------------------------------------------
# arrays with named axes


class NA:
    __slots__ = ("names", "arr")

    def __init__(self, names, arr):
        self.names = tuple(names)
        self.arr = np.asarray(arr, dtype=np.float64)
        assert self.arr.ndim == len(self.names), (self.names, self.arr.shape)
        assert len(set(self.names)) == len(self.names), self.names

    def size(self, name):
        return self.arr.shape[self.names.index(name)]


def union(*name_lists):
    out = []
    for ns in name_lists:
        for n in ns:
            if n not in out:
                out.append(n)
    return tuple(out)


def expand(x, names):
    """ndarray of x laid out along ``names`` (a superset of x.names), size-1 axes where x lacks a name."""
    present = [n for n in names if n in x.names]
    assert len(present) == len(x.names), (x.names, names)
    arr = x.arr.transpose([x.names.index(n) for n in present])
    shape, it = [], iter(arr.shape)
    for n in names:
        shape.append(next(it) if n in x.names else 1)
    return arr.reshape(shape)


def _check_sizes(x, y):
    for n in x.names:
        if n in y.names:
            assert x.size(n) == y.size(n), ("size clash", n, x.size(n), y.size(n))


def mul(x, y):
    _check_sizes(x, y)
    names = union(x.names, y.names)
    return NA(names, expand(x, names) * expand(y, names))


def add(x, y):
    _check_sizes(x, y)
    names = union(x.names, y.names)
    a, b = np.broadcast_arrays(expand(x, names), expand(y, names))
    return NA(names, a + b)


def sum_over(x, names):
    names = [n for n in names]
    for n in names:
        assert n in x.names, ("reduced variable not mentioned", n, x.names)
    axes = tuple(x.names.index(n) for n in names)
    keep = tuple(n for n in x.names if n not in names)
    return NA(keep, x.arr.sum(axis=axes) if axes else x.arr)


def prod_over(x, names):
    for n in names:
        assert n in x.names, ("plate variable not mentioned", n, x.names)
    axes = tuple(x.names.index(n) for n in names)
    keep = tuple(n for n in x.names if n not in names)
    return NA(keep, x.arr.prod(axis=axes) if axes else x.arr)


def take(x, name, new, positions):
    """x with axis ``name`` read at ``positions`` and called ``new``.

    If x already has an axis ``new`` (a renaming / index substitution onto one of the operand's own names) the result
    is the diagonal: result[.., new=q, ..] = x[.., name=positions[q], .., new=q, ..]."""
    positions = [int(q) for q in positions]
    ax = x.names.index(name)
    if new != name and new in x.names:
        ax2 = x.names.index(new)
        assert len(positions) == x.arr.shape[ax2], ("diagonal needs one position per cell of", new)
        arr = np.take(x.arr, np.asarray(positions, dtype=np.int64), axis=ax)
        diag = np.diagonal(arr, axis1=ax, axis2=ax2)  # the paired axis comes last
        names = [n for n in x.names if n != name]
        return NA(names, np.moveaxis(diag, -1, names.index(new)))
    arr = np.take(x.arr, np.asarray(positions, dtype=np.int64), axis=ax)
    names = tuple(new if n == name else n for n in x.names)
    return NA(names, arr)


def concat(parts, name):
    names = union(*[p.names for p in parts])
    assert name in names
    arrs = []
    for p in parts:
        assert name in p.names
        a = expand(p, names)
        shape = list(a.shape)
        for q, n in enumerate(names):
            if n != name and shape[q] == 1:
                for p2 in parts:
                    if n in p2.names:
                        shape[q] = p2.size(n)
        arrs.append(np.broadcast_to(a, shape))
    return NA(names, np.concatenate(arrs, axis=names.index(name)))


# ---------------------------------------------------------------------------
# occurrences

OCC_KINDS = ("leaf", "ren", "mren", "slice", "index")


def occurrences(e, path=()):
    """[(path, node)] of all leaf occurrences in pre-order; path identifies the occurrence."""
    k = e[0]
    if k in OCC_KINDS:
        return [(path, e)]
    if k == "cat":
        out = []
        for q, p in enumerate(e[2]):
            out += occurrences(p, path + (q,))
        return out
    if k == "mul":
        out = []
        for q, c in enumerate(e[1]):
            out += occurrences(c, path + (q,))
        return out
    if k in ("sum", "prod"):
        return occurrences(e[1], path + (0,))
    raise ValueError(k)


def occ_lid(node):
    return node[1]


def _access(node, x):
    """Apply the occurrence's access path to the leaf-shaped named array x (which may carry extra '@' axes)."""
    k = node[0]
    if k == "leaf":
        return x
    if k == "ren":
        _, _, old, new = node
        return take(x, old, new, range(x.size(old)))
    if k == "mren":
        m = dict((o, n) for o, n in node[2])
        assert all(o in x.names for o in m)
        return NA([m.get(n, n) for n in x.names], x.arr)  # simultaneous; NA asserts the new names are distinct
    if k == "slice":
        _, _, var, new, start, stop, step = node
        return take(x, var, new, range(start, stop, step))
    if k == "index":
        _, _, var, new, vals = node
        if new not in x.names:  # with a shared variable the pair (index value, shared cell) is injective anyway
            assert len(set(vals)) == len(vals), "index substitution must be injective"
        return take(x, var, new, list(vals))
    raise ValueError(k)


def occ_names(node, leaves):
    """Expression-level input names (with sizes) of an occurrence."""
    spec = leaves[str(occ_lid(node))] if str(occ_lid(node)) in leaves else leaves[occ_lid(node)]
    x = NA([n for n, _ in spec["inputs"]], np.zeros([s for _, s in spec["inputs"]]))
    y = _access(node, x)
    return [(n, y.size(n)) for n in y.names]


def _spec(leaves, lid):
    return leaves[str(lid)] if str(lid) in leaves else leaves[lid]


def _identity(spec):
    """delta(leaf cell == '@' cell): names = leaf names + ('@0', ..)."""
    shape = [int(s) for _, s in spec["inputs"]]
    names = [n for n, _ in spec["inputs"]]
    n = int(np.prod(shape)) if shape else 1
    eye = np.eye(n).reshape(shape + shape)
    return NA(names + ["@%d" % q for q in range(len(shape))], eye)


# ---------------------------------------------------------------------------
# evaluation: value and the part linear in one occurrence


def evaluate(e, leaves, seed, target=None, path=()):
    """(value, tangent): tangent is None (zero) unless the occurrence at path ``target`` lies below e."""
    k = e[0]
    if k in OCC_KINDS:
        spec = _spec(leaves, e[1])
        names = [n for n, _ in spec["inputs"]]
        val = _access(e, NA(names, leaf_data(e[1], spec, seed)))
        tan = _access(e, _identity(spec)) if path == target else None
        return val, tan
    if k == "cat":
        vals, tans = [], []
        for q, p in enumerate(e[2]):
            v, t = evaluate(p, leaves, seed, target, path + (q,))
            vals.append(v)
            tans.append(t)
        val = concat(vals, e[1])
        tan = None
        if any(t is not None for t in tans):
            parts = [NA(v.names, np.zeros_like(v.arr)) if t is None else t for v, t in zip(vals, tans)]
            tan = concat(parts, e[1])  # the '@' axes of the seeded part are broadcast over the zero parts
        return val, tan
    if k == "mul":
        val, tan = None, None
        for q, c in enumerate(e[1]):
            v, t = evaluate(c, leaves, seed, target, path + (q,))
            if val is None:
                val, tan = v, t
            else:
                new_tan = None
                if tan is not None:
                    new_tan = mul(tan, v)
                if t is not None:
                    other = mul(val, t)
                    new_tan = other if new_tan is None else add(new_tan, other)
                val, tan = mul(val, v), new_tan
        return val, tan
    if k == "sum":
        v, t = evaluate(e[1], leaves, seed, target, path + (0,))
        return sum_over(v, e[2]), (None if t is None else sum_over(t, e[2]))
    if k == "prod":
        v, t = evaluate(e[1], leaves, seed, target, path + (0,))
        val = prod_over(v, e[2])
        if t is None:
            return val, None
        # instance p0 replaced, the other instances keep their value; summed over p0
        names = union(v.names, t.names)
        varr = np.broadcast_to(expand(v, names), np.broadcast(expand(v, names), expand(t, names)).shape)
        tarr = np.broadcast_to(expand(t, names), varr.shape)
        axes = [names.index(n) for n in e[2]]
        sizes = [varr.shape[a] for a in axes]
        keep = tuple(n for n in names if n not in e[2])
        acc = None
        for p0 in itertools.product(*[range(s) for s in sizes]):
            term = None
            for p in itertools.product(*[range(s) for s in sizes]):
                idx = [slice(None)] * len(names)
                for a, pv in zip(axes, p):
                    idx[a] = pv
                factor = (tarr if p == p0 else varr)[tuple(idx)]
                term = factor if term is None else term * factor
            acc = term if acc is None else acc + term
        return val, NA(keep, acc)
    raise ValueError(k)


def free_names(e, leaves):
    """[(name, size)] of the free inputs of e, in first-mention order."""
    k = e[0]
    if k in OCC_KINDS:
        return occ_names(e, leaves)
    if k == "cat":
        sizes = {}
        order = []
        total = 0
        for p in e[2]:
            for n, s in free_names(p, leaves):
                if n == e[1]:
                    continue
                if n not in sizes:
                    sizes[n] = s
                    order.append(n)
            total += dict(free_names(p, leaves))[e[1]]
        return [(e[1], total)] + [(n, sizes[n]) for n in order]
    if k == "mul":
        out = []
        for c in e[1]:
            for n, s in free_names(c, leaves):
                if n not in [m for m, _ in out]:
                    out.append((n, s))
        return out
    if k in ("sum", "prod"):
        return [(n, s) for n, s in free_names(e[1], leaves) if n not in e[2]]
    raise ValueError(k)


def forward(e, leaves, seed):
    """NA: the root table (linear domain)."""
    return evaluate(e, leaves, seed)[0]


def derivative(e, leaves, seed, lid):
    """NA over (root free names) + ('@0', ..): d root / d leaf[cell], summed over the occurrences of the leaf."""
    total = None
    for path, node in occurrences(e):
        if str(occ_lid(node)) != str(lid):
            continue
        root, tan = evaluate(e, leaves, seed, target=path)
        assert tan is not None
        total = tan if total is None else add(total, tan)
    return total


def expected_adjoint(e, leaves, seed, lid, convention):
    """Expected adjoint table of a leaf.

    convention "root-free-kept": the leaf's cell pins the root inputs it shares a name with; every other free input
        of the root stays an input of the adjoint -> names = (root free names not in the leaf) + leaf names.
    convention "total": summed over every free input of the root (the derivative of the total of the root) ->
        names = leaf names.
    """
    spec = _spec(leaves, lid)
    lnames = [n for n, _ in spec["inputs"]]
    d = derivative(e, leaves, seed, lid)
    free = [n for n in d.names if not n.startswith("@")]
    if convention == "total":
        drop = free
    else:
        drop = [n for n in free if n in lnames]
    d = sum_over(d, drop)
    names = tuple(lnames[int(n[1:])] if n.startswith("@") else n for n in d.names)
    return NA(names, d.arr)


def to_domain(x, semiring):
    """Linear-domain table -> the semiring's carrier (log for logaddexp/add)."""
    if semiring == "log":
        with np.errstate(divide="ignore"):
            return NA(x.names, np.log(x.arr))
    return x
