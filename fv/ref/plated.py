"""Reference semantics of plated factor graphs (C09): brute-force unrolling, in plain Python/numpy.

No funsor import.  A *named table* is ``(names, arr)`` with ``arr.ndim == len(names)``; a factor graph is a list of
named tables.  A request is ``(elim_vars, elim_plates)``; every other name occurring in a factor is *kept* and is a
batch index of the answer (the answer is computed separately for each value of the kept names).

Semantics (``unroll``):
  * the plates of an eliminated variable x are  o(x) = intersection over the factors f mentioning x of
    (names(f) & elim_plates);
  * x is replicated once per index tuple of o(x);
  * every factor is instantiated once per index tuple of its eliminated plates, instance (f, idx) reading the copy
    ``x[idx restricted to o(x)]`` of each eliminated variable it mentions;
  * answer = SUM over all copies of PROD over all instances.

Three implementations of the same definition are kept on purpose:
  ``unroll_python``  itertools.product over every assignment of every copy (the definition, literally);
  ``unroll``         the same joint table held as ndarrays with one axis per copy, one array per independent
                     component of the unrolled graph (fast; used by the check);
  ``unroll_nested``  top-down recursion over the plate nesting (needed for plate scales, which are not a property of
                     the flat joint table: the scale is an exponent of a plate's product,
                     value = (PROD_plate inner)^scale); raises ``Intractable`` when the graph is not a nesting.
The unit tests require all three to agree where all are defined.
"""
import itertools

import numpy as np


class Intractable(Exception):
    """The graph has no nested-plate reading (``unroll_nested`` only)."""


def _logaddexp_reduce(arr, axis):
    return np.logaddexp.reduce(arr, axis=axis)


SEMIRINGS = {
    # name: (sum2, prod2, pow, sum-reduce over axes, unit of prod, zero of sum)
    "add-mul": (np.add, np.multiply, np.power, lambda a, ax: np.add.reduce(a, axis=ax), 1.0, 0.0),
    "logaddexp-add": (np.logaddexp, np.add, np.multiply, _logaddexp_reduce, 0.0, -np.inf),
    "max-add": (np.maximum, np.add, np.multiply, lambda a, ax: np.maximum.reduce(a, axis=ax), 0.0, -np.inf),
}
SEMIRING_NAMES = ("add-mul", "logaddexp-add", "max-add")


def ordinals(factor_names, elim_vars, elim_plates):
    """{x: frozenset of eliminated plates x lives in} for every eliminated variable that occurs in a factor."""
    o = {}
    for names in factor_names:
        ps = frozenset(n for n in names if n in elim_plates)
        for n in names:
            if n in elim_vars:
                o[n] = (o[n] & ps) if n in o else ps
    return o


def kept_names(factor_names, elim_vars, elim_plates):
    out = []
    for names in factor_names:
        for n in names:
            if n not in elim_vars and n not in elim_plates and n not in out:
                out.append(n)
    return tuple(sorted(out))


# ---------------------------------------------------------------------------
# 1. the definition, literally


def unroll_python(factors, sizes, elim_vars, elim_plates, semiring):
    """Returns (kept names sorted, ndarray over them).  Pure-Python loops; tiny graphs only."""
    sum2, prod2, _pow, _red, unit, zero = SEMIRINGS[semiring]
    fnames = [tuple(n) for n, _ in factors]
    o = ordinals(fnames, elim_vars, elim_plates)
    kept = kept_names(fnames, elim_vars, elim_plates)
    # copies
    copies = []
    for x in sorted(o):
        ps = sorted(o[x])
        for idx in itertools.product(*[range(sizes[p]) for p in ps]):
            copies.append((x, tuple(zip(ps, idx))))
    # instances
    instances = []
    for names, arr in factors:
        ps = [n for n in names if n in elim_plates]
        for idx in itertools.product(*[range(sizes[p]) for p in ps]):
            instances.append((names, arr, dict(zip(ps, idx))))
    out = np.empty(tuple(sizes[k] for k in kept), dtype=np.float64)
    for kidx in itertools.product(*[range(sizes[k]) for k in kept]):
        kenv = dict(zip(kept, kidx))
        total = zero
        for vals in itertools.product(*[range(sizes[x]) for x, _ in copies]):
            env = dict(zip(copies, vals))
            p = unit
            for names, arr, penv in instances:
                cell = []
                for n in names:
                    if n in penv:
                        cell.append(penv[n])
                    elif n in kenv:
                        cell.append(kenv[n])
                    else:
                        key = (n, tuple((q, penv[q]) for q in sorted(o[n])))
                        cell.append(env[key])
                p = prod2(p, arr[tuple(cell)])
            total = sum2(total, p)
        out[kidx] = total
    return kept, out


# ---------------------------------------------------------------------------
# 2. the same joint table as one ndarray


class TooBig(Exception):
    """The unrolled joint table of one independent component would not fit (``unroll`` only)."""


MAX_AXES = 22


def unroll(factors, sizes, elim_vars, elim_plates, semiring, max_axes=MAX_AXES):
    """Returns (kept names sorted, ndarray over them).

    The unrolled graph (nodes = variable copies, hyper-edges = factor instances) is split into its connected
    components; each component's joint table is built in full (one axis per copy, plus the kept names) and summed
    over its copies; the component values are multiplied.  Raises TooBig if a component needs > max_axes axes."""
    _sum2, prod2, _pow, red, unit, _zero = SEMIRINGS[semiring]
    fnames = [tuple(n) for n, _ in factors]
    o = ordinals(fnames, elim_vars, elim_plates)
    kept = kept_names(fnames, elim_vars, elim_plates)
    nk = len(kept)
    kshape = tuple(sizes[k] for k in kept)
    # instances: (array, [axis key per remaining dim]) ; copy keys are (x, ((plate, idx), ...))
    instances = []
    parent = {}

    def find(a):
        while parent[a] != a:
            parent[a] = parent[parent[a]]
            a = parent[a]
        return a

    for names, arr in factors:
        arr = np.asarray(arr, dtype=np.float64)
        ps = [n for n in names if n in elim_plates]
        for idx in itertools.product(*[range(sizes[p]) for p in ps]):
            penv = dict(zip(ps, idx))
            index = tuple(penv[n] if n in penv else slice(None) for n in names)
            keys = []
            for n in names:
                if n in penv:
                    continue
                if n in o:
                    keys.append((n, tuple((q, penv[q]) for q in sorted(o[n]))))
                else:
                    keys.append(("kept", n))
            copies = [k for k in keys if k[0] != "kept"]
            for c in copies:
                parent.setdefault(c, c)
            for c in copies[1:]:
                ra, rb = find(copies[0]), find(c)
                if ra != rb:
                    parent[rb] = ra
            instances.append((arr[index], keys, copies[0] if copies else None))
    groups = {}
    for inst in instances:
        root = find(inst[2]) if inst[2] is not None else None
        groups.setdefault(root, []).append(inst)
    members = {}
    for c in parent:
        members.setdefault(find(c), []).append(c)
    total = np.full(kshape, unit, dtype=np.float64)
    for root in sorted(groups, key=lambda r: (r is not None, r)):
        copies = sorted(members[root]) if root is not None else []
        if nk + len(copies) > max_axes:
            raise TooBig()
        axis_of = {("kept", k): t for t, k in enumerate(kept)}
        shape = list(kshape)
        for c in copies:
            axis_of[c] = len(shape)
            shape.append(sizes[c[0]])
        nd = len(shape)
        joint = np.full(tuple(shape), unit, dtype=np.float64)
        for inst, keys, _ in groups[root]:
            axes = [axis_of[k] for k in keys]
            order = sorted(range(len(axes)), key=lambda t: axes[t])
            inst = np.transpose(inst, order) if order else inst
            view_shape = [1] * nd
            for t in order:
                view_shape[axes[t]] = shape[axes[t]]
            joint = prod2(joint, inst.reshape(view_shape))
        if nd > nk:
            joint = red(joint, tuple(range(nk, nd)))
        total = prod2(total, joint)
    return kept, np.asarray(total, dtype=np.float64)


# ---------------------------------------------------------------------------
# 3. top-down recursion over the plate nesting, with plate scales


def _components(factors, var_names):
    """Connected components of factors linked by shared names in var_names."""
    comps = []
    todo = list(range(len(factors)))
    while todo:
        seed = todo.pop(0)
        comp = [seed]
        names = set(n for n in factors[seed][0] if n in var_names)
        changed = True
        while changed:
            changed = False
            for t in list(todo):
                if names & set(factors[t][0]):
                    todo.remove(t)
                    comp.append(t)
                    names |= set(n for n in factors[t][0] if n in var_names)
                    changed = True
        comps.append(([factors[t] for t in sorted(comp)], names))
    return comps


def _slice(factor, env):
    names, arr = factor
    index = tuple(env[n] if n in env else slice(None) for n in names)
    return tuple(n for n in names if n not in env), np.asarray(arr)[index]


def _nested(factors, o, sizes, sr, scales):
    sum2, prod2, pw, _red, unit, zero = sr
    glob = sorted(x for x in o if not o[x])
    if glob:
        total = zero
        rest = {x: ps for x, ps in o.items() if ps}
        for vals in itertools.product(*[range(sizes[x]) for x in glob]):
            env = dict(zip(glob, vals))
            total = sum2(total, _nested([_slice(f, env) for f in factors], rest, sizes, sr, scales))
        return total
    value = unit
    for comp, cvars in _components(factors, set(o)):
        if not cvars:
            (names, arr), = comp
            v = unit
            for cell in np.asarray(arr, dtype=np.float64).reshape(-1):
                v = prod2(v, cell)
            for p in names:
                if p in scales:
                    v = pw(v, scales[p])
            value = prod2(value, v)
            continue
        common = None
        for x in cvars:
            common = o[x] if common is None else (common & o[x])
        if not common:
            raise Intractable()
        ps = sorted(common)
        sub_o = {x: o[x] - common for x in cvars}
        v = unit
        for idx in itertools.product(*[range(sizes[p]) for p in ps]):
            env = dict(zip(ps, idx))
            v = prod2(v, _nested([_slice(f, env) for f in comp], sub_o, sizes, sr, scales))
        for p in ps:
            if p in scales:
                v = pw(v, scales[p])
        value = prod2(value, v)
    return value


def unroll_nested(factors, sizes, elim_vars, elim_plates, semiring, scales=None):
    """Returns (kept names sorted, ndarray over them) or raises Intractable.

    ``scales`` maps eliminated plates to exponents: the product over plate p of everything inside it is raised to
    ``scales[p]`` (``pow`` for (add,mul); multiplication for the log-space semirings)."""
    sr = SEMIRINGS[semiring]
    scales = dict(scales or {})
    fnames = [tuple(n) for n, _ in factors]
    o = ordinals(fnames, elim_vars, elim_plates)
    kept = kept_names(fnames, elim_vars, elim_plates)
    out = np.empty(tuple(sizes[k] for k in kept), dtype=np.float64)
    for kidx in itertools.product(*[range(sizes[k]) for k in kept]):
        env = dict(zip(kept, kidx))
        out[kidx] = _nested([_slice(f, env) for f in factors], dict(o), sizes, sr, scales)
    return kept, out


def _tract(fnames, o):
    o = {x: ps for x, ps in o.items() if ps}
    for comp, cvars in _components([(n, None) for n in fnames], set(o)):
        if not cvars:
            continue
        common = None
        for x in cvars:
            common = o[x] if common is None else (common & o[x])
        if not common:
            return False
        if not _tract([tuple(c for c in n if c not in common) for n, _ in comp], {x: o[x] - common for x in cvars}):
            return False
    return True


def tractable(factor_names, elim_vars, elim_plates):
    """Structure-only version of ``unroll_nested``'s success: the request has a nested-plate reading."""
    fnames = [tuple(n) for n in factor_names]
    return _tract(fnames, ordinals(fnames, elim_vars, elim_plates))


# ---------------------------------------------------------------------------
# request validity (structural facts about a request, used to decide what may be demanded)


def pedantic_invalid(factor_names, eliminate, plates):
    """A preserved non-plate name lives in an eliminated plate (every factor mentioning it has that plate)."""
    live = {}
    for names in factor_names:
        ps = frozenset(n for n in names if n in plates)
        for n in names:
            if n not in plates and n not in eliminate:
                live[n] = (live[n] & ps) if n in live else ps
    return any(ps & frozenset(eliminate) for ps in live.values())


def _all_or_none(factor_names, x, p):
    has = [p in names for names in factor_names if x in names]
    return all(has) or not any(has)


def batch_consistent(factor_names, elim_vars, later_plates):
    """Every eliminated variable is either inside or entirely outside each plate that is still to be eliminated
    (or merely declared): then summing it now, with that plate as a batch index, is the unrolled semantics."""
    return all(_all_or_none(factor_names, x, p) for x in elim_vars for p in later_plates)


def split_valid(factor_names, e1, e2, plates):
    """Eliminating e1 first and e2 afterwards is the same unrolled value as eliminating e1|e2 at once.

    (i)  a variable summed in the first call sees each plate of the second call in all or in none of its factors;
    (ii) a plate multiplied out in the first call contains no variable of the second call."""
    e1 = frozenset(e1)
    e2 = frozenset(e2)
    ev = (e1 | e2) - frozenset(plates)
    ep = (e1 | e2) & frozenset(plates)
    o = ordinals(factor_names, ev, ep)
    if not batch_consistent(factor_names, [x for x in e1 if x in ev], [p for p in e2 if p in ep]):
        return False
    for x in e2:
        if x in o and (o[x] & e1):
            return False
    return True


def combine(tables, semiring, sizes):
    """PROD of a list of named tables -> (sorted names, ndarray)."""
    prod2, unit = SEMIRINGS[semiring][1], SEMIRINGS[semiring][4]
    names = tuple(sorted({n for ns, _ in tables for n in ns}))
    out = np.full(tuple(sizes[n] for n in names), unit, dtype=np.float64)
    for ns, arr in tables:
        arr = np.asarray(arr, dtype=np.float64)
        order = sorted(range(len(ns)), key=lambda t: names.index(ns[t]))
        arr = np.transpose(arr, order) if order else arr
        shape = [1] * len(names)
        for t in order:
            shape[names.index(ns[t])] = sizes[ns[t]]
        out = prod2(out, arr.reshape(shape))
    return names, out
