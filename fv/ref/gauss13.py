"""Dense closed-form reference for C13 (Gaussian marginals, normalisers, integrals).  Plain numpy, no funsor.

A funsor ``Gaussian(white_vec, prec_sqrt, inputs)`` denotes, for the row vector x of all its real inputs
flattened and concatenated in ``.inputs`` order,

    f(x) = -1/2 || x @ prec_sqrt - white_vec ||^2  =  -1/2 x' P x + x' eta + c
    P = prec_sqrt prec_sqrt',   eta = prec_sqrt white_vec,   c = -1/2 |white_vec|^2

(no normalising constant; confirmed from funsor/gaussian.py ``_eager_subs_real``).  Everything below works on the
dense triple (P, eta, c) with arbitrary leading batch dimensions: P[..., n, n], eta[..., n], c[...].
"""
import itertools
import math

import numpy as np

LOG_2PI = math.log(2.0 * math.pi)


# ---------------------------------------------------------------------------
# dense form


def dense_from_sqrt(white_vec, prec_sqrt):
    white_vec = np.asarray(white_vec, dtype=np.float64)
    prec_sqrt = np.asarray(prec_sqrt, dtype=np.float64)
    P = np.einsum("...ir,...jr->...ij", prec_sqrt, prec_sqrt)
    eta = np.einsum("...ir,...r->...i", prec_sqrt, white_vec)
    c = -0.5 * np.einsum("...r,...r->...", white_vec, white_vec)
    return P, eta, c


def evaluate(P, eta, c, x):
    """Value of the quadratic at point x[..., n] (x broadcasts against the batch)."""
    x = np.asarray(x, dtype=np.float64)
    quad = np.einsum("...i,...ij,...j->...", x, P, x)
    lin = np.einsum("...i,...i->...", x, eta)
    return -0.5 * quad + lin + c


def _take(M, rows, cols):
    return M[..., np.asarray(rows, dtype=int)[:, None], np.asarray(cols, dtype=int)[None, :]]


def block_cond(P, idx):
    """Worst 2-norm condition number over the batch of the principal block P[idx, idx]."""
    idx = list(idx)
    if not idx:
        return 1.0
    B = _take(P, idx, idx)
    with np.errstate(all="ignore"):
        w = np.linalg.eigvalsh(B)
    lo = w[..., 0]
    hi = w[..., -1]
    if np.any(lo <= 0) or not np.all(np.isfinite(w)):
        return float("inf")
    return float(np.max(hi / lo))


def marginalize(P, eta, c, red):
    """log of the integral of exp(f) over the coordinates ``red``; a quadratic in the kept coordinates.

    Returns (P', eta', c') indexed by the kept coordinates in increasing order (zero-sized when nothing is kept):
        P'   = P_aa - P_ab P_bb^-1 P_ba
        eta' = eta_a - P_ab P_bb^-1 eta_b
        c'   = c + 1/2 eta_b' P_bb^-1 eta_b + 1/2 (n_b log 2pi - logdet P_bb)
    """
    n = P.shape[-1]
    red = sorted(red)
    keep = [i for i in range(n) if i not in red]
    if not red:
        return P, eta, c
    Pbb = _take(P, red, red)
    Pab = _take(P, keep, red)
    eb = eta[..., red]
    sol_e = np.linalg.solve(Pbb, eb[..., None])[..., 0]  # P_bb^-1 eta_b
    sign, logdet = np.linalg.slogdet(Pbb)
    c2 = c + 0.5 * np.einsum("...i,...i->...", eb, sol_e) + 0.5 * (len(red) * LOG_2PI - logdet)
    c2 = np.where(sign > 0, c2, np.nan)
    if keep:
        sol_P = np.linalg.solve(Pbb, np.swapaxes(Pab, -1, -2))  # P_bb^-1 P_ba
        P2 = _take(P, keep, keep) - Pab @ sol_P
        eta2 = eta[..., keep] - np.einsum("...ab,...b->...a", Pab, sol_e)
    else:
        P2 = np.zeros(P.shape[:-2] + (0, 0))
        eta2 = np.zeros(eta.shape[:-1] + (0,))
    return P2, eta2, c2


def log_normalizer(P, eta, c):
    return marginalize(P, eta, c, range(P.shape[-1]))[2]


def mean_cov(P, eta):
    cov = np.linalg.inv(P)
    mean = np.einsum("...ij,...j->...i", cov, eta)
    return mean, cov


def condition(P, eta, c, fixed, values):
    """Substitute values[..., k] for the coordinates ``fixed``: a quadratic in the remaining coordinates."""
    n = P.shape[-1]
    fixed = list(fixed)
    keep = [i for i in range(n) if i not in fixed]
    v = np.asarray(values, dtype=np.float64)
    Pkk = _take(P, keep, keep) if keep else np.zeros(P.shape[:-2] + (0, 0))
    Pkf = _take(P, keep, fixed) if keep else np.zeros(P.shape[:-2] + (0, len(fixed)))
    Pff = _take(P, fixed, fixed)
    eta2 = eta[..., keep] - np.einsum("...kf,...f->...k", Pkf, v)
    c2 = c + np.einsum("...f,...f->...", eta[..., fixed], v) - 0.5 * np.einsum("...f,...fg,...g->...", v, Pff, v)
    return Pkk, eta2, c2


def plate_sum(P, eta, c, axes):
    """Sum of the quadratics over the batch axes ``axes`` (plate fusion)."""
    axes = tuple(axes)
    return P.sum(axis=axes), eta.sum(axis=axes), c.sum(axis=axes)


def logsumexp(a, axes):
    a = np.asarray(a, dtype=np.float64)
    axes = tuple(axes)
    if not axes:
        return a
    m = np.max(a, axis=axes, keepdims=True)
    m0 = np.where(np.isfinite(m), m, 0.0)
    with np.errstate(divide="ignore"):
        r = np.log(np.sum(np.exp(a - m0), axis=axes, keepdims=True)) + m0
    return np.squeeze(r, axis=axes)


# ---------------------------------------------------------------------------
# integrals against the measure exp(f)


def integrate_variable(P, eta, c):
    """integral of x exp(f(x)) dx = mass * mean, shape [..., n]."""
    mass = np.exp(log_normalizer(P, eta, c))
    mean, _ = mean_cov(P, eta)
    return mass[..., None] * mean


def integrate_quadratic(P, eta, c, A, b, k):
    """integral of (-1/2 x'Ax + b'x + k) exp(f(x)) dx = mass * (-1/2 (mu'A mu + tr(A Sigma)) + b'mu + k)."""
    mass = np.exp(log_normalizer(P, eta, c))
    mu, cov = mean_cov(P, eta)
    quad = np.einsum("...i,...ij,...j->...", mu, A, mu) + np.einsum("...ij,...ji->...", A, cov)
    return mass * (-0.5 * quad + np.einsum("...i,...i->...", b, mu) + k)


def embed(P, eta, idx, n):
    """Embed a quadratic over coordinates ``idx`` into n coordinates (zeros elsewhere)."""
    idx = np.asarray(list(idx), dtype=int)
    P2 = np.zeros(P.shape[:-2] + (n, n))
    e2 = np.zeros(eta.shape[:-1] + (n,))
    P2[..., idx[:, None], idx[None, :]] = P
    e2[..., idx] = eta
    return P2, e2


# ---------------------------------------------------------------------------
# mixtures: component axis/axes ``axes`` of the batch, log-weights ``logw`` broadcastable to the batch


def mixture_moments(P, eta, c, logw, axes):
    """Total mass, mean and covariance of sum_k exp(logw_k + f_k(x)) over the batch axes ``axes``.

    Returns (log_mass[...], mean[..., n], cov[..., n, n]) with the component axes removed."""
    axes = tuple(axes)
    logz = log_normalizer(P, eta, c) + logw  # log mass of each component
    log_mass = logsumexp(logz, axes)
    with np.errstate(invalid="ignore"):
        pi = np.exp(logz - np.expand_dims(log_mass, axes))
    mu, cov = mean_cov(P, eta)
    mean = np.sum(pi[..., None] * mu, axis=axes)
    second = cov + mu[..., :, None] * mu[..., None, :]  # E_k[x x']
    second = np.sum(pi[..., None, None] * second, axis=axes)
    return log_mass, mean, second - mean[..., :, None] * mean[..., None, :]


# ---------------------------------------------------------------------------
# the unisolvent lattice and quadratic interpolation on it


def lattice(n, steps):
    """Points {0, h_a e_a, h_a e_a + h_b e_b (a <= b)}: 1 + n + n(n+1)/2 points that determine a quadratic in n
    variables.  steps: n positive step sizes."""
    steps = np.asarray(steps, dtype=np.float64)
    pts = [np.zeros(n)]
    for a in range(n):
        p = np.zeros(n)
        p[a] = steps[a]
        pts.append(p)
    for a, b in itertools.combinations_with_replacement(range(n), 2):
        p = np.zeros(n)
        p[a] += steps[a]
        p[b] += steps[b]
        pts.append(p)
    return pts


def fit_quadratic(points, values):
    """Interpolate f(x) = -1/2 x'Px + x'eta + c through the lattice.  values[k, ...] at points[k]; returns batched
    (P, eta, c)."""
    pts = np.asarray(points, dtype=np.float64)
    vals = np.asarray(values, dtype=np.float64)
    m, n = pts.shape
    pairs = list(itertools.combinations_with_replacement(range(n), 2))
    assert m == 1 + n + len(pairs)
    cols = [np.ones(m)]
    cols += [pts[:, a] for a in range(n)]
    for a, b in pairs:
        cols.append(-0.5 * pts[:, a] * pts[:, b] * (1.0 if a == b else 2.0))
    V = np.stack(cols, axis=1)
    flat = vals.reshape(m, -1)
    coef = np.linalg.solve(V, flat)  # (m, B)
    batch = vals.shape[1:]
    c = coef[0].reshape(batch)
    eta = np.moveaxis(coef[1 : 1 + n], 0, -1).reshape(batch + (n,))
    P = np.zeros(batch + (n, n))
    for k, (a, b) in enumerate(pairs):
        P[..., a, b] = coef[1 + n + k].reshape(batch)
        P[..., b, a] = coef[1 + n + k].reshape(batch)
    return P, eta, c


def close(a, b, rtol=1e-6, atol=1e-8):
    a = np.asarray(a, dtype=np.float64)
    b = np.asarray(b, dtype=np.float64)
    if a.shape != b.shape:
        return False
    if np.any(np.isnan(a)):
        return False
    inf = np.isinf(b)
    if np.any(inf) and not np.all(a[inf] == b[inf]):
        return False
    fin = ~inf
    return bool(np.all(np.abs(a[fin] - b[fin]) <= atol + rtol * np.abs(b[fin])))
