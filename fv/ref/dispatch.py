"""Reference model for C16: a boring structural description of the parametric types funsor dispatches on, a
subtype relation and an instance-membership relation over those descriptions, and "the set of registered
signatures that match, ordered by specificity".

Nothing here calls funsor: type objects are *read* (``typing.get_origin/get_args`` of the standard library,
the ``__origin__/__args__/__mro__`` attributes of classes, ``variadic_type`` of multipledispatch's variadic
marker, ``_ast_values`` of funsor terms) and turned into plain tuples:

    ("any",)                    typing.Any / object  (object is normalised to Any by every funsor entry point)
    ("cls", C)                  a plain class
    ("union", (d, ...))         typing.Union
    ("tuple*",)                 bare tuple / typing.Tuple        (== Tuple[Any, ...])
    ("tuple", (d, ...))         typing.Tuple[d1, ..., dn]        n >= 1
    ("vtuple", d)               typing.Tuple[d, ...]
    ("fset*",)                  bare frozenset / typing.FrozenSet (== FrozenSet[Any])
    ("fset", d)                 typing.FrozenSet[d]
    ("gen", O, None | (d, ...)) a class made by a parametrising metaclass (funsor terms): origin O, parameters

``sub(a, b)`` is the textbook structural rule set (covariant parameters, union-left = all, union-right = any,
fixed tuples by arity, variadic tuples element-wise, an unparametrised generic is the top of its family).
It returns True/False, or None where the textbook has no opinion (documented at each place).
"""
import typing

ANY = ("any",)


class Unsupported(Exception):
    pass


def _is_param_meta(t):
    """Classes produced by a parametrising metaclass carry __args__ (tuple) and, when parametrised, __origin__."""
    return isinstance(t, type) and isinstance(getattr(t, "__args__", None), tuple) and hasattr(type(t), "__getitem__") and hasattr(t, "_type_cache")


def describe(t, top=True):
    """Type object -> description.  Raises Unsupported for constructs outside the documented domain."""
    if t is typing.Any:
        return ANY
    if t is object:
        return ANY
    if t is Ellipsis:
        raise Unsupported("ellipsis")
    if isinstance(t, type):
        if t is tuple:
            return ("tuple*",)
        if t is frozenset:
            return ("fset*",)
        if _is_param_meta(t):
            args = t.__args__
            if args:
                origin = t.__origin__
                return ("gen", origin, tuple(describe(a, False) for a in args))
            return ("gen", t, None)
        return ("cls", t)
    origin = typing.get_origin(t)
    args = typing.get_args(t)
    if origin is typing.Union:
        return ("union", tuple(describe(a, False) for a in args))
    if origin is tuple or t is typing.Tuple:
        if not args:
            return ("tuple*",)
        if args[-1] is Ellipsis:
            if len(args) != 2:
                raise Unsupported("variadic tuple with prefix")
            return ("vtuple", describe(args[0], False))
        return ("tuple", tuple(describe(a, False) for a in args))
    if origin is frozenset or t is typing.FrozenSet:
        if not args:
            return ("fset*",)
        return ("fset", describe(args[0], False))
    raise Unsupported(repr(t))


def _cname(c):
    return "%s.%s" % (getattr(c, "__module__", "?"), getattr(c, "__qualname__", getattr(c, "__name__", "?")))


def text(d):
    """Canonical, injective-enough text of a description (used for case keys; never repr of the type object)."""
    k = d[0]
    if k == "any":
        return "Any"
    if k == "cls":
        return _cname(d[1])
    if k == "union":
        return "Union[" + ", ".join(text(x) for x in d[1]) + "]"
    if k == "tuple*":
        return "tuple"
    if k == "tuple":
        return "Tuple[" + ", ".join(text(x) for x in d[1]) + "]"
    if k == "vtuple":
        return "Tuple[" + text(d[1]) + ", ...]"
    if k == "fset*":
        return "frozenset"
    if k == "fset":
        return "FrozenSet[" + text(d[1]) + "]"
    if k == "gen":
        name = _cname(d[1])
        if d[2] is None:
            return name
        return name + "[" + ", ".join(text(x) for x in d[2]) + "]"
    raise ValueError(d)


def _plain_issubclass(c, d):
    """issubclass for classes.  When the candidate superclass d belongs to a family made by a parametrising
    metaclass only the mro is read (so that the overridden __subclasscheck__ of the library under test is never
    consulted); when d is an ordinary class or ABC the builtin issubclass is the ground truth (it runs d's own
    check, e.g. the __subclasshook__ of collections.abc.Sized, never the library's)."""
    if _is_param_meta(d):
        return d in c.__mro__
    return issubclass(c, d)


def is_top(d):
    return d[0] == "any" or (d[0] == "union" and any(is_top(x) for x in d[1]))


def sub(a, b):
    """a <= b : True / False / None (no opinion)."""
    ka, kb = a[0], b[0]
    if ka == "union":
        rs = [sub(x, b) for x in a[1]]
        if any(r is False for r in rs):
            return False
        if any(r is None for r in rs):
            return None
        return True
    if ka == "any":
        # Any on the left is "unknown": only below a top.  Any <= Union[..., Any, ...]: no opinion.
        if kb == "any":
            return True
        return None if is_top(b) else False
    if kb == "any":
        return True
    if kb == "union":
        rs = [sub(a, x) for x in b[1]]
        if any(r is True for r in rs):
            return True
        if any(r is None for r in rs):
            return None
        return False
    if kb in ("tuple*", "tuple", "vtuple"):
        if ka == "cls":
            # a proper subclass of tuple (named tuples ...) against a parametrised Tuple: no opinion
            if _plain_issubclass(a[1], tuple):
                return True if kb == "tuple*" else None
            return False
        if ka not in ("tuple*", "tuple", "vtuple"):
            return False
        if kb == "tuple*":
            return True
        if ka == "tuple*":  # == Tuple[Any, ...]
            if kb == "vtuple":
                return True if b[1][0] == "any" else (None if is_top(b[1]) else False)
            return False
        if kb == "vtuple":
            if ka == "vtuple":
                return sub(a[1], b[1])
            return _all(sub(x, b[1]) for x in a[1])
        if ka == "vtuple":
            return False
        if len(a[1]) != len(b[1]):
            return False
        return _all(sub(x, y) for x, y in zip(a[1], b[1]))
    if kb in ("fset*", "fset"):
        if ka == "cls":
            if _plain_issubclass(a[1], frozenset):
                return True if kb == "fset*" else None
            return False
        if ka not in ("fset*", "fset"):
            return False
        if kb == "fset*":
            return True
        if ka == "fset*":  # == FrozenSet[Any]
            return True if b[1][0] == "any" else (None if is_top(b[1]) else False)
        return sub(a[1], b[1])
    if kb == "gen":
        if ka != "gen":
            return False
        if not _plain_issubclass(a[1], b[1]):
            return False
        if b[2] is None:
            return True
        if a[2] is None:
            return False
        if len(a[2]) != len(b[2]):
            return False
        return _all(sub(x, y) for x, y in zip(a[2], b[2]))
    if kb == "cls":
        if ka == "cls":
            return _plain_issubclass(a[1], b[1])
        if ka == "gen":
            return _plain_issubclass(a[1], b[1])
        if ka in ("tuple*", "tuple", "vtuple"):
            return _plain_issubclass(tuple, b[1])
        if ka in ("fset*", "fset"):
            return _plain_issubclass(frozenset, b[1])
    raise ValueError((a, b))


def _all(it):
    rs = list(it)
    if any(r is False for r in rs):
        return False
    if any(r is None for r in rs):
        return None
    return True


# ---------------------------------------------------------------------------
# instance membership, decided on the *value* (never through its recorded type parameters)


def ast_values(v):
    return getattr(v, "_ast_values", None)


def _origin_class(x):
    c = type(x)
    return getattr(c, "__origin__", c) if _is_param_meta(c) else c


def member(v, d, conservative=False):
    """v in [[d]] : True / False / None (no opinion).

    ``conservative=True`` is the reading in which a value is only known through a *recorded* precise type that
    cannot express everything: an empty tuple / frozenset is recorded as the bare container (a member of the bare
    and Any-parametrised forms only), and a frozenset whose elements have different classes is recorded with the
    common unparametrised origin class of its elements."""
    k = d[0]
    if k == "any":
        return True
    if k == "union":
        rs = [member(v, x, conservative) for x in d[1]]
        if any(r is True for r in rs):
            return True
        if any(r is None for r in rs):
            return None
        return False
    if k == "cls":
        return isinstance(v, d[1])
    if k == "tuple*":
        return isinstance(v, tuple)
    if k == "tuple":
        if not isinstance(v, tuple) or len(v) != len(d[1]):
            return False
        return _all(member(x, y, conservative) for x, y in zip(v, d[1]))
    if k == "vtuple":
        if not isinstance(v, tuple):
            return False
        if conservative and len(v) == 0:
            return d[1][0] == "any"
        return _all(member(x, d[1], conservative) for x in v)
    if k == "fset*":
        return isinstance(v, frozenset)
    if k == "fset":
        if not isinstance(v, frozenset):
            return False
        if conservative and len(v) == 0:
            return d[1][0] == "any"
        if conservative and len({type(x) for x in v}) > 1:
            origins = {_origin_class(x) for x in v}
            if len(origins) != 1:
                return None
            (o,) = origins
            return sub(describe(o), d[1])
        return _all(member(x, d[1], conservative) for x in sorted(v, key=id))
    if k == "gen":
        origin = d[1]
        if origin not in type(v).__mro__:
            return False
        if d[2] is None:
            return True
        vals = ast_values(v)
        if vals is None:
            return None
        if len(vals) != len(d[2]):
            return False
        return _all(member(x, y, conservative) for x, y in zip(vals, d[2]))
    raise ValueError(d)


# ---------------------------------------------------------------------------
# signatures: (fixed descriptions..., optional variadic tail = tuple of alternative descriptions)


def sig_matches(types, sig):
    """types: tuple of descriptions; sig: (fixed: tuple of descriptions, var: None | tuple of alternatives)."""
    fixed, var = sig
    if var is None:
        if len(types) != len(fixed):
            return False
    elif len(types) < len(fixed):
        return False
    for t, s in zip(types, fixed):
        if sub(t, s) is not True:
            return False
    for t in types[len(fixed):]:
        if not any(sub(t, alt) is True for alt in var):
            return False
    return True


def _sub_alts(a, alts):
    return any(sub(a, alt) is True for alt in alts)


def sig_leq(s1, s2):
    """Every argument tuple matched by s1 is matched by s2 (sufficient structural rule)."""
    f1, v1 = s1
    f2, v2 = s2
    if v2 is None:
        if v1 is not None or len(f1) != len(f2):
            return False
        return all(sub(a, b) is True for a, b in zip(f1, f2))
    if len(f1) < len(f2):
        return False
    for a, b in zip(f1, f2):
        if sub(a, b) is not True:
            return False
    for a in f1[len(f2):]:
        if not _sub_alts(a, v2):
            return False
    if v1 is not None:
        if not all(_sub_alts(a, v2) for a in v1):
            return False
    return True


def decide(types, sigs):
    """sigs: list of (sig, function-id).  Returns (matching indices, minimal indices).

    minimal = matching signatures with no other matching signature strictly below them."""
    matching = [i for i, (s, _) in enumerate(sigs) if sig_matches(types, s)]
    minimal = []
    for i in matching:
        si = sigs[i][0]
        dominated = False
        for j in matching:
            if j == i:
                continue
            sj = sigs[j][0]
            if sig_leq(sj, si) and not sig_leq(si, sj):
                dominated = True
                break
        if not dominated:
            minimal.append(i)
    return matching, minimal


# ---------------------------------------------------------------------------
# the precise type of a value, computed from the value alone


def typeof(v):
    """Description of the most precise type of v; None where there is no single answer (a frozenset whose elements
    have different precise types)."""
    if isinstance(v, tuple) and type(v) is tuple:
        if not v:
            return ("tuple*",)
        parts = [typeof(x) for x in v]
        if any(p is None for p in parts):
            return None
        return ("tuple", tuple(parts))
    if isinstance(v, frozenset) and type(v) is frozenset:
        if not v:
            return ("fset*",)
        parts = [typeof(x) for x in v]
        if any(p is None for p in parts) or any(p != parts[0] for p in parts):
            return None
        return ("fset", parts[0])
    vals = ast_values(v)
    if vals is not None and _is_param_meta(type(v)):
        parts = [typeof(x) for x in vals]
        if any(p is None for p in parts):
            return None
        return ("gen", _origin_class(v), tuple(parts))
    return ("cls", type(v))


def to_typing(d):
    """A typing / class object denoting description d, built with the standard library only."""
    k = d[0]
    if k == "any":
        return typing.Any
    if k == "cls":
        return d[1]
    if k == "union":
        return typing.Union[tuple(to_typing(x) for x in d[1])]
    if k == "tuple*":
        return tuple
    if k == "tuple":
        return typing.Tuple[tuple(to_typing(x) for x in d[1])]
    if k == "vtuple":
        return typing.Tuple[to_typing(d[1]), ...]
    if k == "fset*":
        return frozenset
    if k == "fset":
        return typing.FrozenSet[to_typing(d[1])]
    if k == "gen":
        return d[1] if d[2] is None else d[1][tuple(to_typing(x) for x in d[2])]
    raise ValueError(d)
