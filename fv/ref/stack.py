"""Reference model of funsor's interpretation stack (C17): a Python list of *descriptors*.  Imports nothing of funsor.

Descriptors
    "eager" | "lazy" | "reflect" | "normalize" | "sequential" | "moment_matching"    a library-defined total
                                                                                     interpretation (one object)
    ("memo", d)        a Memoize whose base_interpretation has descriptor d
    ("prio", leaves)   a PrioritizedInterpretation made by entering a partial interpretation; ``leaves`` is the
                       flattened priority chain, first = innermost
Leaves of a chain
    "A", "B"                         the two user-defined partial DispatchedInterpretations (A answers the sentinel
                                     probe with its sentinel, B's rule returns None)
    "C"                              a user-defined partial interpretation written as a plain function wrapped in
                                     CallableInterpretation (its own sentinel for the sentinel probe, None otherwise)
    ("tape", d)                      an AdjointTape whose saved outer interpretation has descriptor d
    ("memo", d)                      a Memoize layered under a partial interpretation
    "eager_base", "normalize_base", "lazy_base", "sequential_base", "moment_matching_base", "reflect"

The stack starts as ("reflect", "eager") and the two bottom entries are never popped.
"""

# what each library-defined total interpretation is made of (documented in funsor/interpretations.py)
TOTALS = {
    "eager": ("eager_base", "normalize_base", "reflect"),
    "lazy": ("lazy_base", "reflect"),
    "reflect": ("reflect",),
    "normalize": ("normalize_base", "reflect"),
    "sequential": ("sequential_base", "eager_base", "normalize_base", "reflect"),
    "moment_matching": ("moment_matching_base", "eager_base", "normalize_base", "reflect"),
}
_BY_LEAVES = {v: k for k, v in TOTALS.items()}
PARTIALS = ("A", "B", "C", "D")
LATE = "D"  # a DispatchedInterpretation created per history WITHOUT rules; the event ("reg",) registers its first rule
# (a sentinel rule for the probe class) at any moment: before entry, while it is active, after exit.  Registration
# never touches the stack: enter pushes exactly one frame, exit pops exactly that frame.
SYMBOLS = ("eager", "lazy", "reflect", "normalize", "sequential", "moment_matching", "memo", "A", "B", "C", "tape")
PERSISTENT_TAPE = "T0"  # one AdjointTape INSTANCE per history, re-entered sequentially (never while it is active)
ALL_SYMBOLS = SYMBOLS + (PERSISTENT_TAPE,)
BASE = ("reflect", "eager")
OVERFLOW = 10  # PrioritizedInterpretation refuses chains of this many leaves or more

# class of each probe term under each documented semantics (who finally answers)
#   tt  = Tensor + Tensor        red = Tensor.reduce(ops.add)       xy = Variable + Variable (stays symbolic)
_EXACT = {"tt": "Tensor", "red": "Tensor", "xy": "Contraction"}
_LAZY = {"tt": "Binary", "red": "Reduce", "xy": "Binary"}
CLASSES = {
    "eager": _EXACT,
    "sequential": _EXACT,
    "moment_matching": _EXACT,
    "lazy": _LAZY,
    "reflect": _LAZY,
    "normalize": {"tt": "Contraction", "red": "Contraction", "xy": "Contraction"},
}
PROBES = ("tt", "red", "xy", "sentinel")

_NAMES = {
    "eager_base": "eager",
    "normalize_base": "normalize",
    "lazy_base": "lazy",
    "sequential_base": "sequential",
    "moment_matching_base": "moment_matching",
    "reflect": "reflect",
    "A": "userA",
    "B": "userB",
    "C": "userC",
    "D": "userD",
}


def flat(d):
    """The flattened priority chain (``.subinterpretations``) of a stack entry."""
    if isinstance(d, str):
        return TOTALS[d]
    if d[0] == "memo":
        return (d,)
    if d[0] == "prio":
        return d[1]
    raise ValueError(d)


def sym_kind(sym):
    if sym in TOTALS:
        return "total"
    if sym in PARTIALS:
        return "partial"
    if sym == PERSISTENT_TAPE:
        return "tape"
    return sym  # "memo" | "tape"


def enter(stack, sym):
    """-> (new stack, "push" | "overflow")."""
    top = stack[-1]
    if sym in TOTALS:
        return stack + (sym,), "push"
    if sym == "memo":
        return stack + (("memo", top),), "push"
    leaf = sym if sym in PARTIALS else ("tape", top)
    leaves = (leaf,) + flat(top)
    if len(leaves) >= OVERFLOW:
        return stack, "overflow"
    return stack + (("prio", leaves),), "push"


def kind(d):
    """Which documented semantics finally answers an ordinary term under entry d."""
    if isinstance(d, str):
        return d
    if d[0] in ("memo", "tape"):
        return kind(d[1])
    leaves = d[1]
    i = 0
    while leaves[i] in PARTIALS:  # A and B have no rule for ordinary terms: fall through
        i += 1
    head = leaves[i]
    if not isinstance(head, str):
        return kind(head)  # a tape / memo always answers, using what it wraps
    return _BY_LEAVES[leaves[i:]]


def sentinel(d, reg=False):
    """"SENT" / "SENTC" if the sentinel rule of A / the function C answers the sentinel probe under entry d
    (whichever is innermost), else "ProbeTerm"."""
    if isinstance(d, str):
        return "ProbeTerm"
    if d[0] in ("memo", "tape"):
        return sentinel(d[1], reg)
    for leaf in d[1]:
        if leaf == "D" and reg:  # D answers only once its rule has been registered (checked at probe time)
            return "SENTD"
        if leaf == "A":
            return "SENT"
        if leaf == "C":
            return "SENTC"
        if not isinstance(leaf, str):
            return sentinel(leaf, reg)
    return "ProbeTerm"


# The part of CLASSES that the documentation of the interpretations fixes (eager evaluates tensors, lazy and reflect
# build the term); the remaining entries (symbolic operands, normalize) describe rewrite rules that are not C17's
# business: the harness may re-calibrate them under a single `with K:` block (see calibrated()).
CORE = tuple((k, p) for k in ("eager", "sequential", "moment_matching", "lazy", "reflect") for p in ("tt", "red"))
SUBST_RAISES = {k: k != "reflect" for k in TOTALS}  # reflect alone performs no substitution


def calibrated(observed):
    """CLASSES with the non-CORE entries replaced by what was observed under each total interpretation alone.
    -> (table, [CORE entries where the observation contradicts the documentation])."""
    table = {k: dict(v) for k, v in CLASSES.items()}
    bad = []
    for k, row in observed.items():
        for p, label in row.items():
            if (k, p) in CORE:
                if table[k][p] != label:
                    bad.append((k, p, table[k][p], label))
            else:
                table[k][p] = label
    return table, bad


def predict(d, classes=None, reg=False):
    """Expected labels of the four probe terms under entry d, in PROBES order."""
    c = (classes or CLASSES)[kind(d)]
    return (c["tt"], c["red"], c["xy"], sentinel(d, reg))


def subst_raises(d, table=None):
    """Is a substitution carried out (so the booby-trapped eager_subs raises) when Subs is built under d?"""
    return (table or SUBST_RAISES)[kind(d)]


def tapefwd_raises(d, table=None):
    """forward_backward enters a fresh AdjointTape over d and rebuilds the booby-trapped Subs."""
    return (table or SUBST_RAISES)[kind(d)] or len(flat(d)) + 1 >= OVERFLOW


def name(d):
    """repr() of the real interpretation object with descriptor d."""
    if isinstance(d, str):
        return "/".join(_NAMES[x] for x in TOTALS[d])
    if d[0] == "memo":
        return "Memoize(%s)" % name(d[1])
    if d[0] == "tape":
        return "adjoint"
    return "/".join(_NAMES[x] if isinstance(x, str) else name(x) for x in d[1])


class StackModel:
    """The boring reference: a list, push on enter, pop on leave."""

    def __init__(self):
        self.items = list(BASE)
        self.symbols = []

    @property
    def top(self):
        return self.items[-1]

    @property
    def depth(self):
        return len(self.items) - len(BASE)

    def enter(self, sym):
        new, how = enter(tuple(self.items), sym)
        if how == "push":
            self.items.append(new[-1])
            self.symbols.append(sym)
        return how

    def force_push(self, d, sym):
        self.items.append(d)
        self.symbols.append(sym)

    def leave(self, k=1):
        assert 1 <= k <= self.depth, "the base entries are never popped"
        del self.items[-k:]
        del self.symbols[-k:]

    def canon(self):
        return tuple(self.symbols)


def menu(depth, symbols, max_depth, internal_ks="all", on_stack=()):
    """Events enabled in a state with ``depth`` open user blocks (simplest first).  The persistent tape T0 can be
    entered only while it is not active; while it is active its place in the menu is taken by a fresh tape."""
    if PERSISTENT_TAPE in symbols and PERSISTENT_TAPE in on_stack:
        symbols = tuple("tape" if s == PERSISTENT_TAPE else s for s in symbols)
    ev = [("probe",)]
    if depth >= 1:
        ev.append(("exit",))
    if depth < max_depth:
        ev += [("with", s) for s in symbols]
        ev += [("deco", s) for s in symbols]
    ev += [("raise", k) for k in range(1, depth + 1)]
    ks = range(0, depth + 1) if internal_ks == "all" else [k for k in internal_ks if k <= depth]
    ev += [("subst", k) for k in ks]
    ev += [("tapefwd", k) for k in ks]
    return ev


def apply_event(stack, ev):
    """Pure successor function on descriptor stacks: -> (new stack, note)."""
    kind_ = ev[0]
    if kind_ in ("with", "deco"):
        return enter(stack, ev[1])
    if kind_ == "exit":
        assert len(stack) > len(BASE)
        return stack[:-1], "pop"
    if kind_ in ("raise", "subst", "tapefwd"):
        k = ev[1]
        assert len(stack) - k >= len(BASE)
        return (stack[: len(stack) - k] if k else stack), "pop%d" % k
    if kind_ in ("probe", "reg"):
        return stack, "same"
    raise ValueError(ev)
