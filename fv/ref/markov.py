"""Reference model for C10: semiring folds over time (numpy only, shares no code with funsor).

Semirings are named "<sum>_<prod>":  add_mul, logaddexp_add, max_add, min_add, max_mul (positive data).

``chain_fold``   T[0] (x) T[1] (x) ... folded strictly left to right as a semiring matrix-chain product; the
                 intermediate state (curr of the left operand = prev of the right operand) is semiring-summed.
``lagged_fold``  the same contract for time-lagged models: factor t mentions the variables at times t - lag;
                 the value of every variable at the times 0 .. T-2 is semiring-summed.
"""
import numpy as np

SEMIRINGS = ("add_mul", "logaddexp_add", "max_add", "min_add", "max_mul")


def s_zero(sr):
    """The annihilating / neutral-for-sum element of the semiring."""
    return {"add_mul": 0.0, "logaddexp_add": -np.inf, "max_add": -np.inf, "min_add": np.inf, "max_mul": 0.0}[sr]


def s_prod(sr, a, b):
    return a * b if sr.endswith("_mul") else a + b


def s_sum(sr, arr, axis):
    """Semiring sum of ``arr`` over ``axis`` (an int or a tuple of ints)."""
    arr = np.asarray(arr, dtype=np.float64)
    kind = sr.split("_")[0]
    if kind == "add":
        return arr.sum(axis)
    if kind == "max":
        return arr.max(axis)
    if kind == "min":
        return arr.min(axis)
    assert kind == "logaddexp"
    # stable log-sum-exp; an all -inf slice gives -inf
    m = arr.max(axis, keepdims=True)
    m0 = np.where(np.isfinite(m), m, 0.0)
    with np.errstate(divide="ignore"):
        return np.log(np.exp(arr - m0).sum(axis)) + np.squeeze(m0, axis)


def chain_fold(sr, Ts, npairs):
    """Ts: list of arrays of one common shape (B..., P..., C...) with ``npairs`` prev axes P and as many curr
    axes C of the same sizes.  Returns the array over (B..., P at the first time..., C at the last time...)."""
    shape = tuple(Ts[0].shape)
    nb = len(shape) - 2 * npairs
    assert nb >= 0 and shape[nb : nb + npairs] == shape[nb + npairs :], shape
    n = 1
    for s in shape[nb : nb + npairs]:
        n *= s
    mats = [np.asarray(T, dtype=np.float64).reshape(shape[:nb] + (n, n)) for T in Ts]
    acc = mats[0]
    for M in mats[1:]:
        # left operand first: acc[.., i, j] (x) M[.., j, k], semiring-summed over the shared state j
        acc = s_sum(sr, s_prod(sr, acc[..., :, :, None], M[..., None, :, :]), -2)
    return acc.reshape(shape)


# -- named-axis factors (for the lagged models) ---------------------------------------------------------------


def _expand(names, f):
    fn, fa = f
    order = sorted(range(len(fn)), key=lambda i: names.index(fn[i]))
    fa = np.transpose(fa, order)
    sizes = iter(fa.shape)
    return fa.reshape([next(sizes) if n in fn else 1 for n in names])


def f_mul(sr, f, g):
    """Product of two factors ``(axis labels, array)``; the result carries f's labels, then g's new ones."""
    names = list(f[0]) + [n for n in g[0] if n not in f[0]]
    return tuple(names), s_prod(sr, _expand(names, f), _expand(names, g))


def f_sum(sr, f, drop):
    axes = tuple(i for i, n in enumerate(f[0]) if n in drop)
    if not axes:
        return f
    return tuple(n for n in f[0] if n not in drop), s_sum(sr, f[1], axes)


def f_align(f, names):
    """Array of factor ``f`` with axes in the order ``names`` (all and only f's labels)."""
    assert sorted(map(repr, names)) == sorted(map(repr, f[0])), (names, f[0])
    return np.transpose(f[1], [f[0].index(n) for n in names])


def lagged_fold(sr, Ts, labels):
    """Ts[t]: array whose axes are ``labels``; a label is ("g", name) for a time-independent (global)
    variable or ("v", var, lag) for the value of ``var`` at time t - lag (lag 0 = current).

    Returns a factor whose labels are ("g", name) and ("x", var, s) with s = T-1 (the final value) or s < 0
    (values before the first step); the values at times 0..T-2 are semiring-summed."""
    T = len(Ts)
    maxlag = {}
    for lab in labels:
        if lab[0] == "v":
            maxlag[lab[1]] = max(maxlag.get(lab[1], 0), lab[2])
    acc = None
    for t in range(T):
        abs_labels = tuple(lab if lab[0] == "g" else ("x", lab[1], t - lab[2]) for lab in labels)
        f = (abs_labels, np.asarray(Ts[t], dtype=np.float64))
        acc = f if acc is None else f_mul(sr, acc, f)
        # x[var, s] may be summed once every factor that mentions it (times s .. s+maxlag) has been multiplied in
        done = {
            lab
            for lab in acc[0]
            if lab[0] == "x" and 0 <= lab[2] <= T - 2 and (lab[2] + maxlag[lab[1]] <= t or t == T - 1)
        }
        acc = f_sum(sr, acc, done)
    return acc
