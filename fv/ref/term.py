"""Reference denotation of funsor TERM GRAPHS and of un-built (cls, args) pairs (DESIGN 2.3, ``ref.term``).

It only reads fields (._ast_values, .data, .inputs, .op ...) and applies raw ops to single event values; it never
calls a funsor rewrite rule.  A term containing a class not covered here, or a reduction over a real-valued
variable, is *undecidable* by this reference: ``Undecidable`` is raised and the caller counts the case as skipped.
"""
import itertools

import numpy as np


class Undecidable(Exception):
    pass


class UndefinedPoint(Exception):
    pass


MAX_FOLD = 4096


def _origin(cls):
    return getattr(cls, "__origin__", cls)


def _name(cls):
    return _origin(cls).__name__


def app_inputs(cls, args):
    """Inputs (name -> Domain) of the term cls(*args) WITHOUT building it (binders keep the user's names)."""
    from collections import OrderedDict
    from funsor.terms import Funsor

    name = _name(cls)
    res = OrderedDict()

    def upd(f):
        for k, d in f.inputs.items():
            res.setdefault(k, d)

    if name == "Tensor":
        for k, d in args[1]:
            res[k] = d
        return res
    if name in ("Number",):
        return res
    if name == "Variable":
        res[args[0]] = args[1]
        return res
    if name == "Slice":
        from funsor.domains import Bint

        start, stop, step = args[1], args[2], args[3]
        res[args[0]] = Bint[max(0, (stop + step - 1 - start) // step)]
        return res
    if name in ("Unary",):
        upd(args[1])
        return res
    if name == "Binary":
        upd(args[1])
        upd(args[2])
        return res
    if name == "Reduce":
        bound = {v.name for v in args[2]}
        for k, d in args[1].inputs.items():
            if k not in bound:
                res[k] = d
        return res
    if name == "Subs":
        arg, subs = args
        keys = {k for k, _ in subs}
        for k, d in arg.inputs.items():
            if k not in keys:
                res[k] = d
        for k, v in subs:
            if k in arg.inputs:
                upd(v)
        return res
    if name == "Contraction":
        red_op, bin_op, reduced_vars = args[:3]
        terms = args[3:] if len(args) > 4 or not isinstance(args[3], tuple) else args[3]
        bound = {v.name for v in reduced_vars}
        for t in terms:
            for k, d in t.inputs.items():
                if k not in bound:
                    res.setdefault(k, d)
        return res
    if name == "Lambda":
        var, expr = args
        for k, d in expr.inputs.items():
            if k != var.name:
                res[k] = d
        return res
    if name == "Stack":
        from funsor.domains import Bint

        res[args[0]] = Bint[len(args[1])]
        for p in args[1]:
            upd(p)
        return res
    if name == "Cat":
        from funsor.domains import Bint

        nm, parts, part_name = args
        for p in parts:
            for k, d in p.inputs.items():
                if k != part_name:
                    res.setdefault(k, d)
        res[nm] = Bint[sum(p.inputs[part_name].size for p in parts)]
        return res
    if name == "Align":
        upd(args[0])
        return res
    if name == "Finitary":
        for a in args[1]:
            upd(a)
        return res
    if name == "Independent":
        from funsor.domains import Array

        fn, reals_var, bint_var, diag_var = args
        for k, d in fn.inputs.items():
            if k not in (bint_var, diag_var):
                res[k] = d
        dd = fn.inputs[diag_var]
        res[reals_var] = Array[dd.dtype, (fn.inputs[bint_var].dtype,) + dd.shape]
        return res
    if name == "Approximate":
        upd(args[1])
        return res
    if name == "Integrate":
        log_measure, integrand, reduced_vars = args
        bound = {v.name for v in reduced_vars}
        for f in (log_measure, integrand):
            for k, d in f.inputs.items():
                if k not in bound:
                    res.setdefault(k, d)
        return res
    if name == "Gaussian":
        for k, d in args[2]:
            res[k] = d
        return res
    if name == "Delta":
        for nm, (point, log_density) in args[0]:
            res[nm] = point.output
            upd(point)
            upd(log_density)
        return res
    if name == "Constant":
        for k, d in args[0]:
            res[k] = d
        upd(args[1])
        return res
    raise Undecidable("inputs:" + name)


def _contraction_parts(args):
    red_op, bin_op, reduced_vars = args[:3]
    rest = args[3:]
    if len(rest) == 1 and isinstance(rest[0], tuple):
        terms = rest[0]
    else:
        terms = tuple(rest)
    return red_op, bin_op, reduced_vars, terms


def _apply(op, *vals):
    with np.errstate(all="ignore"):
        r = op(*vals)
    return np.asarray(r)


def _fold(op, values):
    acc = None
    for v in values:
        acc = v if acc is None else _apply(op, acc, v)
    return acc


def _ranges(variables):
    """[(name, range)] for bounded-integer scalar variables; Undecidable for anything else."""
    out = []
    total = 1
    for v in variables:
        d = v.output
        if d.dtype == "real" or d.shape:
            raise Undecidable("reduction-over-non-integer-scalar")
        out.append((v.name, range(d.dtype)))
        total *= d.dtype
    if total > MAX_FOLD:
        raise Undecidable("fold-too-large")
    return out


def tden(term, rho):
    """Value of the funsor ``term`` at ``rho`` (name -> int | ndarray)."""
    cls = type(term)
    return tden_app(cls, term._ast_values, rho, term)


def tden_app(cls, args, rho, term=None):
    from funsor.terms import Funsor

    name = _name(cls)
    if name == "Tensor":
        data, inputs = args[0], args[1]
        idx = tuple(int(rho[k]) for k, _ in inputs)
        return np.asarray(data[idx])
    if name == "Number":
        return np.asarray(args[0])
    if name == "Variable":
        return np.asarray(rho[args[0]])
    if name == "Slice":
        return np.asarray(args[1] + args[3] * int(rho[args[0]]))
    if name == "Unary":
        op, arg = args
        x = tden(arg, rho)
        if type(op).__name__ == "ReciprocalOp" and np.any(np.asarray(x) == 0):
            raise UndefinedPoint("reciprocal of zero")
        return _apply(op, x)
    if name == "Binary":
        op, lhs, rhs = args
        x, y = tden(lhs, rho), tden(rhs, rho)
        if type(op).__name__ == "GetitemOp":
            off = op.defaults["offset"]
            return np.asarray(x[(slice(None),) * off + (int(y),)])
        if type(op).__name__ in ("FloordivOp", "ModOp", "TruedivOp", "SafedivOp") and np.any(np.asarray(y) == 0):
            raise UndefinedPoint("division by zero")
        return _apply(op, x, y)
    if name == "Reduce":
        op, arg, reduced_vars = args
        names = _ranges(sorted(reduced_vars, key=lambda v: v.name))
        vals = []
        for combo in itertools.product(*[r for _, r in names]):
            rho2 = dict(rho)
            rho2.update({n: c for (n, _), c in zip(names, combo)})
            vals.append(tden(arg, rho2))
        return _fold(op, vals)
    if name == "Subs":
        arg, subs = args
        rho2 = dict(rho)
        for k, v in subs:
            if k in arg.inputs:
                rho2[k] = tden(v, rho)
        return tden(arg, rho2)
    if name == "Contraction":
        red_op, bin_op, reduced_vars, terms = _contraction_parts(args)
        names = _ranges(sorted(reduced_vars, key=lambda v: v.name))
        vals = []
        for combo in itertools.product(*[r for _, r in names]):
            rho2 = dict(rho)
            rho2.update({n: c for (n, _), c in zip(names, combo)})
            tv = [tden(t, rho2) for t in terms]
            vals.append(tv[0] if len(tv) == 1 else _fold(bin_op, tv))
        if len(vals) == 1:
            return vals[0]
        return _fold(red_op, vals)
    if name == "Lambda":
        var, expr = args
        out = []
        for i in range(var.output.dtype):
            rho2 = dict(rho)
            rho2[var.name] = i
            out.append(tden(expr, rho2))
        return np.stack(out, 0)
    if name == "Stack":
        return tden(args[1][int(rho[args[0]])], rho)
    if name == "Cat":
        nm, parts, part_name = args
        n = int(rho[nm])
        for p in parts:
            size = p.inputs[part_name].size
            if n < size:
                rho2 = dict(rho)
                rho2[part_name] = n
                return tden(p, rho2)
            n -= size
        raise UndefinedPoint("cat index")
    if name == "Align":
        return tden(args[0], rho)
    if name == "Finitary":
        op, fargs = args
        return _apply(op, tuple(tden(a, rho) for a in fargs))
    if name == "Independent":
        fn, reals_var, bint_var, diag_var = args
        acc = None
        for b in range(fn.inputs[bint_var].dtype):
            rho2 = dict(rho)
            rho2[bint_var] = b
            rho2[diag_var] = np.asarray(rho[reals_var])[b]
            v = tden(fn, rho2)
            acc = v if acc is None else acc + v
        return acc
    if name == "Approximate":
        return tden(args[1], rho)
    if name == "Constant":
        return tden(args[1], rho)
    if name == "Integrate":
        log_measure, integrand, reduced_vars = args
        names = _ranges(sorted(reduced_vars, key=lambda v: v.name))
        acc = None
        for combo in itertools.product(*[r for _, r in names]):
            rho2 = dict(rho)
            rho2.update({n: c for (n, _), c in zip(names, combo)})
            v = np.exp(tden(log_measure, rho2)) * tden(integrand, rho2)
            acc = v if acc is None else acc + v
        return np.asarray(acc)
    if name == "Gaussian":
        white_vec, prec_sqrt, inputs = args
        idx = tuple(int(rho[k]) for k, d in inputs if d.dtype != "real")
        z = np.concatenate([np.asarray(rho[k], dtype=float).reshape(-1) for k, d in inputs if d.dtype == "real"])
        r = z @ np.asarray(prec_sqrt)[idx] - np.asarray(white_vec)[idx]
        return np.asarray(-0.5 * np.sum(r * r))
    if name == "Delta":
        total = 0.0
        for nm, (point, log_density) in args[0]:
            p = tden(point, rho)
            v = np.asarray(rho[nm])
            if p.shape != v.shape or not np.all(p == v):
                return np.asarray(-np.inf)
            total = total + tden(log_density, rho)
        return np.asarray(total)
    raise Undecidable("class:" + name)
