"""Expression descriptors of the compiler fragment (C18): typing, numpy reference evaluation, enumeration.

Nothing in this module imports funsor.  Descriptors are nested tuples (JSON-able as lists):

    ("in", name, shape)       real array input           Variable(name, Reals[shape])
    ("ii", name, size)        bounded-integer input      Variable(name, Bint[size])
    ("num", value)            real Number constant
    ("numi", value, size)     bounded-integer Number constant (only used as a getitem index)
    ("ten", lid, shape)       Tensor constant, generic fill number lid
    ("u", op, param, e)       op in POINTWISE (param None) | "sum" (axis) | "reshape" (shape) | "getslice" (index)
    ("b", op, e1, e2)         op in ARITH | ("getitem", offset)
    ("tup", (e, ...))         Tuple (root only)
    ("con", op, (e, ...))     Contraction without reduction: the operands combined with op under `normalize`

getslice index parts: int | ("s", start, stop, step) | "..."
"""
import functools
import itertools

import numpy as np

from .lang import generic_fill

POINTWISE = ("neg", "exp", "log", "abs", "sigmoid", "sqrt")
ARITH = ("sub", "truediv", "pow", "matmul", "floordiv", "mod", "add", "mul", "max", "min")
NONCOMMUTATIVE = ("sub", "truediv", "pow", "matmul", "floordiv", "mod", "getitem")
INT_ARITH = ("add", "mul")  # arithmetic in which one operand may be a bounded-integer input (funsor types no other)
CON_OPS = ("add", "mul")

# every input name has one fixed domain (an expression cannot use one name at two domains)
REAL_INPUTS = {"a": (), "b": (2,), "c": (2, 3), "d": (3,), "e": (2,), "f": (), "g": (3, 2)}
INT_INPUTS = {"i": 2, "j": 3}
INPUT_ID = {"a": 1, "b": 2, "c": 3, "d": 4, "e": 5, "f": 6, "g": 7, "z": 8}


class IllTyped(Exception):
    pass


class Undefined(Exception):
    """The reference value does not exist / is not finite at this binding."""


def tuplify(x):
    if isinstance(x, (list, tuple)):
        return tuple(tuplify(y) for y in x)
    return x


def decode_index(index):
    out = []
    for p in index:
        if isinstance(p, tuple) and p and p[0] == "s":
            out.append(slice(p[1], p[2], p[3]))
        elif p == "...":
            out.append(Ellipsis)
        else:
            out.append(p)
    return tuple(out)


# ---------------------------------------------------------------------------
# structure


def children(e):
    t = e[0]
    if t == "u":
        return (e[3],)
    if t == "b":
        return (e[2], e[3])
    if t in ("tup",):
        return tuple(e[1])
    if t == "con":
        return tuple(e[2])
    return ()


def head(e):
    t = e[0]
    if t == "u":
        return "u:" + e[1]
    if t == "b":
        return "b:" + (e[1] if isinstance(e[1], str) else "getitem")
    if t == "con":
        return "con:" + e[1]
    return t


def postorder(e, seen=None, out=None):
    """Distinct sub-descriptors, operands before users, left operand first (the DAG the hash-consed term is)."""
    if seen is None:
        seen, out = set(), []
    if e in seen:
        return out
    for c in children(e):
        postorder(c, seen, out)
    seen.add(e)
    out.append(e)
    return out


def tree_size(e):
    return 1 + sum(tree_size(c) for c in children(e))


def depth(e):
    cs = children(e)
    return 0 if not cs else 1 + max(depth(c) for c in cs)


def op_nodes(e):
    return [s for s in postorder(e) if s[0] in ("u", "b", "con", "tup")]


def n_ops(e):
    """Number of binary/unary operations of the straight-line program (a k-ary contraction is k-1 operations)."""
    n = 0
    for s in op_nodes(e):
        n += len(s[2]) - 1 if s[0] == "con" else 1
    return n


def inputs_of(e):
    """Input leaves in order of first occurrence (depth first, left to right) = funsor's .inputs order."""
    return [s for s in postorder(e) if s[0] in ("in", "ii")]


def is_shared(e):
    """Some non-leaf sub-term, or some leaf, is used more than once (the term is a proper DAG)."""
    return tree_size(e) > len(postorder(e))


def has_shared_op(e):
    cnt = {}

    def walk(x):
        if x[0] in ("u", "b", "con"):
            cnt[x] = cnt.get(x, 0) + 1
        for c in children(x):
            walk(c)

    walk(e)
    return any(v > 1 for v in cnt.values())


def features_of(e):
    subs = postorder(e)
    return {
        "root": head(e),
        "depth": depth(e),
        "shared_subterm": bool(has_shared_op(e)),
        "has_tensor_constant": any(s[0] == "ten" for s in subs),
        "has_number_constant": any(s[0] in ("num", "numi") for s in subs),
        "has_int_input": any(s[0] == "ii" for s in subs),
        "has_contraction": any(s[0] == "con" for s in subs),
        "has_tuple": any(s[0] == "tup" for s in subs),
        "n_inputs": len(inputs_of(e)),
        "n_ops": n_ops(e),
    }


# ---------------------------------------------------------------------------
# typing: (kind, shape), kind in "real" | "int"; a Tuple has kind "tuple"


@functools.lru_cache(maxsize=None)
def ty(e):
    t = e[0]
    if t == "in":
        return ("real", tuple(e[2]))
    if t == "ii":
        return ("int", ())
    if t == "num":
        return ("real", ())
    if t == "numi":
        if not 0 <= e[1] < e[2]:
            raise IllTyped("numi out of range")
        return ("int", ())
    if t == "ten":
        return ("real", tuple(e[2]))
    if t == "u":
        k, s = ty(e[3])
        if k != "real":
            raise IllTyped("unary op on a non-real operand")
        op, p = e[1], e[2]
        if op in POINTWISE:
            return ("real", s)
        if op == "sum":
            if not s:
                raise IllTyped("sum of a scalar")
            if p is None:
                return ("real", ())
            if not -len(s) <= p < len(s):
                raise IllTyped("axis")
            ax = p % len(s)
            return ("real", s[:ax] + s[ax + 1 :])
        if op == "reshape":
            p = tuple(p)
            if scalar_constant(e[3]):
                raise IllTyped("reshape of a python scalar (Number-only operand)")
            if int(np.prod(p, dtype=int)) != int(np.prod(s, dtype=int)) or p == s:
                raise IllTyped("reshape")
            return ("real", p)
        if op == "getslice":
            try:
                r = np.empty(s)[decode_index(p)]
            except IndexError:
                raise IllTyped("index")
            if r.size == 0:
                raise IllTyped("empty slice")
            return ("real", tuple(r.shape))
        raise IllTyped(op)
    if t == "b":
        (k1, s1), (k2, s2) = ty(e[2]), ty(e[3])
        op = e[1]
        if isinstance(op, tuple):  # ("getitem", offset)
            off = op[1]
            if k1 != "real" or k2 != "int" or len(s1) <= off:
                raise IllTyped("getitem")
            size = e[3][2]
            if size != s1[off]:
                raise IllTyped("getitem index size")
            return ("real", s1[:off] + s1[off + 1 :])
        if "tuple" in (k1, k2):
            raise IllTyped("tuple operand")
        if k1 == "int" or k2 == "int":
            if k1 == k2 or op not in INT_ARITH or e[2][0] == "numi" or e[3][0] == "numi":
                raise IllTyped("integer operand")
        if op == "matmul":
            if not s1 or not s2 or len(s1) > 2 or len(s2) > 2:
                raise IllTyped("matmul rank")
            if s1[-1] != (s2[0] if len(s2) == 1 else s2[-2]):
                raise IllTyped("matmul sizes")
            return ("real", s1[:-1] + (s2[1:] if len(s2) == 2 else ()))
        if op not in ARITH:
            raise IllTyped(op)
        try:
            return ("real", tuple(np.broadcast_shapes(s1, s2)))
        except ValueError:
            raise IllTyped("broadcast")
    if t == "tup":
        if len(e[1]) < 1:
            raise IllTyped("empty tuple")
        return ("tuple", tuple(_real(ty(c))[1] for c in e[1]))
    if t == "con":
        if e[1] not in CON_OPS or len(e[2]) < 2:
            raise IllTyped("con")
        try:
            return ("real", tuple(np.broadcast_shapes(*[_real(ty(c))[1] for c in e[2]])))
        except ValueError:
            raise IllTyped("broadcast")
    raise IllTyped(t)


def scalar_constant(e):
    """Built from Number leaves only: its run-time value is a python scalar, which has no array methods."""
    if e[0] in ("num", "numi"):
        return True
    cs = children(e)
    return bool(cs) and e[0] in ("u", "b", "con") and all(scalar_constant(c) for c in cs)


def _real(t):
    if t[0] != "real":
        raise IllTyped("real operand expected")
    return t


def well_typed(e):
    try:
        ty(e)
        # one name, one domain
        doms = {}
        for s in inputs_of(e):
            if doms.setdefault(s[1], s) != s:
                return False
        return True
    except IllTyped:
        return False


# ---------------------------------------------------------------------------
# data


def input_value(leaf, fill, seed):
    """Generic real data of a real input for binding number ``fill``."""
    return generic_fill(INPUT_ID.get(leaf[1], 9) + 40 * (fill + 1), tuple(leaf[2]), seed)


def const_value(leaf, seed):
    return generic_fill(200 + leaf[1], tuple(leaf[2]), seed)


def bindings(e_inputs, seed, fills=2):
    """All bindings: every value combination of the bounded-integer inputs x ``fills`` generic fills."""
    ints = [s for s in e_inputs if s[0] == "ii"]
    out = []
    for f in range(fills):
        for combo in itertools.product(*[range(s[2]) for s in ints]):
            env = {}
            it = iter(combo)
            for s in e_inputs:
                if s[0] == "ii":
                    env[s[1]] = np.array(next(it), dtype=np.int64)
                else:
                    env[s[1]] = input_value(s, f, seed)
            out.append(env)
    return out


# ---------------------------------------------------------------------------
# reference evaluation (numpy on whole arrays; every intermediate must be finite)


def _sigmoid(x):
    return 1.0 / (1.0 + np.exp(-x))


_UN = {"neg": np.negative, "exp": np.exp, "log": np.log, "abs": np.abs, "sigmoid": _sigmoid, "sqrt": np.sqrt}
_BIN = {
    "add": np.add,
    "sub": np.subtract,
    "mul": np.multiply,
    "truediv": np.true_divide,
    "pow": np.power,
    "matmul": np.matmul,
    "floordiv": np.floor_divide,
    "mod": np.mod,
    "max": np.maximum,
    "min": np.minimum,
}


def _finite(v):
    v = np.asarray(v)
    if not np.all(np.isfinite(v)):
        raise Undefined("non-finite intermediate")
    return v


def ref_eval(e, env, seed, memo=None, real=np.float64):
    """Value of descriptor ``e`` at binding ``env`` (name -> ndarray).  Raises Undefined.

    ``real`` is the floating type of the constants (the inputs come as given)."""
    if memo is None:
        memo = {}
    if e in memo:
        return memo[e]
    t = e[0]
    with np.errstate(all="ignore"):
        if t in ("in", "ii"):
            v = np.asarray(env[e[1]])
        elif t == "num":
            v = real(e[1])
        elif t == "numi":
            v = np.int64(e[1])
        elif t == "ten":
            v = const_value(e, seed).astype(real)
        elif t == "u":
            x = ref_eval(e[3], env, seed, memo, real)
            op, p = e[1], e[2]
            if op in _UN:
                if op == "log" and np.any(x <= 0):
                    raise Undefined("log of a non-positive number")
                if op == "sqrt" and np.any(x < 0):
                    raise Undefined("sqrt of a negative number")
                v = _UN[op](x)
            elif op == "sum":
                v = np.sum(x, axis=p)
            elif op == "reshape":
                v = np.reshape(x, tuple(p))
            elif op == "getslice":
                v = x[decode_index(p)]
            else:
                raise IllTyped(op)
        elif t == "b":
            x = ref_eval(e[2], env, seed, memo, real)
            y = ref_eval(e[3], env, seed, memo, real)
            op = e[1]
            if isinstance(op, tuple):
                v = x[(slice(None),) * op[1] + (int(y),)]
            else:
                if op in ("truediv", "floordiv", "mod") and np.any(y == 0):
                    raise Undefined("division by zero")
                if op == "pow" and (np.any(x < 0) or (np.any(x == 0) and np.any(y <= 0))):
                    raise Undefined("power of a non-positive base")
                v = _BIN[op](x, y)
        elif t == "tup":
            v = tuple(ref_eval(c, env, seed, memo, real) for c in e[1])
            memo[e] = v
            return v
        elif t == "con":
            vals = [ref_eval(c, env, seed, memo, real) for c in e[2]]
            v = functools.reduce(_BIN[e[1]], vals)
        else:
            raise IllTyped(t)
    v = _finite(v)
    memo[e] = v
    return v


def close(a, b, rtol=1e-7, atol=1e-9):
    """|a-b| <= atol + rtol|b| element-wise, equal shapes (b = reference, finite)."""
    if isinstance(a, np.ndarray) and a.dtype == np.longdouble:
        a = a.astype(np.float64)
    if isinstance(b, tuple):
        return isinstance(a, tuple) and len(a) == len(b) and all(close(x, y, rtol, atol) for x, y in zip(a, b))
    if isinstance(a, tuple):
        return False
    try:
        a = np.asarray(a, dtype=np.float64)
    except (TypeError, ValueError):
        return False
    b = np.asarray(b, dtype=np.float64)
    if a.shape != b.shape:
        return False
    if np.any(np.isnan(a)):
        return False
    return bool(np.all(np.abs(a - b) <= atol + rtol * np.abs(b)))


_EXTENDED = np.finfo(np.longdouble).eps < 1e-18


def well_conditioned(e, env, seed, ref):
    """Is the float64 reference value insensitive to the rounding of its intermediates?

    The library may round differently from the reference (a commutative contraction may be re-associated, an op may
    be implemented by another formula).  The reference is therefore re-evaluated in extended precision (80-bit
    long double; where the platform has none, on inputs moved by 1e-13 relative) and the binding is used only if
    the two evaluations agree to a tenth of the comparison tolerance."""
    if _EXTENDED:
        env2 = {k: (v.astype(np.longdouble) if v.dtype.kind == "f" else v) for k, v in env.items()}
        kw = {"real": np.longdouble}
    else:
        env2 = {k: (v * (1.0 + 1e-13) if v.dtype.kind == "f" else v) for k, v in env.items()}
        kw = {}
    try:
        ref2 = ref_eval(e, env2, seed, **kw)
    except Undefined:
        return False
    return close(ref2, ref, rtol=1e-8, atol=1e-10)


# ---------------------------------------------------------------------------
# pretty printing as public-API code (one statement per distinct sub-term)


def _dom(shape):
    return "Real" if not shape else "Reals[%s]" % ", ".join(map(str, shape))


def _index_code(index):
    parts = []
    for p in index:
        if isinstance(p, tuple) and p and p[0] == "s":
            parts.append("slice(%r, %r, %r)" % (p[1], p[2], p[3]))
        elif p == "...":
            parts.append("Ellipsis")
        else:
            parts.append(repr(p))
    return "(" + ", ".join(parts) + ",)"


_PY_BIN = {"add": "+", "sub": "-", "mul": "*", "truediv": "/", "pow": "**", "matmul": "@", "floordiv": "//", "mod": "%"}


def build_code(e, seed, rename=None):
    """Lines of python that build descriptor ``e`` as a lazy funsor named ``expr`` (needs the snippet header)."""
    rename = rename or {}
    names = {}
    lines = []
    for s in postorder(e):
        v = "t%d" % len(names)
        names[s] = v
        t = s[0]
        ctx = "lazy"
        if t == "in":
            rhs = "Variable(%r, %s)" % (rename.get(s[1], s[1]), _dom(tuple(s[2])))
        elif t == "ii":
            rhs = "Variable(%r, Bint[%d])" % (rename.get(s[1], s[1]), s[2])
        elif t == "num":
            rhs = "Number(%r)" % (s[1],)
        elif t == "numi":
            rhs = "Number(%r, %d)" % (s[1], s[2])
        elif t == "ten":
            rhs = "Tensor(np.array(%r))" % (const_value(s, seed).tolist(),)
        elif t == "u":
            x = names[s[3]]
            op, p = s[1], s[2]
            if op == "neg":
                rhs = "-%s" % x
            elif op in POINTWISE:
                rhs = "%s.%s()" % (x, op)
            elif op == "sum":
                rhs = "%s.sum(%r)" % (x, p)
            elif op == "reshape":
                rhs = "%s.reshape(%r)" % (x, tuple(p))
            else:
                rhs = "%s[%s]" % (x, _index_code(p))
        elif t == "b":
            x, y = names[s[2]], names[s[3]]
            op = s[1]
            if isinstance(op, tuple):
                rhs = "Binary(ops.GetitemOp(%d), %s, %s)" % (op[1], x, y)
            elif op in _PY_BIN:
                rhs = "%s %s %s" % (x, _PY_BIN[op], y)
            else:
                rhs = "Binary(ops.%s, %s, %s)" % (op, x, y)
        elif t == "tup":
            rhs = "Tuple((%s,))" % ", ".join(names[c] for c in s[1])
        elif t == "con":
            ctx = "normalize"
            rhs = (" %s " % _PY_BIN[s[1]]).join(names[c] for c in s[2])
        lines.append("with %s: %s = %s" % (ctx, v, rhs))
    lines.append("expr = %s" % names[e])
    return lines


def text(e):
    """Compact one-line rendering for evidence samples."""
    t = e[0]
    if t in ("in", "ii"):
        return e[1]
    if t == "num":
        return repr(e[1])
    if t == "numi":
        return "%d:Bint[%d]" % (e[1], e[2])
    if t == "ten":
        return "T%d%s" % (e[1], list(e[2]))
    if t == "u":
        return "%s%s(%s)" % (e[1], "" if e[2] is None else list(e[2]) if isinstance(e[2], tuple) else [e[2]], text(e[3]))
    if t == "b":
        op = e[1] if isinstance(e[1], str) else "getitem%d" % e[1][1]
        return "%s(%s, %s)" % (op, text(e[2]), text(e[3]))
    if t == "tup":
        return "Tuple(%s)" % ", ".join(text(c) for c in e[1])
    if t == "con":
        return "Contraction[%s](%s)" % (e[1], ", ".join(text(c) for c in e[2]))
    return repr(e)


# ---------------------------------------------------------------------------
# enumeration


def V(name):
    return ("in", name, REAL_INPUTS[name])


def I(name):
    return ("ii", name, INT_INPUTS[name])


SUM_AXES = (None, 0, -1)
RESHAPES = ((3, 2), (6,), (2, 3), (2, 1), (1, 2), (3, 1), (1,))
SLICES = (
    (0,),
    (("s", 1, None, None),),
    (("s", None, None, None), 1),
    (-1,),
    ("...", 0),
    (1, ("s", 0, 2, None)),
    (("s", None, None, 2),),
)


def alphabet(name):
    """Named alphabets.  Order inside each list = simplest first."""
    if name == "core":  # small enough for depth 2 to be enumerated without any pruning
        return {
            "leaves": [V("a"), V("b"), ("num", 2.5), ("ten", 1, (2,))],
            "pointwise": ("neg",),
            "sum": (None,),
            "reshape": (),
            "slices": (),
            "binary": ("sub", "truediv"),
            "getitem": (),
            "con": ("add",),
            "tuple": True,
        }
    if name == "wide":
        return {
            "leaves": [V("a"), V("b"), V("c"), V("d"), I("i"), I("j"), ("num", 2.5), ("numi", 1, 2), ("numi", 2, 3),
                       ("ten", 1, (2,)), ("ten", 2, (3,)), ("ten", 3, ())],
            "pointwise": POINTWISE,
            "sum": SUM_AXES,
            "reshape": RESHAPES[:4],
            "slices": SLICES[:4],
            "binary": ARITH[:8],
            "getitem": (0, 1),
            "con": CON_OPS,
            "tuple": True,
        }
    if name == "full":
        return {
            "leaves": [V("a"), V("b"), V("c"), V("d"), V("e"), V("f"), V("g"), I("i"), I("j"), ("num", 2.5), ("num", 0.5),
                       ("numi", 1, 2), ("numi", 0, 2), ("numi", 2, 3), ("ten", 1, (2,)), ("ten", 2, (3,)), ("ten", 3, ()),
                       ("ten", 4, (2, 3))],
            "pointwise": POINTWISE,
            "sum": SUM_AXES,
            "reshape": RESHAPES,
            "slices": SLICES,
            "binary": ARITH,
            "getitem": (0, 1),
            "con": CON_OPS,
            "tuple": True,
        }
    raise KeyError(name)


def light(al):
    """The reduced op alphabet used above level 1 of the wide/full enumeration: every non-commutative op, one
    commutative op, one op of each parametrised kind."""
    out = dict(al)
    out.update(
        pointwise=("neg", "exp"),
        sum=(None, 0),
        reshape=al["reshape"][:1],
        slices=al["slices"][:2],
        binary=tuple(o for o in al["binary"] if o in ("sub", "truediv", "pow", "matmul", "floordiv", "mod", "add")),
    )
    return out


def unary_over(x, al):
    for op in al["pointwise"]:
        yield ("u", op, None, x)
    for ax in al["sum"]:
        yield ("u", "sum", ax, x)
    for sh in al["reshape"]:
        yield ("u", "reshape", sh, x)
    for ix in al["slices"]:
        yield ("u", "getslice", ix, x)


def binary_over(x, y, al):
    for op in al["binary"]:
        yield ("b", op, x, y)
    for off in al["getitem"]:
        yield ("b", ("getitem", off), x, y)


def _dedup(seq, seen):
    out = []
    for e in seq:
        if e in seen:
            continue
        seen.add(e)
        if well_typed(e):
            out.append(e)
    return out


def level_up(new, others, al, seen, nary=True):
    """Every constructor applied to operand tuples with at least one operand from ``new`` and the rest from
    ``others``: unary(x); binary(x, y), binary(y, x) for x in new, y in others; binary(x, x) (the shared operand);
    the same for binary contractions.  Pass ``others`` containing ``new`` for the complete level."""
    out = []
    for x in new:
        out += _dedup(unary_over(x, al), seen)
    for x in new:
        for y in others:
            out += _dedup(binary_over(x, y, al), seen)
            out += _dedup(binary_over(y, x, al), seen)
        out += _dedup(binary_over(x, x, al), seen)
    if nary:
        for op in al["con"]:
            for x in new:
                for y in others:
                    out += _dedup([("con", op, (x, y)), ("con", op, (y, x))], seen)
                out += _dedup([("con", op, (x, x))], seen)
    return out


def prune(terms, key):
    seen, out = set(), []
    for e in terms:
        k = key(e)
        if k in seen:
            continue
        seen.add(k)
        out.append(e)
    return out


def key_op_inputs_shape(e):
    return (head(e), e[2] if e[0] == "u" else None, tuple(sorted(s[1] for s in inputs_of(e))), ty(e))


def key_op_shape(e):
    return (head(e), ty(e))


def key_kind_shape(e):
    return (e[0], ty(e))


def key_struct(e):
    """(root op, heads of the operands, which operands are identical, input names, output shape)."""
    cs = children(e)
    same = tuple(i for i in range(len(cs)) for j in range(i) if cs[i] == cs[j])
    return (head(e), tuple(head(c) for c in cs), same, tuple(sorted(s[1] for s in inputs_of(e))), ty(e))
