"""Reference arithmetic for C15 (op tables / scalar-vs-array agreement / log-space limits).

Shares no code with funsor.  Two evaluators of the same op catalogue (method name == funsor op name):

* ``EXACT``  -- extended-real arithmetic in 800-digit decimal (field operations are exact for every grid value and
  for the few-step formulas used here; exp/ln are evaluated to 60 significant digits).  Anything that is not a
  well-defined extended real raises ``Undefined``: inf-inf, 0*inf, x/0, log of a negative, limits that depend on the
  direction of approach (floordiv/mod by an infinite divisor, 1**inf, 0**0 with a non-integer route ...).
* ``FLOAT``  -- the same formulas in plain Python floats with IEEE answers for the cases where Python raises
  (OverflowError -> +-inf, domain errors -> Undefined).  It is used only to *recognise double-precision artefacts*:
  a point where FLOAT and EXACT disagree (overflow of an intermediate, absorption such as (1 - 1e308) + 1e308)
  says nothing about the table and is skipped by the checks.

Also: the ``math.fsum`` log-sum-exp of the property statement and brute-force log-space / max-plus einsum.
"""
import decimal
import itertools
import math
import operator
import sys
from decimal import Decimal

INF = math.inf
TINY = 5e-324
FMIN = sys.float_info.min  # 2.2250738585072014e-308
HUGE = 1e308
FMAX = sys.float_info.max

_HI = decimal.Context(prec=800, Emax=decimal.MAX_EMAX, Emin=decimal.MIN_EMIN, traps=[])
_LO = decimal.Context(prec=60, Emax=decimal.MAX_EMAX, Emin=decimal.MIN_EMIN, traps=[])
_DINF = Decimal("Infinity")
_ZERO = Decimal(0)
_ONE = Decimal(1)
_BEYOND = Decimal("1E+1000000")


class Undefined(Exception):
    """The reference has no value at this point (outside the op's domain)."""


# ---------------------------------------------------------------------------------------------------------
# the operand grid G and its restrictions

GRID_INT = (0, 1, -1, 2, 3)
GRID_FLOAT = (0.0, 1.0, -1.0, 0.5, 2.0, 3.0, INF, -INF, TINY, FMIN, HUGE)
GRID_BOOL = (False, True)
GRID_REAL = GRID_INT + GRID_FLOAT  # carrier of the real-number ops
GRID_NONNEG = tuple(v for v in GRID_FLOAT if v >= 0)  # carrier of (max|min, mul)
GRID_LOG = (-INF, 0.0, 1.0, -1.0, 0.5, 2.0, 3.0, TINY, FMIN, 700.0, -700.0, HUGE, -HUGE)  # [-inf, finite]
GRID_PROB = (0.0, 1.0, 0.5, 2.0, 3.0, TINY, FMIN, HUGE)  # [0, finite]
LIMIT_VALUES = (-INF, -HUGE, -745.0, -700.0, -1.0, 0.0, 0.5, 1.0, 700.0, 709.78, 745.0, HUGE)


def token(v):
    """Stable text of a grid value (used in keys, messages, snippets)."""
    if isinstance(v, bool):
        return "True" if v else "False"
    if isinstance(v, int):
        return str(v)
    if v == INF:
        return "math.inf"
    if v == -INF:
        return "-math.inf"
    return repr(float(v))


# ---------------------------------------------------------------------------------------------------------
# exact evaluator


def _d(v):
    if isinstance(v, Decimal):
        return v
    if isinstance(v, bool):
        return Decimal(int(v))
    if isinstance(v, int):
        return Decimal(v)
    if isinstance(v, float):
        if v != v:
            raise Undefined("nan operand")
        return Decimal(v)  # exact
    raise Undefined("not a number: %r" % (v,))


def _chk(x):
    if x.is_nan():
        raise Undefined("nan")
    return x


def _is_int(v):
    return isinstance(v, int)  # bool included


def _is_integral(x):
    return x.is_finite() and x == x.to_integral_value()


class Exact:
    name = "exact"

    def lift(self, v):
        return v if _is_int(v) else _d(v)

    const = lift

    # -- field operations ---------------------------------------------------------------------------------
    def add(self, a, b):
        return _chk(_HI.add(_d(a), _d(b)))

    def sub(self, a, b):
        return _chk(_HI.subtract(_d(a), _d(b)))

    def mul(self, a, b):
        return _chk(_HI.multiply(_d(a), _d(b)))

    def truediv(self, a, b):
        a, b = _d(a), _d(b)
        if b == 0:
            raise Undefined("division by zero")
        return _chk(_HI.divide(a, b))

    def neg(self, a):
        return _HI.minus(_d(a))

    def pos(self, a):
        return _d(a)

    def abs(self, a):
        return _HI.abs(_d(a))

    def reciprocal(self, a):
        return self.truediv(_ONE, a)

    def floordiv(self, a, b):
        a, b = _d(a), _d(b)
        if b == 0 or not a.is_finite() or not b.is_finite():
            raise Undefined("floordiv outside finite/nonzero divisor")
        return _HI.divide(a, b).to_integral_value(rounding=decimal.ROUND_FLOOR)

    def mod(self, a, b):
        q = self.floordiv(a, b)
        return _chk(_HI.subtract(_d(a), _HI.multiply(_d(b), q)))

    def max(self, a, b):
        a, b = _d(a), _d(b)
        return a if a >= b else b

    def min(self, a, b):
        a, b = _d(a), _d(b)
        return a if a <= b else b

    # -- comparisons ---------------------------------------------------------------------------------------
    def eq(self, a, b):
        return _d(a) == _d(b)

    def ne(self, a, b):
        return _d(a) != _d(b)

    def lt(self, a, b):
        return _d(a) < _d(b)

    def le(self, a, b):
        return _d(a) <= _d(b)

    def gt(self, a, b):
        return _d(a) > _d(b)

    def ge(self, a, b):
        return _d(a) >= _d(b)

    # -- bitwise / boolean (integers and booleans only) --------------------------------------------------
    def _ints(self, a, b):
        if not (_is_int(a) and _is_int(b)):
            raise Undefined("bitwise op on non-integers")
        return a, b

    def and_(self, a, b):
        a, b = self._ints(a, b)
        return a & b

    def or_(self, a, b):
        a, b = self._ints(a, b)
        return a | b

    def xor(self, a, b):
        a, b = self._ints(a, b)
        return a ^ b

    def lshift(self, a, b):
        a, b = self._ints(a, b)
        if b < 0 or isinstance(a, bool) or isinstance(b, bool):
            raise Undefined("shift outside non-negative integers")
        return a << b

    def rshift(self, a, b):
        a, b = self._ints(a, b)
        if b < 0 or isinstance(a, bool) or isinstance(b, bool):
            raise Undefined("shift outside non-negative integers")
        return a >> b

    def invert(self, a):
        if not _is_int(a) or isinstance(a, bool):
            raise Undefined("invert outside integers")
        return ~a

    # -- transcendental (60 digits) ------------------------------------------------------------------------
    def exp(self, a):
        a = _d(a)
        if a == _DINF:
            return _DINF
        if a == -_DINF:
            return _ZERO
        if a > 100000:
            return _BEYOND  # finite but far above the float range
        if a < -100000:
            return _ZERO
        return _LO.exp(_LO.plus(a))

    def log(self, a):
        a = _d(a)
        if a < 0:
            raise Undefined("log of a negative")
        if a == 0:
            return -_DINF
        if a == _DINF:
            return _DINF
        return _LO.ln(_LO.plus(a))

    def log1p(self, a):
        a = _d(a)
        if a.is_finite() and abs(a) < Decimal("1e-30"):
            return a  # ln(1+a) = a (1 - a/2 + ...) : relative error < 1e-30
        return self.log(_HI.add(_ONE, a))

    def sqrt(self, a):
        a = _d(a)
        if a < 0:
            raise Undefined("sqrt of a negative")
        if a == _DINF:
            return _DINF
        return _HI.sqrt(a)

    def tanh(self, a):
        a = _d(a)
        if a > 200:
            return _ONE
        if a < -200:
            return -_ONE
        if abs(a) < Decimal("1e-30"):
            return a
        e = _LO.exp(_LO.plus(2 * a))
        return _LO.divide(e - 1, e + 1)

    def atanh(self, a):
        a = _d(a)
        if abs(a) > 1:
            raise Undefined("atanh outside [-1,1]")
        if a == 1:
            return _DINF
        if a == -1:
            return -_DINF
        if abs(a) < Decimal("1e-30"):
            return a
        return _LO.ln(_HI.divide(1 + a, 1 - a)) / 2

    def sigmoid(self, a):
        return self.truediv(_ONE, self.add(_ONE, self.exp(self.neg(a))))

    def lgamma(self, a):
        a = _d(a)
        if a == _DINF:
            return _DINF
        if a in (1, 2):
            return _ZERO
        if a == 3:
            return _LO.ln(Decimal(2))
        if a == Decimal("0.5"):
            pi = Decimal("3.14159265358979323846264338327950288419716939937510582097494")
            return _LO.ln(pi) / 2
        if 0 < a < Decimal("1e-300"):
            return -_LO.ln(_LO.plus(a))  # lgamma(x) = -ln x - gamma x + O(x^2)
        raise Undefined("lgamma: no closed form in this reference")

    def pow(self, a, b):
        a, b = _d(a), _d(b)
        if b == 0:
            return _ONE
        if not b.is_finite():
            if a < 0 or a == 1:
                raise Undefined("x**inf for x<0 or x==1")
            big = (a > 1) == (b > 0)
            return _DINF if big else _ZERO
        if _is_integral(b) and abs(b) <= 1000:
            n = int(b)
            if a == 0:
                if n < 0:
                    raise Undefined("0**negative")
                return _ZERO
            if not a.is_finite():
                if n < 0:
                    return _ZERO
                return _DINF if (a > 0 or n % 2 == 0) else -_DINF
            return _chk(_HI.power(a, n))
        if a < 0:
            raise Undefined("negative base, non-integer or huge exponent")
        if a == 0:
            if b < 0:
                raise Undefined("0**negative")
            return _ZERO
        if a == 1:
            return _ONE
        if a == _DINF:
            return _DINF if b > 0 else _ZERO
        return self.exp(_HI.multiply(b, self.log(a)))

    def logaddexp(self, a, b):
        return self.logsumexp([a, b])

    sample = None  # not a numeric op

    def logsumexp(self, xs):
        xs = [_d(x) for x in xs]
        m = max(xs)
        if m == _DINF:
            raise Undefined("+inf in log space")
        if m == -_DINF:
            return m
        s = _ZERO
        for x in xs:
            d = _HI.subtract(x, m)
            if d > -2000:
                s += _LO.exp(_LO.plus(d))
        return _HI.add(m, _LO.ln(s))

    def safesub(self, a, b):
        if _d(b) == -_DINF:
            raise Undefined("safesub clips: checked by the no-NaN case")
        return self.sub(a, b)

    def safediv(self, a, b):
        b = _d(b)
        if b == 0 or abs(_HI.divide(_ONE, b)) > Decimal(FMAX):
            raise Undefined("safediv clips: checked by the no-NaN case")
        return self.truediv(a, b)


def _in_hi_context(fn):
    def wrapped(*args, **kwargs):
        with decimal.localcontext(_HI):
            return fn(*args, **kwargs)

    wrapped.__name__ = fn.__name__
    return wrapped


for _n, _f in list(vars(Exact).items()):
    if callable(_f) and not _n.startswith("__"):
        setattr(Exact, _n, _in_hi_context(_f))
Exact.const = Exact.lift


# ---------------------------------------------------------------------------------------------------------
# plain-double evaluator (IEEE answers where Python raises)


def _nan_to_undef(r):
    if isinstance(r, complex):
        raise Undefined("complex")
    if isinstance(r, float) and r != r:
        raise Undefined("nan")
    return r


class Float:
    name = "float"

    def lift(self, v):
        return v

    const = lift

    def _bin(fn):  # noqa
        def method(self, a, b):
            try:
                return _nan_to_undef(fn(a, b))
            except (ZeroDivisionError, ValueError, TypeError) as e:
                raise Undefined(type(e).__name__)

        return method

    add = _bin(operator.add)
    sub = _bin(operator.sub)
    mul = _bin(operator.mul)
    truediv = _bin(operator.truediv)
    floordiv = _bin(operator.floordiv)
    mod = _bin(operator.mod)
    max = _bin(lambda a, b: max(a, b))
    min = _bin(lambda a, b: min(a, b))
    eq = _bin(operator.eq)
    ne = _bin(operator.ne)
    lt = _bin(operator.lt)
    le = _bin(operator.le)
    gt = _bin(operator.gt)
    ge = _bin(operator.ge)
    and_ = _bin(operator.and_)
    or_ = _bin(operator.or_)
    xor = _bin(operator.xor)
    lshift = _bin(operator.lshift)
    rshift = _bin(operator.rshift)
    safesub = _bin(operator.sub)
    safediv = _bin(operator.truediv)
    del _bin

    def pow(self, a, b):
        try:
            return _nan_to_undef(a**b)
        except OverflowError:
            if a > 0:
                return INF
            raise Undefined("overflow, negative base")
        except (ZeroDivisionError, ValueError, TypeError) as e:
            raise Undefined(type(e).__name__)

    def neg(self, a):
        return -a

    def pos(self, a):
        return +a

    def abs(self, a):
        return abs(a)

    def invert(self, a):
        if isinstance(a, bool) or not isinstance(a, int):
            raise Undefined("invert outside integers")
        return ~a

    def reciprocal(self, a):
        if a == 0:
            raise Undefined("division by zero")
        return 1.0 / a

    def exp(self, a):
        try:
            return math.exp(a)
        except OverflowError:
            return INF

    def log(self, a):
        if a < 0:
            raise Undefined("log of a negative")
        return math.log(a) if a > 0 else -INF

    def log1p(self, a):
        if a < -1:
            raise Undefined("log1p below -1")
        return math.log1p(a) if a > -1 else -INF

    def sqrt(self, a):
        if a < 0:
            raise Undefined("sqrt of a negative")
        return math.sqrt(a)

    def tanh(self, a):
        return math.tanh(a)

    def atanh(self, a):
        if abs(a) > 1:
            raise Undefined("atanh outside [-1,1]")
        if abs(a) == 1:
            return math.copysign(INF, a)
        return math.atanh(a)

    def sigmoid(self, a):
        if a >= 0:
            return 1.0 / (1.0 + self.exp(-a))
        e = self.exp(a)
        return e / (1.0 + e)

    def lgamma(self, a):
        try:
            return math.lgamma(a)
        except (ValueError, OverflowError) as e:
            raise Undefined(type(e).__name__)

    def logaddexp(self, a, b):
        return lse_fsum([a, b])

    sample = None


def lse_fsum(xs):
    """The reference of the property statement: m + log(fsum(exp(x_k - m))), m = max; -inf when all are -inf."""
    xs = [float(x) for x in xs]
    m = max(xs)
    if m == -INF:
        return -INF
    if m == INF or any(x != x for x in xs):
        raise Undefined("+inf / nan in log space")
    return m + math.log(math.fsum(math.exp(x - m) for x in xs))


EXACT = Exact()
FLOAT = Float()

REF_UNITS = {
    "add": 0.0,
    "mul": 1.0,
    "max": -INF,
    "min": INF,
    "and_": True,
    "or_": False,
    "xor": False,
    "logaddexp": -INF,
}


def knows(name):
    return callable(getattr(Exact, name, None)) and callable(getattr(Float, name, None))


def to_float(e):
    """Reference value -> Python float (a finite exact value beyond the double range becomes +-inf)."""
    if isinstance(e, Decimal):
        return float(e)
    return float(e)


ATOL, RTOL = 1e-9, 1e-7


def close(a, b, atol=ATOL, rtol=RTOL):
    """a: observed float, b: expected float (never nan)."""
    if a != a:
        return False
    if math.isinf(b) or math.isinf(a):
        return a == b
    return abs(a - b) <= atol + rtol * abs(b)


@_in_hi_context
def exact_close(x, y):
    """Two exact values are the same real number (up to the 60-digit transcendental precision)."""
    if _is_int(x) and _is_int(y):
        return x == y
    x, y = _d(x), _d(y)
    if not (x.is_finite() and y.is_finite()):
        return x == y
    return abs(x - y) <= Decimal("1e-40") * (1 + abs(y))


@_in_hi_context
def reference(formula, leaves, atol=ATOL, rtol=RTOL):
    """Evaluate ``formula(A, *leaves)`` in both evaluators.

    Returns ("ok", exact_value, expected_float) | ("undefined", why, None) | ("artefact", why, None)."""
    try:
        e = formula(EXACT, *[EXACT.lift(v) for v in leaves])
    except Undefined as u:
        return "undefined", str(u), None
    if isinstance(e, Decimal) and e.is_finite() and abs(e) > Decimal(FMAX):
        return "artefact", "exact value is finite but beyond the double range", None
    ef = to_float(e)
    try:
        f = float(formula(FLOAT, *leaves))
    except Undefined as u:
        return "artefact", "float evaluation undefined (%s), exact %r" % (u, ef), None
    if not close(f, ef, atol, rtol):
        return "artefact", "double evaluation %r, exact %r" % (f, ef), None
    return "ok", e, ef


# ---------------------------------------------------------------------------------------------------------
# brute-force reductions and einsum in log space / max-plus


def cells(shape):
    return list(itertools.product(*[range(n) for n in shape]))


def reduce_ref(nested, shape, axes, keepdims, fn):
    """Reduce a row-major flat list ``nested`` of the given shape over ``axes`` with fn(list)->value.

    Returns (out_shape, flat list of values in row-major order)."""
    nd = len(shape)
    axes = tuple(sorted(a % nd for a in axes)) if nd else ()
    kept = [d for d in range(nd) if d not in axes]
    strides = [0] * nd
    s = 1
    for d in reversed(range(nd)):
        strides[d] = s
        s *= shape[d]
    out = []
    for okey in itertools.product(*[range(shape[d]) for d in kept]):
        group = []
        for rkey in itertools.product(*[range(shape[d]) for d in axes]):
            idx = [0] * nd
            for d, i in zip(kept, okey):
                idx[d] = i
            for d, i in zip(axes, rkey):
                idx[d] = i
            group.append(nested[sum(i * st for i, st in zip(idx, strides))])
        out.append(fn(group))
    if keepdims:
        oshape = tuple(1 if d in axes else shape[d] for d in range(nd))
    else:
        oshape = tuple(shape[d] for d in kept)
    return oshape, out


def term_sum(vals, tol=1e-12):
    """Sum of the log-space factors of one term.  Undefined when the double-precision sum depends on the order of
    summation (overflow of a partial sum, absorption of a small factor by +-1e308): then no evaluation order is
    privileged and the point says nothing about the implementation."""
    if any(v == -INF for v in vals):
        if any(v == INF for v in vals):
            raise Undefined("inf-inf")
        return -INF
    try:
        exact = math.fsum(vals)
    except OverflowError:
        raise Undefined("term overflows the float range")
    for perm in itertools.permutations(vals):
        s = 0.0
        for v in perm:
            s += v
        if not (abs(s - exact) <= tol * (1.0 + abs(exact))):
            raise Undefined("term depends on the order of summation in double precision")
    return exact


def maxima_representable(operands):
    """The log-space product of the operands' largest finite entries (and of their smallest) is representable."""
    for pick in (max, min):
        ms = []
        for flat in operands:
            fin = [v for v in flat if v != -INF]
            if fin:
                ms.append(pick(fin))
        try:
            term_sum(ms)
        except Undefined:
            return False
    return True


def einsum_ref(equation, operands, sizes, fn):
    """operands: list of (flat row-major list); fn(list of term values)->value.  Returns (out_shape, flat list)."""
    ins, out = equation.split("->")
    ins = ins.split(",")
    contracted = sorted(set("".join(ins)) - set(out))
    res = []
    for okey in itertools.product(*[range(sizes[d]) for d in out]):
        env = dict(zip(out, okey))
        terms = []
        for ckey in itertools.product(*[range(sizes[d]) for d in contracted]):
            env.update(zip(contracted, ckey))
            vals = []
            for dims, flat in zip(ins, operands):
                k = 0
                for d in dims:
                    k = k * sizes[d] + env[d]
                vals.append(flat[k])
            terms.append(term_sum(vals))
        res.append(fn(terms))
    return tuple(sizes[d] for d in out), res
