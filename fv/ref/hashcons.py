"""Boring reference model for C07 (hash-consing / interning).  No funsor import here.

The model knows
  * a pool of *recipes* (source text that builds one object through funsor's public API) together with the
    hand-written structure ("spec") that the recipe must produce under each ambient interpretation;
  * a model state: ambient interpretation, a generation counter per array slot, and for each recipe of the
    explored pool its life-cycle status  N (never built) | H key (a handle is held; key = the spec it was built
    from, arrays as (slot, generation)) | D (dropped, no gc.collect() since) | C (dropped and collected);
  * the transition function of the events and the canonical form of a state.

A spec is a nested tuple:
    ("Variable", name, ("dom", "Real"))            funsor term:  (class name, *constructor args)
    ("arr", slot, gen)                              the array currently/previously bound to a slot
    ("arr?", n)                                     some other array (n = serial given by the harness)
    ("dom", text) / ("Product", (dom, ...))         interned domains
    ("op", class name, ((param, value), ...))       parametrised op instance
    ("type", origin name, (arg text, ...))          parametrised term type
Two objects must be the same object iff their specs are equal: that is the whole model of identity.
Names of bound variables are alpha-mangled by funsor with a fresh counter; specs write them  name__B.
"""
import re

INTERPS = ("eager", "lazy", "reflect", "normalize")
SLOTS = ("s0", "s1", "s2", "tq")  # three array slots and one plain-object slot (owner of bound methods)

FUNSOR_HEADS = frozenset(
    "Variable Number Slice Tensor Binary Unary Reduce Subs Lambda Stack Contraction Delta Gaussian".split()
)
OBJECT_HEADS = FUNSOR_HEADS | {"dom", "Product", "op", "type"}


def DOM(text):
    return ("dom", text)


def V(name, dom):
    return ("Variable", name, DOM(dom))


def OP(cls, **defaults):
    return ("op", cls, tuple(sorted(defaults.items())))


def A(slot):
    return ("arr", slot)  # placeholder; resolve() adds the generation


FRESH = ("arr?",)  # placeholder: an array allocated by the evaluation itself

ADD, MUL, NULL = OP("AddOp"), OP("MulOp"), OP("NullOp")
ELLIPSIS = ("py", "ellipsis", "Ellipsis")
GETITEM0 = OP("GetitemOp", offset=0)

_BOUND = re.compile(r"__BOUND_\d+$")


def norm(x, memo=None):
    """Replace alpha-mangled names  foo__BOUND_17  by  foo__B  everywhere in a struct.  ``memo`` (id -> result)
    lets a caller normalise many sub-structs of one struct in linear time."""
    if isinstance(x, str):
        return _BOUND.sub("__B", x) if "__BOUND" in x else x
    if isinstance(x, tuple):
        if memo is None:
            return tuple(norm(y) for y in x)
        r = memo.get(id(x))
        if r is None:
            r = memo[id(x)] = tuple(norm(y, memo) for y in x)
        return r
    if isinstance(x, frozenset):
        return frozenset(norm(y, memo) for y in x)
    return x


def is_mangled(name):
    return isinstance(name, str) and ("__BOUND" in name or name.endswith("__B"))


def free_mangled(node):
    """Mangled names occurring free (as Variable nodes not bound by an enclosing binder inside ``node``)."""
    if isinstance(node, frozenset):
        out = set()
        for y in node:
            out |= free_mangled(y)
        return out
    if not isinstance(node, tuple) or not node:
        return set()
    head = node[0]
    if head == "Variable":
        return {node[1]} if is_mangled(node[1]) else set()
    if head in ("Reduce", "Contraction"):
        # Reduce(op, arg, reduced_vars) / Contraction(red_op, bin_op, reduced_vars, terms)
        rv = node[3]
        bound = {v[1] for v in rv}
        body = node[2] if head == "Reduce" else node[4]
        return free_mangled(body) - bound
    if head == "Lambda":
        return free_mangled(node[2]) - {node[1][1]}
    if head == "Subs":
        keys = {k for k, _ in node[2]}
        out = free_mangled(node[1]) - keys
        for _, v in node[2]:
            out |= free_mangled(v)
        return out
    out = set()
    for y in node[1:] if isinstance(head, str) else node:
        out |= free_mangled(y)
    return out


def is_object(node):
    return isinstance(node, tuple) and len(node) > 0 and isinstance(node[0], str) and node[0] in OBJECT_HEADS


def nodes(spec):
    """All object nodes of a spec (the spec itself included), closed w.r.t. mangled names, in pre-order."""
    out = []

    def rec(x):
        if isinstance(x, frozenset):
            for y in sorted(x, key=repr):
                rec(y)
            return
        if not isinstance(x, tuple):
            return
        if is_object(x):
            if x[0] not in FUNSOR_HEADS or not free_mangled(x):
                out.append(x)
            if x[0] in ("dom", "op", "type"):
                return
            for y in x[1:]:
                rec(y)
        else:
            for y in x:
                rec(y)

    rec(spec)
    return out


def resolve(spec, gens):
    """Fill the current generation into the ("arr", slot) placeholders."""
    if isinstance(spec, tuple):
        if len(spec) == 2 and spec[0] == "arr":
            return ("arr", spec[1], gens[spec[1]])
        return tuple(resolve(y, gens) for y in spec)
    if isinstance(spec, frozenset):
        return frozenset(resolve(y, gens) for y in spec)
    return spec


def relativise(key, gens):
    """Canonical text of a held key: generations relative to the current one, foreign serials erased."""
    if isinstance(key, tuple):
        if len(key) == 3 and key[0] == "arr":
            return ("arr", key[1], gens[key[1]] - key[2])
        if len(key) == 2 and key[0] == "arr?":
            return ("arr?",)
        return tuple(relativise(y, gens) for y in key)
    if isinstance(key, frozenset):
        return tuple(sorted((relativise(y, gens) for y in key), key=repr))
    return key


def matches(expected, actual):
    """expected == actual where the placeholder ("arr?",) matches any foreign array ("arr?", n)."""
    if expected == FRESH:
        return isinstance(actual, tuple) and len(actual) == 2 and actual[0] == "arr?"
    if isinstance(expected, tuple):
        return (
            isinstance(actual, tuple)
            and len(actual) == len(expected)
            and all(matches(e, a) for e, a in zip(expected, actual))
        )
    if isinstance(expected, frozenset):
        if not isinstance(actual, frozenset) or len(actual) != len(expected):
            return False
        rest = list(actual)
        for e in expected:
            for a in rest:
                if matches(e, a):
                    rest.remove(a)
                    break
            else:
                return False
        return True
    return type(expected) is type(actual) and expected == actual


def first_diff(expected, actual, path="{}"):
    """(path template, expected leaf, actual leaf) of the first difference, or None.

    ``path.format(expr)`` is a python expression reaching the differing field from the object ``expr``: term nodes
    are indexed through ``_ast_values``, plain tuples by position."""
    if matches(expected, actual):
        return None
    if isinstance(expected, tuple) and isinstance(actual, tuple) and len(expected) == len(actual):
        if is_object(expected) and is_object(actual) and expected[0] == actual[0] and expected[0] in FUNSOR_HEADS:
            for i, (e, a) in enumerate(zip(expected[1:], actual[1:])):
                d = first_diff(e, a, path + "._ast_values[%d]" % i)
                if d:
                    return d
        elif not is_object(expected) and not is_object(actual) and expected[:1] != ("arr",):
            for i, (e, a) in enumerate(zip(expected, actual)):
                d = first_diff(e, a, path + "[%d]" % i)
                if d:
                    return d
    if (
        isinstance(expected, frozenset)
        and isinstance(actual, frozenset)
        and len(expected) == len(actual) == 1
    ):
        return first_diff(next(iter(expected)), next(iter(actual)), "next(iter(" + path + "))")
    return (path, expected, actual)


def has_arrays(spec):
    if isinstance(spec, tuple):
        if spec[:1] in (("arr",), ("arr?",)):
            return True
        return any(has_arrays(y) for y in spec)
    if isinstance(spec, frozenset):
        return any(has_arrays(y) for y in spec)
    return False


def slots_of(spec):
    out = set()
    if isinstance(spec, tuple):
        if spec[:1] == ("arr",):
            out.add(spec[1])
        else:
            for y in spec:
                out |= slots_of(y)
    elif isinstance(spec, frozenset):
        for y in spec:
            out |= slots_of(y)
    return out


# ---------------------------------------------------------------------------
# recipes


class Recipe:
    def __init__(self, name, kind, src, expect, alt=None, inputs=None, output=None, holds=(), watch=False, group=None):
        self.name, self.kind, self.src = name, kind, src
        self.alts = [] if alt is None else [alt] if isinstance(alt, str) else list(alt)  # other spellings of src
        if not isinstance(expect, dict):
            expect = {i: expect for i in INTERPS}
        self.expect = expect  # interp -> spec with placeholders
        self.inputs = inputs  # {name: domain text} of the result (terms; same under every interpretation)
        self.output = output  # domain text
        s = set()
        for e in expect.values():
            s |= slots_of(e)
        self.slots = tuple(sorted(s))
        self.interp_sensitive = kind == "term"
        self.holds = tuple(holds)  # keys of objects a handle keeps alive besides its constructor arguments (.output)
        self.watch = watch  # term recipes: also predict the liveness of the ops / domains it is built from
        self.group = group or kind  # sub-pools pair recipes of one group


def _lz(lazy_spec, eager_spec, reflect_spec=None, normalize_spec=None):
    return {
        "lazy": lazy_spec,
        "reflect": lazy_spec if reflect_spec is None else reflect_spec,
        "eager": eager_spec,
        "normalize": eager_spec if normalize_spec is None else normalize_spec,
    }


_B2 = "Bint[2]"
_T0 = lambda dtype: ("Tensor", A("s0"), (("iq", DOM(_B2)),), dtype)  # noqa: E731
_T1IJ = ("Tensor", A("s1"), (("iq", DOM(_B2)), ("jq", DOM(_B2))), "real")
_T1JI = ("Tensor", A("s1"), (("jq", DOM(_B2)), ("iq", DOM(_B2))), "real")
_T2R = ("Tensor", A("s2"), (), "real")
_X, _Y, _Z = V("xq", "Real"), V("yq", "Real"), V("zq", "Real")
_IB = V("iq__B", _B2)
_VI = ("Binary", GETITEM0, V("vq", "Reals[2]"), _IB)
_WI = ("Binary", GETITEM0, V("wq", "Reals[2]"), _IB)

_OD = "OrderedDict"

RECIPE_LIST = [
    # ---- terms -----------------------------------------------------------------------------------------
    Recipe("var", "term", 'Variable("xq", Real)', _X, inputs={"xq": "Real"}, output="Real",
           alt=['Variable(name="xq", output=Real)', 'Variable(output=Real, name="xq")', 'Variable("xq", output=Real)']),
    Recipe("var7", "term", 'Variable("qq", Bint[7])', V("qq", "Bint[7]"), inputs={"qq": "Bint[7]"}, output="Bint[7]"),
    Recipe("num", "term", "Number(2.5)", ("Number", 2.5, "real"), alt='Number(2.5, "real")', inputs={}, output="Real"),
    Recipe(
        "slice", "term", 'Slice("iq", 0, 4, 2, 4)', ("Slice", "iq", 0, 4, 2, 4), alt='Slice("iq", 0, 9, 2, 4)',
        inputs={"iq": _B2}, output="Bint[4]",
    ),
    Recipe("t0a", "term", 'Tensor(s0, OrderedDict([("iq", Bint[2])]), 2)', _T0(2), alt='Tensor(s0, (("iq", Bint[2]),), 2)',
           inputs={"iq": _B2}, output=_B2),
    Recipe("t0b", "term", 'Tensor(s0, OrderedDict([("iq", Bint[2])]), 3)', _T0(3), inputs={"iq": _B2}, output="Bint[3]"),
    Recipe("t1ij", "term", 'Tensor(s1, OrderedDict([("iq", Bint[2]), ("jq", Bint[2])]))', _T1IJ,
           alt='Tensor(s1, OrderedDict([("iq", Bint[2]), ("jq", Bint[2])]), "real")',
           inputs={"iq": _B2, "jq": _B2}, output="Real"),
    Recipe("t1ji", "term", 'Tensor(s1, OrderedDict([("jq", Bint[2]), ("iq", Bint[2])]))', _T1JI,
           inputs={"iq": _B2, "jq": _B2}, output="Real"),
    Recipe("t2r", "term", "Tensor(s2)", _T2R, alt="Tensor(s2, OrderedDict())", inputs={}, output="Reals[2]"),
    Recipe(
        "bin", "term", 'Variable("xq", Real) + Variable("yq", Real)',
        _lz(("Binary", ADD, _X, _Y), ("Contraction", NULL, ADD, frozenset(), (_X, _Y))),
        alt=[
            'Binary(ops.add, Variable("xq", Real), Variable("yq", Real))',
            'Binary(op=ops.add, lhs=Variable("xq", Real), rhs=Variable("yq", Real))',
            'Binary(ops.add, rhs=Variable("yq", Real), lhs=Variable("xq", Real))',
            'Binary(ops.add, Variable("xq", Real), rhs=Variable("yq", Real))',
            'Binary(rhs=Variable("yq", Real), lhs=Variable("xq", Real), op=ops.add)',
        ],
        inputs={"xq": "Real", "yq": "Real"}, output="Real",
    ),
    Recipe(
        "bsub", "term", 'Binary(ops.sub, Number(5.5), Variable("yq", Real))',
        _lz(
            ("Binary", OP("SubOp"), ("Number", 5.5, "real"), _Y),
            # normal form of a - b:  a + b * (-1)
            ("Contraction", NULL, ADD, frozenset(),
             (("Number", 5.5, "real"), ("Contraction", NULL, MUL, frozenset(), (_Y, ("Number", -1, "real"))))),  # an int -1 with dtype "real"
        ),
        alt=[
            'Binary(op=ops.sub, lhs=Number(5.5), rhs=Variable("yq", Real))',
            'Binary(ops.sub, rhs=Variable("yq", Real), lhs=Number(5.5))',
            'Binary(rhs=Variable("yq", Real), op=ops.sub, lhs=Number(5.5))',
            'Number(5.5) - Variable("yq", Real)',
        ],
        inputs={"yq": "Real"}, output="Real",
    ),
    Recipe(
        "binT", "term", 'Tensor(s1, OrderedDict([("iq", Bint[2]), ("jq", Bint[2])])) + Variable("yq", Real)',
        _lz(("Binary", ADD, _T1IJ, _Y), ("Contraction", NULL, ADD, frozenset(), (_T1IJ, _Y))),
        inputs={"iq": _B2, "jq": _B2, "yq": "Real"}, output="Real",
    ),
    Recipe(
        "binTT", "term", "Tensor(s2) + Tensor(s2)",
        _lz(
            ("Binary", ADD, _T2R, _T2R),
            ("Tensor", FRESH, (), "real"),  # eager: evaluated, the data array is allocated by the evaluation
            normalize_spec=("Contraction", NULL, ADD, frozenset(), (_T2R, _T2R)),
        ),
        inputs={}, output="Reals[2]",
    ),
    Recipe(
        "red", "term", 'Variable("vq", Reals[2])[Variable("iq", Bint[2])].reduce(ops.add, "iq")',
        _lz(("Reduce", ADD, _VI, frozenset({_IB})), ("Contraction", ADD, NULL, frozenset({_IB}), (_VI,))),
        alt=[
            'Reduce(ops.add, Variable("vq", Reals[2])[Variable("iq", Bint[2])], frozenset({Variable("iq", Bint[2])}))',
            'Reduce(op=ops.add, arg=Variable("vq", Reals[2])[Variable("iq", Bint[2])], '
            'reduced_vars=frozenset({Variable("iq", Bint[2])}))',
            'Reduce(reduced_vars=frozenset({Variable("iq", Bint[2])}), '
            'arg=Variable("vq", Reals[2])[Variable("iq", Bint[2])], op=ops.add)',
            'Reduce(ops.add, reduced_vars=frozenset({Variable("iq", Bint[2])}), '
            'arg=Variable("vq", Reals[2])[Variable("iq", Bint[2])])',
        ],
        inputs={"vq": "Reals[2]"}, output="Real",
    ),
    Recipe(
        "subs", "term", 'Subs(Variable("xq", Real) + Variable("zq", Real), (("xq", Variable("yq", Real)),))',
        _lz(
            ("Binary", ADD, _Y, _Z),
            ("Contraction", NULL, ADD, frozenset(), (_Y, _Z)),
            reflect_spec=("Subs", ("Binary", ADD, V("xq__B", "Real"), _Z), (("xq__B", _Y),)),
        ),
        alt=[
            'Subs(arg=Variable("xq", Real) + Variable("zq", Real), subs=(("xq", Variable("yq", Real)),))',
            'Subs(subs=(("xq", Variable("yq", Real)),), arg=Variable("xq", Real) + Variable("zq", Real))',
            '(Variable("xq", Real) + Variable("zq", Real))(xq=Variable("yq", Real))',
            '(Variable("xq", Real) + Variable("zq", Real))(Variable("yq", Real))',
        ],
        inputs={"yq": "Real", "zq": "Real"}, output="Real",
    ),
    Recipe(
        # f(**kwargs): the substitution is ordered by f.inputs, not by the caller's keyword order
        "subs2", "term", '(Variable("xq", Real) + Variable("zq", Real))(xq=Variable("yq", Real), zq=Variable("uq", Real))',
        _lz(
            ("Binary", ADD, _Y, V("uq", "Real")),
            ("Contraction", NULL, ADD, frozenset(), (_Y, V("uq", "Real"))),
            reflect_spec=("Subs", ("Binary", ADD, V("xq__B", "Real"), V("zq__B", "Real")),
                          (("xq__B", _Y), ("zq__B", V("uq", "Real")))),
        ),
        alt=[
            '(Variable("xq", Real) + Variable("zq", Real))(zq=Variable("uq", Real), xq=Variable("yq", Real))',
            '(Variable("xq", Real) + Variable("zq", Real))(Variable("yq", Real), Variable("uq", Real))',
            '(Variable("xq", Real) + Variable("zq", Real))(Variable("yq", Real), zq=Variable("uq", Real))',
            'Subs(Variable("xq", Real) + Variable("zq", Real), (("xq", Variable("yq", Real)), ("zq", Variable("uq", Real))))',
            'Subs(subs=(("xq", Variable("yq", Real)), ("zq", Variable("uq", Real))), arg=Variable("xq", Real) + Variable("zq", Real))',
        ],
        inputs={"yq": "Real", "uq": "Real"}, output="Real",
    ),
    Recipe(
        "lam", "term", 'Lambda(Variable("iq", Bint[2]), Variable("vq", Reals[2])[Variable("iq", Bint[2])])',
        ("Lambda", _IB, _VI),
        alt=[
            'Lambda(var=Variable("iq", Bint[2]), expr=Variable("vq", Reals[2])[Variable("iq", Bint[2])])',
            'Lambda(expr=Variable("vq", Reals[2])[Variable("iq", Bint[2])], var=Variable("iq", Bint[2]))',
        ],
        inputs={"vq": "Reals[2]"}, output="Reals[2]",
    ),
    Recipe(
        "stack", "term", 'Stack("kq", (Variable("xq", Real), Variable("yq", Real)))', ("Stack", "kq", (_X, _Y)),
        alt=[
            'Stack(name="kq", parts=(Variable("xq", Real), Variable("yq", Real)))',
            'Stack(parts=(Variable("xq", Real), Variable("yq", Real)), name="kq")',
        ],
        inputs={"kq": _B2, "xq": "Real", "yq": "Real"}, output="Real",
    ),
    Recipe(
        "ctr", "term",
        'Contraction(ops.add, ops.mul, frozenset({Variable("iq", Bint[2])}), '
        'Variable("vq", Reals[2])[Variable("iq", Bint[2])], Variable("wq", Reals[2])[Variable("iq", Bint[2])])',
        ("Contraction", ADD, MUL, frozenset({_IB}), (_VI, _WI)),
        alt=[
            'Contraction(red_op=ops.add, bin_op=ops.mul, reduced_vars=frozenset({Variable("iq", Bint[2])}), '
            'terms=(Variable("vq", Reals[2])[Variable("iq", Bint[2])], Variable("wq", Reals[2])[Variable("iq", Bint[2])]))',
            'Contraction(terms=(Variable("vq", Reals[2])[Variable("iq", Bint[2])], Variable("wq", Reals[2])[Variable("iq", Bint[2])]), '
            'reduced_vars=frozenset({Variable("iq", Bint[2])}), bin_op=ops.mul, red_op=ops.add)',
        ],
        inputs={"vq": "Reals[2]", "wq": "Reals[2]"}, output="Real",
    ),
    Recipe(
        "delta", "term", 'Delta("zq", Tensor(s2))', ("Delta", (("zq", (_T2R, ("Number", 0.0, "real"))),)),
        alt='Delta("zq", Tensor(s2), Number(0.0))', inputs={"zq": "Reals[2]"}, output="Real",
    ),
    Recipe(
        "gauss", "term", 'Gaussian(white_vec=s2, prec_sqrt=s1, inputs=OrderedDict([("gq", Reals[2])]))',
        ("Gaussian", A("s2"), A("s1"), (("gq", DOM("Reals[2]")),)),
        alt='Gaussian(s2, s1, (("gq", Reals[2]),))', inputs={"gq": "Reals[2]"}, output="Real",
    ),
    # ---- plain-index slicing of a lazy term: a fresh parametrised GetsliceOp, distinctive input and result domains
    # (ops.getslice -> find_domain); the op and both domains must be reclaimed with the term
    Recipe(
        "sl1", "term", 'Variable("vs", Reals[13, 11])[2:11:3]',
        ("Unary", OP("GetsliceOp", index=(("slice", 2, 11, 3),)), V("vs", "Reals[13,11]")),
        alt=[
            'Unary(ops.GetsliceOp((slice(2, 11, 3),)), Variable("vs", Reals[13, 11]))',
            'Unary(arg=Variable("vs", Reals[13, 11]), op=ops.GetsliceOp(slice(2, 11, 3)))',
        ],
        inputs={"vs": "Reals[13,11]"}, output="Reals[3,11]", holds=[DOM("Reals[3,11]")], watch=True, group="slicing",
    ),
    Recipe(
        "sl2", "term", 'Variable("vs", Reals[13, 11])[..., 0]',
        ("Unary", OP("GetsliceOp", index=(ELLIPSIS, 0)), V("vs", "Reals[13,11]")),
        inputs={"vs": "Reals[13,11]"}, output="Reals[13]", holds=[DOM("Reals[13]")], watch=True, group="slicing",
    ),
    Recipe(
        "sl3", "term", 'Variable("vs", Reals[13, 11])[None]',
        ("Unary", OP("GetsliceOp", index=(None,)), V("vs", "Reals[13,11]")),
        inputs={"vs": "Reals[13,11]"}, output="Reals[1,13,11]", holds=[DOM("Reals[1,13,11]")], watch=True, group="slicing",
    ),
    # ---- domains ---------------------------------------------------------------------------------------
    Recipe("dB7", "dom", "Bint[7]", DOM("Bint[7]")),
    Recipe("dB75", "dom", "Bint[7, 5]", DOM("Bint[7,5]")),
    Recipe("dR5", "dom", "Reals[5]", DOM("Reals[5]"), alt='Array["real", (5,)]'),
    Recipe("dR7", "dom", "Reals[7]", DOM("Reals[7]")),
    Recipe("dR57", "dom", "Reals[5, 7]", DOM("Reals[5,7]"), alt='Array["real", (5, 7)]'),
    Recipe("dR1311", "dom", "Reals[13, 11]", DOM("Reals[13,11]")),
    Recipe("dProd", "dom", "Product[Bint[7], Reals[5]]", ("Product", (DOM("Bint[7]"), DOM("Reals[5]")))),
    Recipe("dProd2", "dom", "Product[Bint[7], Reals[7]]", ("Product", (DOM("Bint[7]"), DOM("Reals[7]")))),
    # ---- parametrised ops ------------------------------------------------------------------------------
    Recipe("oS0", "op", "ops.SumOp(-3, False)", OP("SumOp", axis=-3, keepdims=False), alt="ops.SumOp(axis=-3)"),
    Recipe("oS1", "op", "ops.SumOp(-3, True)", OP("SumOp", axis=-3, keepdims=True), alt="ops.SumOp(keepdims=True, axis=-3)"),
    Recipe("oS2", "op", "ops.SumOp(-4, False)", OP("SumOp", axis=-4, keepdims=False), alt="ops.SumOp(-4)"),
    Recipe("oG5", "op", "ops.GetitemOp(5)", OP("GetitemOp", offset=5)),
    Recipe("oG7", "op", "ops.GetitemOp(7)", OP("GetitemOp", offset=7), alt="ops.GetitemOp(offset=7)"),
    Recipe("oRs", "op", "ops.ReshapeOp((7, 5))", OP("ReshapeOp", shape=(7, 5)), alt="ops.ReshapeOp(shape=(7, 5))"),
    Recipe("oRs2", "op", "ops.ReshapeOp((5, 7))", OP("ReshapeOp", shape=(5, 7))),
    Recipe("oSl3", "op", "ops.GetsliceOp((slice(0, 7, 3),))", OP("GetsliceOp", index=(("slice", 0, 7, 3),))),
    Recipe("oSl", "op", "ops.GetsliceOp((slice(0, 7, 5),))", OP("GetsliceOp", index=(("slice", 0, 7, 5),)),
           alt="ops.GetsliceOp(index=(slice(0, 7, 5),))"),
    # argument tuples that differ only in nesting / grouping / position of equal atoms
    Recipe("oSlA1", "op", "ops.GetsliceOp((slice(None), None))", OP("GetsliceOp", index=(("slice", None, None, None), None))),
    Recipe("oSlA2", "op", "ops.GetsliceOp((None, slice(None)))", OP("GetsliceOp", index=(None, ("slice", None, None, None)))),
    Recipe("oSlB1", "op", "ops.GetsliceOp((slice(None),))", OP("GetsliceOp", index=(("slice", None, None, None),)),
           alt="ops.GetsliceOp(slice(None))"),  # a bare index is the 1-tuple of it
    Recipe("oSlB2", "op", "ops.GetsliceOp((None, None, None))", OP("GetsliceOp", index=(None, None, None))),
    Recipe("oSlC1", "op", "ops.GetsliceOp((slice(1, 2),))", OP("GetsliceOp", index=(("slice", 1, 2, None),)),
           alt="ops.GetsliceOp(index=slice(1, 2))"),
    Recipe("oSlC2", "op", "ops.GetsliceOp((1, 2, None))", OP("GetsliceOp", index=(1, 2, None))),
    Recipe("oSf1", "op", "ops.SumOp((-3, -4), False)", OP("SumOp", axis=(-3, -4), keepdims=False), alt="ops.SumOp(axis=(-3, -4))"),
    Recipe("oSf2", "op", "ops.SumOp(-3, (-4, False))", OP("SumOp", axis=-3, keepdims=(-4, False)),
           alt="ops.SumOp(keepdims=(-4, False), axis=-3)"),
    Recipe("oRs3", "op", "ops.ReshapeOp(((7, 5),))", OP("ReshapeOp", shape=((7, 5),))),
    # start None vs 0, step None vs 1 (for a negative step, start None and start 0 even MEAN different things)
    Recipe("oSlD1", "op", "ops.GetsliceOp((slice(None, None, -1),))", OP("GetsliceOp", index=(("slice", None, None, -1),))),
    Recipe("oSlD2", "op", "ops.GetsliceOp((slice(0, None, -1),))", OP("GetsliceOp", index=(("slice", 0, None, -1),))),
    Recipe("oSlE1", "op", "ops.GetsliceOp((slice(None, 3),))", OP("GetsliceOp", index=(("slice", None, 3, None),)),
           alt="ops.GetsliceOp(slice(None, 3))"),
    Recipe("oSlE2", "op", "ops.GetsliceOp((slice(0, 3),))", OP("GetsliceOp", index=(("slice", 0, 3, None),))),
    Recipe("oSlF2", "op", "ops.GetsliceOp((slice(None, None, 1),))", OP("GetsliceOp", index=(("slice", None, None, 1),))),
    # wrapped ops (WrappedOpMeta): keyed by the identity of a callable, bound methods by (id(owner), function);
    # tq is the object of slot "tq"; every attribute access tq.ladj creates a NEW bound-method object
    Recipe("oW1", "op", "ops.LogAbsDetJacobianOp(tq.ladj)", OP("LogAbsDetJacobianOp", fn=("method", A("tq"), "ladj")),
           alt="ops.LogAbsDetJacobianOp(fn=tq.ladj)"),
    Recipe("oW2", "op", "ops.LogAbsDetJacobianOp(tq.ladj2)", OP("LogAbsDetJacobianOp", fn=("method", A("tq"), "ladj2")),
           alt="ops.LogAbsDetJacobianOp(tq.ladj2)"),
    Recipe("oW3", "op", "ops.LogAbsDetJacobianOp(_fq)", OP("LogAbsDetJacobianOp", fn=("fn", "_fq")),
           alt="ops.LogAbsDetJacobianOp(fn=_fq)"),
    Recipe("oW4", "op", "ops.WrappedTransformOp(tq)", OP("WrappedTransformOp", fn=A("tq"), validate_args=True),
           alt="ops.WrappedTransformOp(fn=tq, validate_args=True)"),
    Recipe("oW5", "op", "ops.WrappedTransformOp(tq.fwd)", OP("WrappedTransformOp", fn=("method", A("tq"), "fwd"), validate_args=True),
           alt="ops.WrappedTransformOp(fn=tq.fwd)"),
    Recipe("oW6", "op", "ops.WrappedTransformOp(tq, validate_args=False)", OP("WrappedTransformOp", fn=A("tq"), validate_args=False)),
    Recipe("oSlS", "op", "ops.GetsliceOp((slice(2, 11, 3),))", OP("GetsliceOp", index=(("slice", 2, 11, 3),)),
           alt="ops.GetsliceOp(slice(2, 11, 3))"),
    Recipe("oSl2", "op", "ops.GetsliceOp((slice(0, 7), 5))", OP("GetsliceOp", index=(("slice", 0, 7, None), 5))),
    # ---- parametrised term types -----------------------------------------------------------------------
    Recipe("tN1", "type", "Number[complex, bytes]", ("type", "Number", ("complex", "bytes"))),
    Recipe("tN2", "type", "Number[bytes, complex]", ("type", "Number", ("bytes", "complex"))),
    Recipe("tT", "type", "Tensor[complex, bytes, complex]", ("type", "Tensor", ("complex", "bytes", "complex"))),
]
RECIPES = {r.name: r for r in RECIPE_LIST}
ORDER = {r.name: i for i, r in enumerate(RECIPE_LIST)}

# keys whose liveness the model predicts although they are not funsor terms: exactly the objects the domain / op /
# type recipes create (sizes 5 and 7 are used by nothing else in the library or the harness)
def strip_gens(key):
    """("arr", slot, gen) -> ("arr", slot) everywhere."""
    if isinstance(key, tuple):
        if len(key) == 3 and key[0] == "arr":
            return key[:2]
        return tuple(strip_gens(y) for y in key)
    if isinstance(key, frozenset):
        return frozenset(strip_gens(y) for y in key)
    return key


PREDICTED_NONTERM_KEYS = set()
for _r in RECIPE_LIST:
    if _r.kind != "term" or _r.watch:
        for _e in _r.expect.values():
            PREDICTED_NONTERM_KEYS.update(n for n in nodes(_e) if n[0] not in FUNSOR_HEADS)
        PREDICTED_NONTERM_KEYS.update(_r.holds)


def liveness_predicted(key):
    return key[0] in FUNSOR_HEADS or strip_gens(key) in PREDICTED_NONTERM_KEYS


# ---------------------------------------------------------------------------
# model state and transitions


class MState:
    __slots__ = ("interp", "gens", "status")

    def __init__(self, pool):
        self.interp = "eager"
        self.gens = {s: 0 for s in SLOTS}
        self.status = {r: ("N",) for r in pool}

    def copy(self):
        m = MState(())
        m.interp = self.interp
        m.gens = dict(self.gens)
        m.status = dict(self.status)
        return m

    def held(self):
        return [r for r, st in self.status.items() if st[0] == "H"]


def expected_key(ms, r):
    return resolve(RECIPES[r].expect[ms.interp], ms.gens)


def reachable(ms):
    """Keys of all objects that a held handle keeps alive (the handle itself and everything nested in it)."""
    out = set()
    for r, st in ms.status.items():
        if st[0] == "H":
            out.update(nodes(st[1]))
            out.update(RECIPES[r].holds)
    return out


def unmangle(x):
    """The spec a bound term had BEFORE alpha-mangling (names  foo__B -> foo)."""
    if isinstance(x, str):
        return x[:-3] if x.endswith("__B") else x
    if isinstance(x, tuple):
        return tuple(unmangle(y) for y in x)
    if isinstance(x, frozenset):
        return frozenset(unmangle(y) for y in x)
    return x


def retained(ms):
    """Keys of all objects that MAY be alive: ``reachable`` plus the pre-mangling arguments of held bound terms.
    (The cons-cache entry of a bound term is keyed by the arguments as written -- un-mangled sub-terms -- and a
    WeakValueDictionary holds its keys strongly for as long as the value lives.)"""
    out = reachable(ms)
    for st in ms.status.values():
        if st[0] == "H":
            u = unmangle(st[1])
            if u != st[1]:
                out.update(nodes(u))
    return out


def pool_slots(pool):
    s = set()
    for r in pool:
        s.update(RECIPES[r].slots)
    return tuple(sorted(s))


def menu(ms, pool, observers=False):
    """Enabled events, simplest first.  Events irrelevant to every recipe of the pool are not offered."""
    ev = [("c", r) for r in pool]
    ev += [("d", r) for r in pool if ms.status[r][0] == "H"]
    ev.append(("gc",))
    ev += [("ra", s) for s in pool_slots(pool)]
    if any(RECIPES[r].interp_sensitive for r in pool):
        ev += [("sw", i) for i in INTERPS if i != ms.interp]
    if observers:
        ev += observer_events(ms, pool)
    return ev


def observer_events(ms, pool):
    """Events that never change the canonical state: round trips of held handles."""
    out = []
    for r in pool:
        if ms.status[r][0] == "H":
            out += [("cp", r), ("pk", r), ("dc", r)]
            if RECIPES[r].kind == "term":
                out.append(("ri", r))
    return out


def model_step(ms, ev, actual_key=None):
    """Apply one event to the model IN PLACE.  For construct, ``actual_key`` is the key the harness derived from
    the real object after it was matched against ``expected_key`` (it only adds the serial of foreign arrays)."""
    k = ev[0]
    if k == "c":
        key = expected_key(ms, ev[1]) if actual_key is None else actual_key
        ms.status[ev[1]] = ("H", key)
    elif k == "d":
        assert ms.status[ev[1]][0] == "H"
        ms.status[ev[1]] = ("D",)
    elif k == "gc":
        for r, st in ms.status.items():
            if st[0] == "D":
                ms.status[r] = ("C",)
    elif k == "ra":
        ms.gens[ev[1]] += 1
    elif k == "sw":
        ms.interp = ev[1]
    elif k in ("cp", "pk", "dc", "ri"):
        pass
    else:
        raise ValueError(ev)
    return ms


def canon(ms, pool):
    """Canonical state: ambient interpretation, generation parity of the pool's slots, status of every recipe
    (held keys with generations relative to the current one)."""
    sts = []
    for r in pool:
        st = ms.status[r]
        if st[0] == "H":
            sts.append((r, "H", relativise(st[1], ms.gens)))
        else:
            sts.append((r, st[0]))
    return (ms.interp, tuple((s, ms.gens[s] % 2) for s in pool_slots(pool)), tuple(sts))


def canon_text(c):
    """Pool-independent text of a canonical state (never-built recipes are not mentioned)."""
    interp, par, sts = c
    parts = []
    for st in sorted(sts):
        if st[1] == "N":
            continue
        if st[1] == "H":
            parts.append("%s=H%s" % (st[0], _short(st[2])))
        else:
            parts.append("%s=%s" % (st[0], st[1]))
    used = set()
    for st in sts:
        if st[1] != "N":
            used.update(RECIPES[st[0]].slots)
    ptxt = ",".join("%s%%2=%d" % (s, p) for s, p in par if s in used)
    return "%s|%s|%s" % (interp, ptxt, " ".join(parts))


def _short(relkey):
    """Compact text of a relativised key: class of the result and the array generations it is built on."""
    arrs = []

    def rec(x):
        if isinstance(x, tuple):
            if len(x) == 3 and x[0] == "arr":
                arrs.append("%s@-%d" % (x[1], x[2]))
                return
            if x == ("arr?",):
                arrs.append("fresh")
                return
            for y in x:
                rec(y)

    rec(relkey)
    return "[%s%s]" % (relkey[0], ("," + ",".join(arrs)) if arrs else "")
