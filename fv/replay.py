"""CLI: /venv/bin/python -m fv.replay <path>  -- re-execute one recorded violation without the explorer.

Exit 1 (and a VIOLATION line) if the violation reproduces, 0 if the case now passes."""
import importlib
import json
import os
import sys


def main():
    path = sys.argv[1]
    if os.environ.get("PYTHONHASHSEED") != "0":
        env = dict(os.environ, PYTHONHASHSEED="0")
        os.execve(sys.executable, [sys.executable, "-m", "fv.replay"] + sys.argv[1:], env)
    os.environ["FUNSOR_VERIF"] = "1"
    from fv import core

    if core.REPO not in sys.path:
        sys.path.insert(0, core.REPO)
    with open(path) as f:
        body = json.load(f)
    pid = body["property"]
    mod = importlib.import_module("fv.props." + pid.lower())
    core._worker_init(mod.__name__, core.REPO)
    case = body["case"]
    if hasattr(mod, "replay"):
        out = mod.replay(body)
    else:
        case = mod.case_from_json(case) if hasattr(mod, "case_from_json") else case
        out = mod.check(case, body.get("seed", 0))
    print(json.dumps({k: v for k, v in out.items() if k != "violation"}, default=str))
    if out["status"] == "violation":
        v = out["violation"]
        print("site=%s features=%s\n%s" % (v["site"], v.get("features"), v["message"]))
        if v.get("snippet"):
            print("--- stand-alone snippet ---\n" + v["snippet"])
        print("VIOLATION property=%s replay=%s" % (pid, path))
        sys.exit(1)
    sys.exit(0)


if __name__ == "__main__":
    main()
