"""C16, explicit-state families over FRESH objects (never funsor's own registries):

``reg``    histories of  register(signature) / dispatch / cache-clear  events on a fresh PartialDispatcher or
           KeyedRegistry: every dispatch answer is compared with the reference most-specific match over the
           signatures registered SO FAR, and the last one also with a fresh object that was given the same
           registrations and no earlier dispatch.
``alias``  ordered pairs (and triples) of values that compare and hash equal but differ in nested element types:
           deep_type of each, computed in that order in one process, must be the type the reference computes from
           the value alone; the value must be an instance of it; and a fresh dispatcher whose patterns discriminate
           the nested element types must pick the rule for the value's own types.
"""
import itertools

import numpy as np

from .. import core
from ..ref import dispatch as ref

# ---------------------------------------------------------------------------
# reg: shapes

_SHAPES = None


def shapes():
    """name -> {"keyed", "adds": [(key index | None, signature)], "values": [args tuple], "vias": [...]}"""
    global _SHAPES
    if _SHAPES is None:
        from collections import OrderedDict

        import funsor
        from funsor import Bint, Real, ops
        from funsor.tensor import Tensor
        from funsor.terms import Binary, Funsor, Number, Unary, Variable

        assert funsor.get_backend() == "numpy"
        t = Tensor(np.array([0.5, 1.5]), OrderedDict(i=Bint[2]))
        n = Number(1.5)
        x = Variable("x", Real)
        _SHAPES = OrderedDict()
        # a chain: default < (Funsor,) < (Tensor,)
        _SHAPES["chain"] = {
            "keyed": False,
            "adds": [(None, (Funsor,)), (None, (Tensor,))],
            "values": [(t,), (n,)],
            "vias": ["partial_call", "call", "dispatch"],
        }
        # a diamond on two arguments
        _SHAPES["diamond"] = {
            "keyed": False,
            "adds": [(None, (Funsor, Funsor)), (None, (Tensor, Funsor)), (None, (Funsor, Tensor)), (None, (Tensor, Tensor))],
            "values": [(t, t), (t, n)],
            "vias": ["partial_call", "call"],
        }
        # the demo of the seeded history: a general op pattern, then a more specific one
        _SHAPES["oprule"] = {
            "keyed": False,
            "adds": [(None, (ops.AssociativeOp, Funsor, Funsor)), (None, (ops.AddOp, Variable, Number)), (None, (ops.AddOp, Funsor, Number))],
            "values": [(ops.add, x, n), (ops.mul, x, n)],
            "vias": ["partial_call", "call"],
        }
        # a keyed registry with two keys
        _SHAPES["keyed"] = {
            "keyed": True,
            "keys": [Binary, Unary],
            "adds": [(0, (Funsor,)), (0, (Tensor,)), (1, (Tensor,))],
            "values": [(t,), (n,)],
            "vias": ["registry.dispatch", "registry.call"],
        }
    return _SHAPES


DEPTH = {"quick": {"chain": 5, "diamond": 4, "oprule": 4, "keyed": 4}, "thorough": {"chain": 6, "diamond": 6, "oprule": 6, "keyed": 5}}


def _events(shape):
    sh = shapes()[shape]
    ev = [["add", k] for k in range(len(sh["adds"]))]
    keys = range(len(sh["keys"])) if sh["keyed"] else [None]
    for key in keys:
        for j in range(len(sh["values"])):
            for via in sh["vias"]:
                ev.append(["call", key, j, via])
    ev.append(["clear"])
    return ev


def reg_cases(tier):
    """Every event sequence up to the depth bound whose last event is a dispatch and that registers no signature
    twice, shortest first."""
    out = []
    for shape in shapes():
        ev = _events(shape)
        depth = DEPTH["thorough" if tier == "thorough" else "quick"][shape]
        for n in range(1, depth + 1):
            for seq in itertools.product(ev, repeat=n):
                if seq[-1][0] != "call":
                    continue
                adds = [e[1] for e in seq if e[0] == "add"]
                if len(adds) != len(set(adds)):
                    continue
                if not adds and n > 2:
                    continue  # nothing ever registered: pairs of dispatches say it all
                out.append(["reg", shape, [list(e) for e in seq]])
    return out


def _impl(name):
    def f(*args):
        return name

    f.__name__ = f.__qualname__ = name
    return f


def _sig_name(shape, k):
    return "%s_sig%d" % (shape, k)


def _name_of(f):
    inner = getattr(f, "default", None)
    if inner is not None and type(f).__name__ == "PartialDefault":
        return inner.__name__
    return getattr(f, "__name__", repr(f))


class _Obj(object):
    """A fresh dispatcher / keyed registry plus the bookkeeping of the reference (what has been registered)."""

    def __init__(self, shape):
        from funsor.registry import KeyedRegistry, PartialDispatcher

        self.shape = shape
        self.sh = shapes()[shape]
        if self.sh["keyed"]:
            self.obj = KeyedRegistry(default=_impl("default"))
        else:
            self.obj = PartialDispatcher(_impl("default"), "c16_" + shape)
        self.registered = {}  # key index -> [signature index]

    def add(self, k):
        key, sig = self.sh["adds"][k]
        fn = _impl(_sig_name(self.shape, k))
        if self.sh["keyed"]:
            self.obj.register(self.sh["keys"][key], *sig)(fn)
        else:
            self.obj.register(*sig)(fn)
        self.registered.setdefault(key, []).append(k)

    def clear(self):
        if self.sh["keyed"]:
            for d in self.obj.registry.values():
                d._cache.clear()
        else:
            self.obj._cache.clear()

    def call(self, key, j, via):
        from funsor.typing import deep_type, typing_wrap

        args = self.sh["values"][j]
        if via == "partial_call":
            return _name_of(self.obj.partial_call(*args))
        if via == "call":
            return self.obj(*args)
        if via == "dispatch":
            f = self.obj.dispatch(*map(typing_wrap, map(deep_type, args)))
            return _name_of(f)
        k = self.sh["keys"][key]
        if via == "registry.dispatch":
            return _name_of(self.obj.dispatch(k, *args))
        if via == "registry.call":
            return self.obj(k, *args)
        raise ValueError(via)

    def expected(self, key, j):
        """Names of the most specific matching implementations among what is registered so far."""
        args = self.sh["values"][j]
        table = [(((), (ref.ANY,)), "default")]
        for k in self.registered.get(key, []):
            sig = self.sh["adds"][k][1]
            table.append(((tuple(ref.describe(t) for t in sig), None), _sig_name(self.shape, k)))
        types = tuple(ref.typeof(a) for a in args)
        matching, minimal = ref.decide(types, table)
        return sorted({table[i][1] for i in minimal})


def _reg_snippet(shape, events):
    sh = shapes()[shape]
    lines = [
        "import numpy as np, typing",
        "from collections import OrderedDict",
        "import funsor",
        'funsor.set_backend("numpy")',
        "from funsor import Bint, Real, ops",
        "from funsor.registry import KeyedRegistry, PartialDispatcher",
        "from funsor.tensor import Tensor",
        "from funsor.terms import Binary, Funsor, Number, Unary, Variable",
        "from funsor.typing import deep_type, typing_wrap",
        "",
        "def impl(name):",
        "    def f(*args): return name",
        "    f.__name__ = name",
        "    return f",
        "",
        "t = Tensor(np.array([0.5, 1.5]), OrderedDict(i=Bint[2])); n = Number(1.5); x = Variable('x', Real)",
        "values = %s" % {"chain": "[(t,), (n,)]", "diamond": "[(t, t), (t, n)]", "oprule": "[(ops.add, x, n), (ops.mul, x, n)]", "keyed": "[(t,), (n,)]"}[shape],
        "sigs = %s"
        % {
            "chain": "[(Funsor,), (Tensor,)]",
            "diamond": "[(Funsor, Funsor), (Tensor, Funsor), (Funsor, Tensor), (Tensor, Tensor)]",
            "oprule": "[(ops.AssociativeOp, Funsor, Funsor), (ops.AddOp, Variable, Number), (ops.AddOp, Funsor, Number)]",
            "keyed": "[(Funsor,), (Tensor,), (Tensor,)]",
        }[shape],
    ]
    if sh["keyed"]:
        lines += ["keys = [Binary, Unary]; sig_key = [0, 0, 1]", "def fresh(): return KeyedRegistry(default=impl('default'))"]
    else:
        lines += ["def fresh(): return PartialDispatcher(impl('default'), 'd')"]
    lines += ["a = fresh()   # the history", "b = fresh()   # same registrations, no earlier dispatch"]
    last = len(events) - 1
    for n, e in enumerate(events):
        if e[0] == "add":
            for o in ("a", "b"):
                if sh["keyed"]:
                    lines.append("%s.register(keys[sig_key[%d]], *sigs[%d])(impl('sig%d'))" % (o, e[1], e[1], e[1]))
                else:
                    lines.append("%s.register(*sigs[%d])(impl('sig%d'))" % (o, e[1], e[1]))
        elif e[0] == "clear":
            lines.append("[d._cache.clear() for d in a.registry.values()]" if sh["keyed"] else "a._cache.clear()")
        else:
            _, key, j, via = e
            expr = {
                "partial_call": "%s.partial_call(*values[{j}]).__name__",
                "call": "%s(*values[{j}])",
                "dispatch": "%s.dispatch(*map(typing_wrap, map(deep_type, values[{j}])))",
                "registry.dispatch": "%s.dispatch(keys[{k}], *values[{j}])",
                "registry.call": "%s(keys[{k}], *values[{j}])",
            }[via].format(j=j, k=key)
            lines.append("print('event %d:', %s)" % (n, expr % "a"))
            if n == last:
                lines.append("print('fresh object:', %s)" % (expr % "b"))
    return "\n".join(lines) + "\n"


def check_reg(case):
    shape, events = case[1], [list(e) for e in case[2]]
    key = "reg|%s|%s" % (shape, ";".join(",".join(str(x) for x in e) for e in events))
    o = _Obj(shape)
    n_calls = 0
    stale = False
    for n, e in enumerate(events):
        if e[0] == "add":
            o.add(e[1])
        elif e[0] == "clear":
            o.clear()
        else:
            _, k, j, via = e
            n_calls += 1
            exp = o.expected(k, j)
            try:
                got = o.call(k, j, via)
            except NotImplementedError:
                got = "NotImplementedError"
            fresh_got = None
            if n == len(events) - 1:
                f = _Obj(shape)
                for e2 in events:
                    if e2[0] == "add":
                        f.add(e2[1])
                try:
                    fresh_got = f.call(k, j, via)
                except NotImplementedError:
                    fresh_got = "NotImplementedError"
            if got not in exp or (fresh_got is not None and fresh_got != got and len(exp) == 1):
                earlier_same = any(p[0] == "call" and p[1] == k and p[2] == j for p in events[:n])
                added_between = earlier_same and any(
                    p[0] == "add" for p in events[max(i for i, p in enumerate(events[:n]) if p[0] == "call" and p[1] == k and p[2] == j) : n]
                )
                return core.violation(
                    key,
                    "PartialDispatcher.partial_call" if fresh_got in exp or fresh_got is None else "dispatch:synthetic-" + shape,
                    "history %s on a fresh %s: event %d dispatched to %s; most specific registered so far %s; a fresh object "
                    "with the same registrations and no earlier dispatch gives %s"
                    % (events, "KeyedRegistry" if o.sh["keyed"] else "PartialDispatcher", n, got, exp, fresh_got),
                    case,
                    {
                        "what": "history-dependent",
                        "shape": shape,
                        "via": via,
                        "same_types_dispatched_before": earlier_same,
                        "registered_in_between": bool(added_between),
                    },
                    _reg_snippet(shape, events),
                    transitions=len(events),
                )
            if len(exp) > 1:
                stale = True
    n_adds = sum(1 for e in events if e[0] == "add")
    # non-trivial: a registration happened after some dispatch
    first_call = min(i for i, e in enumerate(events) if e[0] == "call")
    late_add = any(e[0] == "add" for e in events[first_call:])
    return core.ok(key, late_add, "reg:%s:adds%d:calls%d%s" % (shape, n_adds, min(n_calls, 3), ":ambiguous" if stale else ""), len(events))


# ---------------------------------------------------------------------------
# alias: groups of equal values with different nested element types

_GROUPS = None


def groups():
    global _GROUPS
    if _GROUPS is None:
        from collections import OrderedDict

        zeros = [("int", 0), ("float", 0.0), ("bool", False), ("np_int64", np.int64(0)), ("np_float64", np.float64(0.0))]
        ones = [("int", 1), ("float", 1.0), ("bool", True), ("np_int64", np.int64(1)), ("np_float64", np.float64(1.0))]
        shapes_ = OrderedDict(
            [
                ("t1", lambda s: (s,)),  # depth 1: classes differ at the top level
                ("t2", lambda s: ((s,),)),
                ("t2_pair", lambda s: ((s, 1), "a")),
                ("t2_twice", lambda s: ((s,), (s,))),
                ("t3", lambda s: (((s,),),)),
                ("t_fset", lambda s: (frozenset([s]),)),
                ("t_fset_t", lambda s: (frozenset([(s,)]),)),
                ("fset_t", lambda s: frozenset([(s,)])),
                ("fset_t2", lambda s: frozenset([((s,),)])),
                ("t_fset_pair", lambda s: (frozenset([s]), (s, "a"))),
            ]
        )
        _GROUPS = OrderedDict()
        for sname, f in shapes_.items():
            _GROUPS[sname + "_zero"] = [(lab, f(s)) for lab, s in zeros]
            _GROUPS[sname + "_one"] = [(lab, f(s)) for lab, s in ones]
        # funsor Numbers holding the scalars, nested in tuples (distinct scalars per member: Number itself is
        # hash-consed on the value, which is C07's subject, so members use 0 vs 1.0 data that are not equal ...)
        try:
            from funsor.terms import Number

            _GROUPS["t2_number"] = [
                ("int", ((0, Number(2.5)),)),
                ("float", ((0.0, Number(2.5)),)),
                ("bool", ((False, Number(2.5)),)),
            ]
        except Exception:
            pass
    return _GROUPS


def alias_cases(tier):
    out = []
    for g, members in groups().items():
        labs = [lab for lab, _ in members]
        for a, b in itertools.permutations(labs, 2):
            out.append(["alias", g, [a, b]])
        n3 = 6 if tier != "thorough" else 60
        for tri in list(itertools.permutations(labs, 3))[:n3]:
            out.append(["alias", g, list(tri)])
    return out


def _vcode(v):
    if isinstance(v, tuple):
        return "(" + "".join(_vcode(x) + ", " for x in v) + ")"
    if isinstance(v, frozenset):
        return "frozenset([" + ", ".join(_vcode(x) for x in v) + "])"
    if isinstance(v, np.generic):
        return "np.%s(%r)" % (type(v).__name__, v.item())
    if ref.ast_values(v) is not None:
        return "Number(%r)" % (v.data,)
    return repr(v)


def _alias_snippet(g, order, members):
    lines = [
        "import numpy as np",
        "import funsor",
        'funsor.set_backend("numpy")',
        "from funsor.terms import Number",
        "from funsor.typing import deep_type, deep_isinstance",
        "# values that compare equal but differ in nested element types, typed in this order in one process",
    ]
    for lab in order:
        lines.append("v_%s = %s" % (lab, _vcode(members[lab])))
    for lab in order:
        lines.append("print(%r, deep_type(v_%s), deep_isinstance(v_%s, deep_type(v_%s)))" % (lab, lab, lab, lab))
    return "\n".join(lines) + "\n"


def check_alias(case):
    from funsor.registry import PartialDispatcher
    from funsor.typing import deep_isinstance, deep_type

    g, order = case[1], list(case[2])
    key = "alias|%s|%s" % (g, ">".join(order))
    members = dict(groups()[g])
    # a fresh dispatcher with one pattern per member of the group, built from the reference types
    d = PartialDispatcher(_impl("default"), "c16_alias")
    table = [(((), (ref.ANY,)), "default")]
    for lab, v in groups()[g]:
        tv = ref.typeof(v)
        d.add((ref.to_typing(tv),), _impl("rule_" + lab))
        table.append((((tv,), None), "rule_" + lab))
    observed = []
    for lab in order:  # the order of first use is the point
        observed.append((lab, deep_type(members[lab])))
    for lab, got in observed:
        v = members[lab]
        want = ref.typeof(v)
        try:
            gd = ref.describe(got)
        except ref.Unsupported:
            gd = None
        problems = []
        if gd != want:
            problems.append("deep_type = %s, from the value alone %s" % (ref.text(gd) if gd else got, ref.text(want)))
        if gd is not None and ref.member(v, gd) is False:
            problems.append("the value is not a member of its deep type %s" % ref.text(gd))
        if deep_isinstance(v, deep_type(v)) is not True:
            problems.append("deep_isinstance(v, deep_type(v)) is not True")
        _, minimal = ref.decide((want,), table)
        exp = sorted({table[i][1] for i in minimal})
        chosen = _name_of(d.partial_call(v))
        if chosen not in exp:
            problems.append("dispatch picked %s, the rule for its own types is %s" % (chosen, exp))
        if problems:
            return core.violation(
                key,
                "deep_type",
                "group %s typed in the order %s: member %s = %r: %s" % (g, order, lab, v, "; ".join(problems)),
                case,
                {"what": "equal-values-alias", "group": g.rsplit("_", 1)[0], "container": type(v).__name__},
                _alias_snippet(g, order, members),
                transitions=len(order),
            )
    return core.ok(key, True, "alias:%s" % g.rsplit("_", 1)[0], len(order) * 4)
