"""C14 -- point masses and samples: Delta semantics and mass-preserving sampling.

Four families of cases (first element of the case descriptor):

  "D"  Delta semantics (E-prog over a fixed scenario grammar): ground substitution, (Delta + f).reduce(logaddexp, v),
       Integrate(Delta, f, v) for every f of a pool, single- and multi-variable Deltas, sums of Deltas.
  "T"  Tensor._sample as an E-env exploration: ONE execution per case.  The random source is owned
       (np.random.rand / np.random.randn are replaced by functions that hand out prescribed arrays and log
       every request); the draw of each (particle, batch row) is placed in every CDF interval (midpoint), on
       every interval boundary, at 0.0 and at nextafter(1, 0), with a bounded number of deviations from the
       default answer "first non-empty interval".
  "H"  short histories: 2-3 sample calls (different / equal sampled subsets, incl. subsets whose flattened layouts
       have equal shape) on ONE Tensor object; each call is checked like a "T" execution, i.e. the outcome of a
       call must not depend on the calls made before it.
  "G"  Gaussian._sample: one case = one group of executions (noise 0, e_a at every (particle, batch) position and
       a generic noise vector), eager randn path and reparametrised path (noise passed as a Reals[...] sample input).
  "M"  Contraction._sample on Tensor + Gaussian mixtures and Integrate under the MonteCarlo interpretation.

The reference is plain numpy: inverse CDF on the flattened joint index (own enumeration of funsor's layout
order), logsumexp, dense Gaussian formulas (P = S S', eta = S w, c = -|w|^2/2), Python lambdas for the pool.
"""
import itertools
import math
import warnings
from collections import OrderedDict

import numpy as np

from .. import core, observe
from ..ref import lang
from ..ref.lang import generic_fill

ID = "C14"
LEVEL_RULE = (
    "D: one case = (operation, variable kind, point kind, log_density kind, argument), full product of the announced "
    "grammar; T: one case = ONE execution = (tensor signature, sampled subset, position of the -inf cell or none, "
    "sample-input sizes, vector of deviating draws); H: one case = a sequence of 2-3 such executions on one Tensor object "
    "(non-trivial when the sampled subsets differ); G/M: one case = a group of executions sharing a Gaussian "
    "(all prescribed noises). Non-trivial = the library returned a value that was read/grounded and compared with "
    "the reference at every point (T: additionally >= 2 cells in the sampled block or a -inf cell present); "
    "distinct = distinct descriptor"
)
ASSUMPTIONS = [
    "numpy backend: Tensor._sample draws with exactly one np.random.rand(*sample_shape, *batch_shape) call and "
    "Gaussian._sample with exactly one np.random.randn(*sample_shape, *batch_shape, dim) call (via ops.randn); both "
    "are replaced; every other np.random entry point raises inside the harness (counted as skip 'unowned-random'), "
    "and every execution must consume exactly the prescribed requests with the expected shapes",
    "MASS IDENTITY used: for y = x.sample(V, sample_inputs) and EVERY value of the sample inputs (every particle) "
    "and every batch element: y.reduce(logaddexp, V) == x.reduce(logaddexp, V).  Each particle carries the whole "
    "mass; the Monte-Carlo estimate is the MEAN over particles (test_samplers.py subtracts log(num_samples) before "
    "reducing the particle input with logaddexp; MonteCarlo users call .reduce(ops.mean, 'particle')), so "
    "(y.exp()*integrand).reduce(add, V) of Funsor.sample's docstring holds per particle with the sampled point "
    "substituted",
    "Delta(name, point, log_density): evaluation at value gives log_density where value == point (all components) "
    "and -inf elsewhere.  Following funsor's documented behaviour (test_delta.py::test_reduce_density: 'log_density "
    "affects ground substitution but does not affect reduction') a Delta is a UNIT mass for reduce(logaddexp): "
    "(Delta + f).reduce(logaddexp, v) == f(v=point) for every log_density; Integrate(Delta, f, v) evaluates the "
    "measure pointwise: exp(log_density) * f(v=point).  With log_density == 0 (the property's 'unit-mass Delta') "
    "both readings coincide with the property statement",
    "draws exactly on a CDF boundary may select either adjacent non-empty cell (convention); draws strictly inside "
    "an interval must select exactly the reference cell; rows of zero total mass (all -inf) only need mass -inf",
    "Gaussian parameters: deterministic well-conditioned generator (diagonally dominant prec_sqrt) from the "
    "generic fill; real inputs are bound at the lattice {0, h e_i, generic point} with Tensor(np.array(v))",
    "the result of sample() is read structurally (Contraction(null, add) of Delta terms and Tensor/Gaussian terms: "
    "fields only), and additionally through funsor's own reduce(logaddexp, sampled_vars) on the executions named "
    "in bounds['funsor_level_reduce']",
    "float comparison |a-b| <= 1e-9 + 1e-7|b| (1e-6 relative after Cholesky/QR), infinities exactly",
    "mixtures (Tensor + Gaussian): sampling the discrete variable preserves the TOTAL mass over (discrete, real) "
    "only (importance weighting by the Gaussian normaliser), which is what is checked there",
]

NEG_INF = float("-inf")
TOP = float(np.nextafter(1.0, 0.0))
RTOL_CHOL = 1e-6


# ---------------------------------------------------------------------------
# owned random source


class UnownedRandomness(Exception):
    pass


class Source(object):
    """Hands out prescribed arrays for np.random.rand / np.random.randn and logs every request."""

    def __init__(self):
        self.queue = []  # list of (kind, array)
        self.log = []  # list of (kind, shape)
        self.problem = None

    def prescribe(self, items):
        self.policy = None
        self.queue = list(items)
        self.log = []
        self.problem = None

    def prescribe_policy(self, rand_values, randn_fill):
        """Policy mode (part M): every rand request is filled, in request order, from the flat list ``rand_values``
        (which must be consumed exactly); every randn request returns an array filled with ``randn_fill``."""
        self.prescribe([])
        self.policy = (list(rand_values), float(randn_fill))

    def _take(self, kind, shape):
        shape = tuple(int(s) for s in shape)
        self.log.append((kind, shape))
        if getattr(self, "policy", None) is not None:
            vals, fill = self.policy
            n = int(np.prod(shape)) if shape else 1
            if kind == "randn":
                return np.full(shape, fill)
            if len(vals) < n:
                self.problem = "rand request %s exceeds the prescribed %d values" % (shape, len(vals))
                raise UnownedRandomness(self.problem)
            out = np.array(vals[:n], dtype=np.float64).reshape(shape)
            del vals[:n]
            return float(out) if shape == () else out
        if not self.queue:
            self.problem = "unexpected %s request of shape %s (nothing prescribed)" % (kind, shape)
            raise UnownedRandomness(self.problem)
        k, arr = self.queue.pop(0)
        if k != kind or tuple(np.shape(arr)) != shape:
            self.problem = "request %s%s but prescribed %s%s" % (kind, shape, k, tuple(np.shape(arr)))
            raise UnownedRandomness(self.problem)
        if shape == ():
            return float(arr)
        return np.array(arr, dtype=np.float64)

    def rand(self, *shape):
        return self._take("rand", shape)

    def randn(self, *shape):
        return self._take("randn", shape)

    def exhausted(self):
        if getattr(self, "policy", None) is not None:
            return not self.policy[0] and self.problem is None
        return not self.queue and self.problem is None


SOURCE = Source()
_INSTALLED = [False]
_FORBIDDEN = (
    "random", "random_sample", "ranf", "sample", "uniform", "normal", "standard_normal", "choice", "randint",
    "multinomial", "exponential", "gumbel", "standard_exponential", "permutation", "shuffle", "beta", "gamma",
)


def _forbidden(name):
    def f(*a, **k):
        SOURCE.problem = "np.random.%s called" % name
        raise UnownedRandomness(SOURCE.problem)

    return f


def install_source():
    if _INSTALLED[0]:
        return
    np.random.rand = SOURCE.rand
    np.random.randn = SOURCE.randn
    for n in _FORBIDDEN:
        if hasattr(np.random, n):
            setattr(np.random, n, _forbidden(n))
    _INSTALLED[0] = True


def worker_init():
    install_source()
    warnings.simplefilter("ignore")


# ---------------------------------------------------------------------------
# small generic helpers


def close(a, b, rtol=observe.RTOL, atol=observe.ATOL):
    return observe.values_equal(a, b, "real", rtol, atol)


def ref_logsumexp(v):
    v = np.asarray(v, dtype=np.float64).ravel()
    m = v.max()
    if m == NEG_INF:
        return NEG_INF
    return float(m + math.log(sum(math.exp(t - m) for t in v)))


def lit(a):
    """numpy array -> python source text."""
    a = np.asarray(a)
    if a.dtype.kind == "f":
        txt = repr(a.tolist()).replace("-inf", "-np.inf").replace("inf", "np.inf").replace("-np.np.inf", "-np.inf")
        return "np.array(%s, dtype=np.float64)" % txt
    return "np.array(%s)" % repr(a.tolist())


SNIPPET_HEADER = """import sys
sys.path.insert(0, "/repo")
from collections import OrderedDict
import numpy as np
import funsor
import funsor.ops as ops
from funsor.delta import Delta
from funsor.domains import Bint, Real, Reals
from funsor.gaussian import Gaussian
from funsor.integrate import Integrate
from funsor.montecarlo import MonteCarlo
from funsor.tensor import Tensor
from funsor.terms import Number, Variable
funsor.set_backend("numpy")
"""


class Unreadable(Exception):
    pass


def read_sum(r):
    """Structural reading of a sample result: (delta terms {name: (point, log_density)}, list of other terms).

    Only fields are read.  Accepts Delta, Tensor/Number/Gaussian and Contraction(null, add, {}, ...) of those."""
    from funsor.cnf import Contraction
    from funsor.delta import Delta
    from funsor.gaussian import Gaussian
    from funsor.tensor import Tensor
    from funsor.terms import Number

    deltas, others = OrderedDict(), []

    def walk(t):
        if isinstance(t, Delta):
            for name, (point, ld) in t.terms:
                if name in deltas:
                    raise Unreadable("duplicate-delta")
                deltas[name] = (point, ld)
        elif isinstance(t, (Tensor, Number, Gaussian)):
            others.append(t)
        elif isinstance(t, Contraction):
            import funsor.ops as ops

            if t.red_op is not ops.null or t.bin_op is not ops.add or t.reduced_vars:
                raise Unreadable("contraction:%s/%s" % (t.red_op, t.bin_op))
            for s in t.terms:
                walk(s)
        else:
            raise Unreadable(type(t).__name__.split("[")[0])

    walk(r)
    return deltas, others


def tensor_at(t, idx):
    """Value of a Tensor/Number at integer index dict ``idx`` (reads .data directly; missing inputs broadcast)."""
    from funsor.terms import Number

    if isinstance(t, Number):
        return np.asarray(t.data)
    for n, d in t.inputs.items():
        if d.dtype == "real" or n not in idx:
            raise Unreadable("tensor-input:%s" % n)
    return np.asarray(t.data[tuple(int(idx[n]) for n in t.inputs)])


def dom_text(d):
    return str(d)


# ---------------------------------------------------------------------------
# part T: Tensor._sample

T_NAMES = ("a", "b", "c")
S_NAMES = ("p", "q")


def t_layout(sizes, mask):
    k = len(sizes)
    event = [i for i in range(k) if (mask >> i) & 1]
    batch = [i for i in range(k) if not (mask >> i) & 1]
    B = int(np.prod([sizes[i] for i in batch])) if batch else 1
    n = int(np.prod([sizes[i] for i in event]))
    return batch, event, B, n


def t_cell_of(sizes, mask, flatpos):
    """(row, col) in the (batch rows, flattened event cells) table of the cell at row-major position ``flatpos``."""
    batch, event, B, n = t_layout(sizes, mask)
    idx = np.unravel_index(flatpos, tuple(sizes))
    row = 0
    for i in batch:
        row = row * sizes[i] + int(idx[i])
    col = 0
    for i in event:
        col = col * sizes[i] + int(idx[i])
    return row, col


def t_alts(n, empty_cols):
    """Symbolic alternatives of one draw; the first is the default answer."""
    alts = [["m", k] for k in range(n) if k not in empty_cols]
    alts += [["b", k] for k in range(n - 1)]
    alts += [["z"], ["t"]]
    return alts


# Fill kinds of the logit table: -1 generic; p >= 0 generic with -inf at row-major position p;
# ["rs", variant, cell] 'row scales': batch row r gets the offset T_ROW_OFFSETS[(r + variant) % 4] added to its
# generic logits (rows hundreds of nats apart: a stabilising shift must be per row), and, when cell >= 0, the
# sampled-block cell ``cell`` of every LOW row (negative offset) is -inf.
T_ROW_OFFSETS = (0.0, -800.0, -2000.0, 700.0)


def t_is_rs(fill):
    return isinstance(fill, (list, tuple))


def t_fill_tag(fill):
    if t_is_rs(fill):
        return "rs-inf" if fill[2] >= 0 else "rs"
    return "inf" if fill >= 0 else "gen"


def t_fill_has_inf(fill):
    return fill[2] >= 0 if t_is_rs(fill) else fill >= 0


def t_row_offsets(B, variant):
    return [T_ROW_OFFSETS[(r + variant) % 4] for r in range(B)]


def t_fill_struct(sizes, mask, fill):
    """(empty columns per batch row, rows whose draws deviate or None for all rows) -- structural, seed-free."""
    batch, event, B, n = t_layout(sizes, mask)
    if t_is_rs(fill):
        offs = t_row_offsets(B, fill[1])
        empty = [({fill[2]} if (fill[2] >= 0 and offs[r] < 0) else set()) for r in range(B)]
        return empty, None
    if fill >= 0:
        erow, ecol = t_cell_of(sizes, mask, fill)
        return [({ecol} if r == erow else set()) for r in range(B)], {erow}
    return [set() for _ in range(B)], None


def t_rs_fills(tier, B, n):
    variants = (0, 1) if tier == "quick" else (0, 1, 2, 3)
    cells = [-1, 0] + (list(range(1, n)) if (n <= 4 or (tier != "quick" and n <= 9)) else [])
    return [["rs", v, c] for v in variants for c in cells]


def t_sample_configs(tier, cells, fillpos):
    if t_is_rs(fillpos):
        return [[], [2]]
    if fillpos < 0:
        return [[], [2], [2, 3]]
    if tier == "quick":
        return [[], [2]] + ([[2, 3]] if cells <= 6 else [])
    return [[], [2]] + ([[2, 3]] if cells <= 12 else [])


def t_groups(tier):
    maxsize = 3 if tier == "quick" else 4
    for k in (1, 2, 3):
        for sizes in itertools.product(range(1, maxsize + 1), repeat=k):
            cells = int(np.prod(sizes))
            for mask in range(1, 2 ** k):
                for fillpos in [-1] + list(range(cells)):
                    for ss in t_sample_configs(tier, cells, fillpos):
                        yield list(sizes), mask, fillpos, ss
                batch, event, B, n = t_layout(sizes, mask)
                if B >= 2:  # at least one non-sampled batch input with >= 2 rows
                    for fill in t_rs_fills(tier, B, n):
                        for ss in t_sample_configs(tier, cells, fill):
                            yield list(sizes), mask, fill, ss


def t_pair_group(sizes, mask, fillpos, ss, D, nalt):
    """Thorough tier: which groups get all PAIRS of deviations (documented bound)."""
    return D * nalt <= 32


def t_cases(tier):
    out = []
    for sizes, mask, fillpos, ss in t_groups(tier):
        batch, event, B, n = t_layout(sizes, mask)
        S = int(np.prod(ss)) if ss else 1
        D = S * B
        empties, dev_rows = t_fill_struct(sizes, mask, fillpos)
        # alternatives per batch row
        alts = [t_alts(n, empties[r]) for r in range(B)]
        # draws that deviate: all (generic / row-scales fill) or those of the row holding the -inf cell
        draws = [d for d in range(D) if dev_rows is None or d % B in dev_rows]
        if t_is_rs(fillpos) and ss and (tier == "quick" or max(sizes) > 3):
            draws = []  # row scales with particles: the 0-deviation execution only
        out.append(["T", sizes, mask, fillpos, ss, [], 1])
        for d in draws:
            for alt in alts[d % B][1:]:
                fr = 1 if ((tier == "thorough" and max(sizes) <= 3) or d == draws[0]) else 0
                out.append(["T", sizes, mask, fillpos, ss, [[d] + alt], fr])
        if tier == "thorough":
            nalt = max(len(a) for a in alts) - 1
            if not t_is_rs(fillpos) and t_pair_group(sizes, mask, fillpos, ss, len(draws), nalt):
                for d1, d2 in itertools.combinations(draws, 2):
                    out.append(["TP", sizes, mask, fillpos, ss, d1, d2])
    return out


_T_CACHE = {}


def t_setup(sizes, mask, fillpos, ss, seed, share=None, fresh=False):
    """Reference tables of one (signature, sampled subset, fill, sample sizes) and the Tensor under test.

    share: an earlier setup whose Tensor OBJECT (and data) is reused (history family); fresh: bypass the cache."""
    key = (tuple(sizes), mask, repr(fillpos), tuple(ss), seed)
    cached = share is None and not fresh
    if cached and key in _T_CACHE:
        return _T_CACHE[key]
    if len(_T_CACHE) > 64:
        _T_CACHE.clear()
    from funsor.domains import Bint
    from funsor.tensor import Tensor

    sizes = tuple(sizes)
    if share is not None:
        data = share["data"]
    else:
        data = generic_fill(7, sizes, seed) - 1.0
        if t_is_rs(fillpos):
            batch, event, B, n = t_layout(sizes, mask)
            perm = batch + event
            tab = np.transpose(data, perm).reshape(B, n).copy()
            offs = t_row_offsets(B, fillpos[1])
            for r in range(B):
                tab[r] += offs[r]
                if fillpos[2] >= 0 and offs[r] < 0:
                    tab[r, fillpos[2]] = NEG_INF
            tab = tab.reshape(tuple(sizes[i] for i in perm))
            data = np.ascontiguousarray(np.transpose(tab, np.argsort(perm)))
        elif fillpos >= 0:
            data = data.copy()
            data.flat[fillpos] = NEG_INF
    batch, event, B, n = t_layout(sizes, mask)
    # reference table: rows = batch elements (row-major over batch inputs in .inputs order),
    # columns = flattened joint index over the sampled inputs in .inputs order (last fastest)
    rows = np.transpose(data, batch + event).reshape(B, n)
    cdf, mass, empty = [], [], []
    # the CDF is computed with the textbook formula on the whole (rows, cells) table at once, so that boundary
    # draws coincide bitwise with a softmax/cumsum implementation working on the same layout
    mx = np.amax(rows, -1, keepdims=True)
    pr = np.exp(rows - mx)
    pr = pr / np.sum(pr, -1, keepdims=True)
    cs = np.cumsum(pr, -1)
    cs = cs / cs[..., -1:]  # a CDF ends in exactly 1
    for r in range(B):
        row = rows[r]
        mass.append(ref_logsumexp(row))
        empty.append([bool(v == NEG_INF) for v in row])
        cdf.append(None if row.max() == NEG_INF else cs[r])
    if share is not None:
        x = share["x"]
    else:
        x = Tensor(data, OrderedDict((T_NAMES[i], Bint[sizes[i]]) for i in range(len(sizes))))
    st = {
        "x": x, "data": data, "batch": batch, "event": event, "B": B, "n": n, "rows": rows, "cdf": cdf,
        "mass": mass, "empty": empty, "sizes": sizes, "ss": tuple(ss),
        "sample_inputs": OrderedDict((S_NAMES[i], Bint[s]) for i, s in enumerate(ss)),
        "sampled": frozenset(T_NAMES[i] for i in event),
    }
    if cached:
        _T_CACHE[key] = st
    return st


def t_draw_value(alt, c, n):
    """Prescribed uniform for a symbolic alternative given the reference CDF ``c`` of the row (None: zero mass)."""
    if alt[0] == "z":
        return 0.0
    if alt[0] == "t":
        return TOP
    if c is None:
        return 0.0
    k = alt[1]
    if alt[0] == "b":
        return min(float(c[k]), TOP)  # np.random.rand never returns 1.0
    lo = 0.0 if k == 0 else float(c[k - 1])
    return (lo + float(c[k])) / 2.0


def t_accepted(r, c, empty):
    """Cells the inverse CDF may select for draw r: non-empty cells whose closed interval contains r."""
    n = len(empty)
    acc = []
    for k in range(n):
        if empty[k]:
            continue
        lo = 0.0 if k == 0 else float(c[k - 1])
        if lo <= r <= float(c[k]):
            acc.append(k)
    if not acc:  # r above the (rounded) last CDF value: the last non-empty cell
        acc = [max(k for k in range(n) if not empty[k])]
    return acc


def t_snippet(st, R, sampled):
    shape = tuple(np.shape(R))
    lines = [SNIPPET_HEADER]
    lines.append("data = %s" % lit(st["data"]))
    lines.append(
        "x = Tensor(data, OrderedDict([%s]))"
        % ", ".join("(%r, Bint[%d])" % (T_NAMES[i], s) for i, s in enumerate(st["sizes"]))
    )
    lines.append("np.random.rand = lambda *shape: (R if shape else float(R))  # prescribed uniforms")
    for hs, hss, hR in st.get("history", ()):  # earlier sample calls on the SAME Tensor object
        lines.append("R = %s.reshape(%r)" % (lit(np.asarray(hR).reshape(-1)), tuple(np.shape(hR))))
        lines.append(
            "x.sample(frozenset(%r), OrderedDict([%s]))  # earlier call"
            % (sorted(hs), ", ".join("(%r, Bint[%d])" % (S_NAMES[i], t) for i, t in enumerate(hss)))
        )
    lines.append("R = %s.reshape(%r)" % (lit(np.asarray(R).reshape(-1)), shape))
    lines.append(
        "y = x.sample(frozenset(%r), OrderedDict([%s]))"
        % (sorted(sampled), ", ".join("(%r, Bint[%d])" % (S_NAMES[i], s) for i, s in enumerate(st["ss"])))
    )
    lines.append("print(y)")
    lines.append("print('mass of sample :', y.reduce(ops.logaddexp, frozenset(%r)))" % sorted(sampled))
    lines.append("print('mass of x      :', x.reduce(ops.logaddexp, frozenset(%r)))" % sorted(sampled))
    return "\n".join(lines)


def t_run(st, R):
    """One execution of x.sample with prescribed uniforms R.  Returns (result funsor, request log)."""
    SOURCE.prescribe([("rand", R)])
    y = st["x"].sample(st["sampled"], OrderedDict(st["sample_inputs"]))
    return y, list(SOURCE.log), SOURCE.exhausted()


def t_read(st, y):
    """Read (selected column, mass) per (particle..., batch...) index from the result.  Raises Unreadable."""
    from funsor.tensor import Tensor
    from funsor.terms import Number

    deltas, others = read_sum(y)
    sizes, batch, event = st["sizes"], st["batch"], st["event"]
    shape = st["ss"] + tuple(sizes[i] for i in batch)
    names = S_NAMES[: len(st["ss"])] + tuple(T_NAMES[i] for i in batch)
    for i in event:
        if T_NAMES[i] not in deltas:
            raise Unreadable("no-delta-for:" + T_NAMES[i])
    extra = [nm for nm in deltas if nm not in st["sampled"]]
    if extra:
        raise Unreadable("unexpected-delta:" + ",".join(extra))
    sel = np.zeros(shape + (len(event),), dtype=np.int64)
    mass = np.zeros(shape, dtype=np.float64)
    for idx in itertools.product(*[range(s) for s in shape]):
        env = dict(zip(names, idx))
        tot = 0.0
        for j, i in enumerate(event):
            point, ld = deltas[T_NAMES[i]]
            if not isinstance(point, (Tensor, Number)):
                raise Unreadable("lazy-point")
            sel[idx + (j,)] = int(tensor_at(point, env))
            tot = tot + float(tensor_at(ld, env))
        for t in others:
            if not isinstance(t, (Tensor, Number)):
                raise Unreadable("term:" + type(t).__name__.split("[")[0])
            tot = tot + float(tensor_at(t, env))
        mass[idx] = tot
    return sel, mass


def t_features(st, case, alt, extra):
    f = {"has_neg_inf": bool(t_fill_has_inf(case[3])), "fill": t_fill_tag(case[3]), "alt": alt}
    f.update(extra)
    return f


def check_TP(case, seed):
    """Thorough tier: every PAIR of alternatives of the two draws d1 < d2 (one execution each)."""
    _, sizes, mask, fillpos, ss, d1, d2 = case
    st = t_setup(sizes, mask, fillpos, ss, seed)
    B, n = st["B"], st["n"]
    alts = [t_alts(n, {k for k in range(n) if st["empty"][r][k]}) for r in range(B)]
    count, classes, draws = 0, set(), 0
    for a1 in alts[d1 % B][1:]:
        for a2 in alts[d2 % B][1:]:
            devs = [[d1] + a1, [d2] + a2]
            sub = ["T", sizes, mask, fillpos, ss, devs, 0]
            out = t_exec(repr(sub), sub, st, devs, 0)
            if out["status"] != "ok":
                return out
            count += 1
            classes.add(out["outcome"])
            draws += out["counters"].get("T_draws_checked", 0)
    return core.ok(
        repr(case), True, "TP:%d-classes" % len(classes), 2 * count,
        {"T_executions": 2 * count, "T_pair_executions": count, "T_draws_checked": draws},
    )


# -- short histories on ONE Tensor object ------------------------------------------------------------------
#
# The outcome of a sample call must not depend on the sample calls made before it on the same object (same
# prescribed draws => same result; points in the support; mass preserved).  One case = a sequence of 2-3 calls
# (sampled subset, sample sizes, deviations) on one freshly built Tensor; every call is checked against the
# single-call reference exactly like a T execution (t_exec runs each call twice).

H_SS_PAIRS = [([], []), ([2], []), ([], [2])]


def h_sizes(tier):
    quick = [[2, 2], [3, 3], [2, 3], [2, 2, 2]]
    return quick if tier == "quick" else quick + [[3, 2], [4, 4], [2, 3, 2], [3, 3, 3]]


def h_last_devs(sizes, mask, fillpos, ss):
    """0 deviations and every single deviation of the LAST call (draws of the -inf row only for -inf fills)."""
    batch, event, B, n = t_layout(sizes, mask)
    S = int(np.prod(ss)) if ss else 1
    erow, ecol = t_cell_of(sizes, mask, fillpos) if fillpos >= 0 else (-1, -1)
    alts = [t_alts(n, {ecol} if r == erow else set()) for r in range(B)]
    out = [[]]
    for d in range(S * B):
        if fillpos >= 0 and d % B != erow:
            continue
        for alt in alts[d % B][1:]:
            out.append([[d] + alt])
    return out


def h_cases(tier):
    out = []
    for sizes in h_sizes(tier):
        k = len(sizes)
        cells = int(np.prod(sizes))
        masks = list(range(1, 2 ** k))
        fills = [-1] + list(range(cells))
        if cells > 9 and tier == "quick":
            fills = [-1, 0, cells - 1]
        for fillpos in fills:
            # ordered pairs (incl. the same subset twice)
            for m1 in masks:
                for m2 in masks:
                    for ss1, ss2 in H_SS_PAIRS:
                        if fillpos >= 0 and cells > 8 and (ss1 or ss2) and tier == "quick":
                            continue
                        for devs in h_last_devs(sizes, m2, fillpos, ss2):
                            out.append(["H", sizes, fillpos, [[m1, ss1, []], [m2, ss2, devs]]])
            # triples: all orders of three distinct subsets (single variables / all masks when k == 2)
            trip_sets = [masks] if k == 2 else [[1, 2, 4], [3, 5, 6], [1, 6, 7]]
            for ms in trip_sets:
                for perm in itertools.permutations(ms):
                    for last in ([], None):
                        devs_list = [[]] if last == [] else h_last_devs(sizes, perm[2], fillpos, [])[1:3]
                        for devs in devs_list:
                            out.append(["H", sizes, fillpos, [[perm[0], [2], []], [perm[1], [], []], [perm[2], [], devs]]])
    return out


def check_H(case, seed):
    _, sizes, fillpos, calls = case
    key = repr(case)
    first = None
    hist = []
    transitions, draws = 0, 0
    classes = []
    for j, (mask, ss, devs) in enumerate(calls):
        st = t_setup(sizes, mask, fillpos, ss, seed, share=first, fresh=True)
        if first is None:
            first = st
        assert st["x"] is first["x"]
        st["history"] = list(hist)
        sub = ["T", sizes, mask, fillpos, ss, devs, 1 if j == len(calls) - 1 else 0]
        out = t_exec(key, sub, st, devs, sub[6])
        if out["status"] == "violation":
            v = out["violation"]
            v["case"] = case
            v["features"] = dict(v["features"], history=bool(j > 0), call_index=j,
                                 same_subset_before=any(c[0] == mask for c in calls[:j]))
            v["message"] = "call %d of the history %s on ONE Tensor object: %s" % (
                j, [[c[0], c[1]] for c in calls], v["message"])
            return out
        if out["status"] != "ok":
            return out
        transitions += out["transitions"]
        draws += out["counters"].get("T_draws_checked", 0)
        classes.append(out["outcome"].split(":")[2])
        hist.append((st["sampled"], st["ss"], st["last_R"]))
        hist.append((st["sampled"], st["ss"], st["last_R"]))  # t_exec runs every call twice
    masks = [c[0] for c in calls]
    shapes = [t_layout(sizes, m)[2:] for m in masks]
    equal_shape = any(shapes[a] == shapes[b] and masks[a] != masks[b]
                      for a in range(len(masks)) for b in range(a + 1, len(masks)))
    cls = "H:%d-calls:%s:%s" % (len(calls), "equal-shape-layouts" if equal_shape else "distinct-shapes",
                                 "inf" if fillpos >= 0 else "gen")
    return core.ok(key, len(set(masks)) > 1, cls, transitions,
                   {"H_calls": len(calls), "T_executions": 2 * len(calls), "T_draws_checked": draws})


def check_T(case, seed):
    _, sizes, mask, fillpos, ss, devs, fr = case
    st = t_setup(sizes, mask, fillpos, ss, seed)
    return t_exec(repr(case), case, st, devs, fr)


def t_exec(key, case, st, devs, fr):
    import funsor.ops as ops
    from funsor.domains import Real
    from funsor.tensor import Tensor

    fillpos = case[3]
    B, n, event = st["B"], st["n"], st["event"]
    S = int(np.prod(st["ss"])) if st["ss"] else 1
    D = S * B
    shape = st["ss"] + tuple(st["sizes"][i] for i in st["batch"])
    # prescribed draws
    alt_of = {}
    for dv in devs:
        alt_of[int(dv[0])] = list(dv[1:])
    flat = np.zeros(D)
    alts_used = []
    for d in range(D):
        row = d % B
        default = t_alts(n, {k for k in range(n) if st["empty"][row][k]})[0]
        alt = alt_of.get(d, default)
        alts_used.append(alt)
        flat[d] = t_draw_value(alt, st["cdf"][row], n)
    R = flat.reshape(shape)
    st["last_R"] = R
    snippet = lambda: t_snippet(st, R, st["sampled"])  # noqa: E731

    def viol(site, msg, alt="default", **extra):
        return core.violation(key, site, msg, case, t_features(st, case, alt, extra), snippet(), transitions=2)

    try:
        y, log, used = t_run(st, R)
    except UnownedRandomness as e:
        return core.skip(key, "unowned-random:" + str(e)[:60])
    except Exception as e:  # noqa
        return core.decline(key, "raised:" + type(e).__name__)
    if log != [("rand", tuple(shape))] or not used:
        return core.skip(key, "unowned-random:requests %s" % (log,))
    # inputs / output
    want = OrderedDict(st["x"].inputs)
    want.update(st["sample_inputs"])
    if dict(y.inputs) != dict(want):
        return viol(
            "Tensor._sample:inputs",
            "result inputs %s, expected original + sample inputs %s"
            % ({k: str(v) for k, v in y.inputs.items()}, {k: str(v) for k, v in want.items()}),
        )
    if y.output != Real:
        return viol("Tensor._sample:inputs", "result output %s, expected Real" % (y.output,))
    try:
        sel, mass = t_read(st, y)
    except Unreadable as e:
        return core.decline(key, "unreadable-result:" + str(e))
    ev_sizes = [st["sizes"][i] for i in event]
    nontrivial = n >= 2 or t_fill_has_inf(fillpos)
    zero_rows = 0
    for d, idx in enumerate(itertools.product(*[range(s) for s in shape])):
        row = d % B
        alt = "default" if d not in alt_of else alts_used[d][0]
        # mass
        if not close(mass[idx], st["mass"][row]):
            return viol(
                "Tensor._sample:mass",
                "at (particle.., batch..)=%s: total mass of the sample over %s is %r, of the original %r"
                % (idx, sorted(st["sampled"]), float(mass[idx]), st["mass"][row]),
                alt,
                via="structure",
            )
        if st["cdf"][row] is None:
            zero_rows += 1
            continue
        point = [int(v) for v in sel[idx]]
        if any(v < 0 or v >= s for v, s in zip(point, ev_sizes)):
            return viol(
                "Tensor._sample:support",
                "at %s: sampled point %s outside the domain sizes %s (draw %r)" % (idx, point, ev_sizes, flat[d]),
                alt,
                out_of_range=True,
            )
        col = 0
        for v, s in zip(point, ev_sizes):
            col = col * s + v
        acc = t_accepted(flat[d], st["cdf"][row], st["empty"][row])
        if st["empty"][row][col]:
            lead = all(st["empty"][row][: col + 1])
            return viol(
                "Tensor._sample:support",
                "at %s: draw %r selected %s=%s whose logit is -inf (reference inverse CDF: cell %s of row %s)"
                % (idx, flat[d], [T_NAMES[i] for i in event], point, acc, st["rows"][row].tolist()),
                alt,
                selected_leading_empty_cell=bool(lead),
                draw_is_zero=bool(flat[d] == 0.0),
            )
        if col not in acc:
            exp_pts = [[int(t) for t in np.unravel_index(a, ev_sizes)] for a in acc]
            return viol(
                "Tensor._sample:unflatten",
                "at %s: draw %r selected %s=%s (flat cell %d); reference inverse CDF over the row-major joint index "
                "gives cell %s = point %s; row logits %s; reference CDF %s"
                % (idx, flat[d], [T_NAMES[i] for i in event], point, col, acc, exp_pts, st["rows"][row].tolist(),
                   st["cdf"][row].tolist()),
                alt,
            )
    transitions = 2
    # determinism: same prescribed draws => identical result
    try:
        y2, log2, used2 = t_run(st, R)
        sel2, mass2 = t_read(st, y2)
    except Exception as e:  # noqa
        return viol("Tensor._sample:determinism", "second run with the same draws raised %s" % type(e).__name__)
    same = np.array_equal(sel, sel2) and np.array_equal(mass, mass2, equal_nan=True)
    if not same or dict(y2.inputs) != dict(y.inputs) or log2 != log:
        return viol("Tensor._sample:determinism", "two runs with identical prescribed draws differ")
    # funsor-level reduce
    if fr:
        transitions += 1
        try:
            m = y.reduce(ops.logaddexp, st["sampled"])
        except Exception as e:  # noqa
            return core.decline(key, "reduce-raised:" + type(e).__name__, transitions)
        if not isinstance(m, Tensor):
            from funsor.terms import Number

            if not isinstance(m, Number):
                return core.decline(key, "reduce-lazy:" + type(m).__name__.split("[")[0], transitions)
        bad = [k for k in m.inputs if k in st["sampled"] or k not in want]
        if bad:
            return viol(
                "Tensor._sample:inputs", "sample.reduce(logaddexp, sampled) still has inputs %s" % bad, via="reduce"
            )
        names = S_NAMES[: len(st["ss"])] + tuple(T_NAMES[i] for i in st["batch"])
        for d, idx in enumerate(itertools.product(*[range(s) for s in shape])):
            try:
                v = tensor_at(m, dict(zip(names, idx)))
            except Unreadable as e:
                return core.decline(key, "reduce-unreadable:" + str(e), transitions)
            if not close(v, st["mass"][d % B]):
                return viol(
                    "Tensor._sample:mass",
                    "at %s: sample.reduce(logaddexp, %s) = %r but x.reduce(...) = %r"
                    % (idx, sorted(st["sampled"]), float(v), st["mass"][d % B]),
                    via="reduce",
                )
    cls = "T:k%d:e%d:s%d:%s:%s" % (
        len(st["sizes"]), len(event), len(st["ss"]), t_fill_tag(fillpos),
        "+".join(sorted(set(a[0] for a in alts_used))),
    )
    counters = {"T_executions": 2, "T_draws_checked": D}
    if zero_rows:
        counters["T_zero_mass_rows"] = zero_rows
    if fr:
        counters["T_funsor_reduce_checked"] = 1
    return core.ok(key, nontrivial, cls, transitions, counters)


# ---------------------------------------------------------------------------
# part D: Delta semantics
#
# Every component (point, log_density, integrand, substituted value) is a triple
#   code   python source text evaluated in the namespace of d_namespace() (also used for the snippet)
#   ref    plain-python function rho -> numpy value   (rho binds every free input: ints, numpy arrays)
#   inputs {name: domain}, domain = ("real", shape) | (size, ())

D_VARS = {"r0": ("x", ("real", ())), "r2": ("z", ("real", (2,))), "i3": ("i", (3, ()))}
D_FREE = {
    "b": (2, ()), "c": (3, ()), "j": (3, ()), "i": (3, ()),
    "u": ("real", ()), "y": ("real", ()), "w": ("real", (2,)), "x": ("real", ()), "z": ("real", (2,)),
}

_D_NS = {}


def d_arrays(seed):
    gf = lambda k, shape: generic_fill(k, shape, seed)  # noqa: E731
    A = OrderedDict()
    A["TB"], A["TC"], A["TI"] = gf(20, (2,)), gf(21, (3,)), gf(30, (3,))
    A["TIC"], A["TCI"], A["TIB"], A["TBI"] = gf(31, (3, 3)), gf(32, (3, 3)), gf(33, (3, 2)), gf(34, (2, 3))
    A["TV"], A["TJ"], A["VEC"], A["VB"] = gf(35, (3, 2)), gf(36, (3,)), gf(37, (2,)), gf(38, (2, 2))
    A["TBCI"] = gf(39, (2, 3, 3))
    A["PX0"], A["PXB"], A["PXBC"] = gf(1, ()), gf(2, (2,)), gf(3, (2, 3))
    A["PZ0"], A["PZB"], A["PZBC"] = gf(4, (2,)), gf(5, (2, 2)), gf(8, (2, 3, 2))
    A["PI0"], A["PIB"], A["PIBC"] = np.array(2), np.array([0, 2]), np.array([[0, 1, 2], [2, 2, 0]])
    A["LD0"], A["LDB"], A["LDC"] = gf(6, ()) - 1.0, gf(7, (2,)) - 1.0, gf(9, (3,)) - 1.0
    return A


D_PREAMBLE = """x, z, i = Variable("x", Real), Variable("z", Reals[2]), Variable("i", Bint[3])
u, y, w, j = Variable("u", Real), Variable("y", Real), Variable("w", Reals[2]), Variable("j", Bint[3])
B2, C3, I3 = OrderedDict(b=Bint[2]), OrderedDict(c=Bint[3]), OrderedDict(i=Bint[3])
BC = OrderedDict(b=Bint[2], c=Bint[3])
tb, tc, ti, tj = Tensor(TB, B2), Tensor(TC, C3), Tensor(TI, I3), Tensor(TJ, OrderedDict(j=Bint[3]))
tic, tci = Tensor(TIC, OrderedDict(i=Bint[3], c=Bint[3])), Tensor(TCI, OrderedDict(c=Bint[3], i=Bint[3]))
tib, tbi = Tensor(TIB, OrderedDict(i=Bint[3], b=Bint[2])), Tensor(TBI, OrderedDict(b=Bint[2], i=Bint[3]))
tv, vec, vb = Tensor(TV, I3), Tensor(VEC), Tensor(VB, B2)
tbci = Tensor(TBCI, OrderedDict(b=Bint[2], c=Bint[3], i=Bint[3]))
"""


def d_namespace(seed):
    if seed in _D_NS:
        return _D_NS[seed]
    ns = {}
    exec(SNIPPET_HEADER.replace('sys.path.insert(0, "/repo")\n', ""), ns)  # funsor is already imported (FV_REPO)
    A = d_arrays(seed)
    ns.update(A)
    exec(D_PREAMBLE, ns)
    _D_NS.clear()
    _D_NS[seed] = (ns, A)
    return ns, A


def d_real_points(name, seed):
    if name == "u":
        return [generic_fill(40, (), seed), generic_fill(41, (), seed) - 0.25]
    if name == "y":
        return [generic_fill(42, (), seed), generic_fill(43, (), seed) + 0.5]
    if name == "w":
        return [generic_fill(44, (2,), seed), generic_fill(45, (2,), seed) + 0.5]
    raise KeyError(name)


def C(code, ref, **inputs):
    return {"code": code, "ref": ref, "inputs": {k: D_FREE[k] for k in inputs} if inputs else {}}


def d_point(var, kind, A):
    if var == "r0":
        return {
            "num": C("Number(0.75)", lambda r: np.float64(0.75)),
            "t0": C("Tensor(PX0)", lambda r: A["PX0"]),
            "tb": C("Tensor(PXB, B2)", lambda r: A["PXB"][r["b"]], b=1),
            "tbc": C("Tensor(PXBC, BC)", lambda r: A["PXBC"][r["b"], r["c"]], b=1, c=1),
            "lazy": C("y * 2.0", lambda r: r["y"] * 2.0, y=1),
            "lazyv": C("y", lambda r: r["y"], y=1),
        }[kind]
    if var == "r2":
        return {
            "t0": C("Tensor(PZ0)", lambda r: A["PZ0"]),
            "tb": C("Tensor(PZB, B2)", lambda r: A["PZB"][r["b"]], b=1),
            "tbc": C("Tensor(PZBC, BC)", lambda r: A["PZBC"][r["b"], r["c"]], b=1, c=1),
            "lazy": C("w * 2.0", lambda r: r["w"] * 2.0, w=1),
            "lazyv": C("w", lambda r: r["w"], w=1),
        }[kind]
    return {
        "num": C("Number(1, 3)", lambda r: np.int64(1)),
        "t0": C("Tensor(PI0, OrderedDict(), 3)", lambda r: A["PI0"]),
        "tb": C("Tensor(PIB, B2, 3)", lambda r: A["PIB"][r["b"]], b=1),
        "tbc": C("Tensor(PIBC, BC, 3)", lambda r: A["PIBC"][r["b"], r["c"]], b=1, c=1),
        "lazyv": C("j", lambda r: np.int64(r["j"]), j=1),
    }[kind]


D_POINT_KINDS = {
    "r0": ["num", "t0", "tb", "tbc", "lazy", "lazyv"],
    "r2": ["t0", "tb", "tbc", "lazy", "lazyv"],
    "i3": ["num", "t0", "tb", "tbc", "lazyv"],
}
D_LD_KINDS = ["zero", "num", "t0", "tb", "tc"]


def d_ld(kind, A):
    return {
        "zero": C(None, lambda r: 0.0),
        "num": C("Number(0.5)", lambda r: 0.5),
        "t0": C("Tensor(LD0)", lambda r: float(A["LD0"])),
        "tb": C("Tensor(LDB, B2)", lambda r: float(A["LDB"][r["b"]]), b=1),
        "tc": C("Tensor(LDC, C3)", lambda r: float(A["LDC"][r["c"]]), c=1),
    }[kind]


def _sig(v):
    return 1.0 / (1.0 + np.exp(-v))


def d_pool(var, A):
    """The integrand pool of one variable kind: list of (component taking rho with the Delta variable bound, vector?)."""
    TB, TC, TI, TIC, TCI, TIB, TBI = A["TB"], A["TC"], A["TI"], A["TIC"], A["TCI"], A["TIB"], A["TBI"]
    if var == "r0":
        return [
            C("x", lambda r: r["x"]),
            C("x * x + 1.0", lambda r: r["x"] * r["x"] + 1.0),
            C("x * 2.0 - 0.5", lambda r: r["x"] * 2.0 - 0.5),
            C("x.exp()", lambda r: np.exp(r["x"])),
            C("(x * x + 1.0).log()", lambda r: np.log(r["x"] * r["x"] + 1.0)),
            C("-x", lambda r: -r["x"]),
            C("x * tb", lambda r: r["x"] * TB[r["b"]], b=1),
            C("x * tc", lambda r: r["x"] * TC[r["c"]], c=1),
            C("x + u", lambda r: r["x"] + r["u"], u=1),
            C("x * x * x", lambda r: r["x"] ** 3),
            C("Number(2.0)", lambda r: np.float64(2.0)),
            C("tc", lambda r: TC[r["c"]], c=1),
            C("x.sigmoid()", lambda r: _sig(r["x"])),
            C("x.tanh()", lambda r: np.tanh(r["x"])),
            C("(x - 1.0).abs()", lambda r: abs(r["x"] - 1.0)),
            C("x.sqrt()", lambda r: np.sqrt(r["x"])),
            C("1.0 / x", lambda r: 1.0 / r["x"]),
            C("x.log()", lambda r: np.log(r["x"])),
            C("ops.max(x, Number(1.0))", lambda r: max(r["x"], 1.0)),
            C("x * y", lambda r: r["x"] * r["y"], y=1),
            C("x * tb * tc", lambda r: r["x"] * TB[r["b"]] * TC[r["c"]], b=1, c=1),
            C("tc - x * x", lambda r: TC[r["c"]] - r["x"] ** 2, c=1),
        ]
    if var == "r2":
        VEC, VB, TVb = A["VEC"], A["VB"], A["TV"]
        return [
            C("z.sum()", lambda r: r["z"].sum()),
            C("(z * z).sum()", lambda r: (r["z"] ** 2).sum()),
            C("z[0]", lambda r: r["z"][0]),
            C("z[1] * 2.0 + z[0]", lambda r: r["z"][1] * 2.0 + r["z"][0]),
            C("(z * vec).sum()", lambda r: (r["z"] * VEC).sum()),
            C("z @ vec", lambda r: r["z"] @ VEC),
            C("(z * vb).sum()", lambda r: (r["z"] * VB[r["b"]]).sum(), b=1),
            C("z.exp().sum()", lambda r: np.exp(r["z"]).sum()),
            C("z.max()", lambda r: r["z"].max()),
            C("z.prod()", lambda r: r["z"].prod()),
            C("z[0] * u", lambda r: r["z"][0] * r["u"], u=1),
            C("Number(2.0)", lambda r: np.float64(2.0)),
            C("tc", lambda r: TC[r["c"]], c=1),
            C("z.logsumexp()", lambda r: np.log(np.exp(r["z"]).sum())),
            C("z[0] * tc", lambda r: r["z"][0] * TC[r["c"]], c=1),
            C("z.mean()", lambda r: r["z"].mean()),
            C("(z - 1.0).abs().sum()", lambda r: np.abs(r["z"] - 1.0).sum()),
            C("z.min()", lambda r: r["z"].min()),
            C("(z * w).sum()", lambda r: (r["z"] * r["w"]).sum(), w=1),
            C("z[1] * tb * tc", lambda r: r["z"][1] * TB[r["b"]] * TC[r["c"]], b=1, c=1),
            # vector-valued integrands (Integrate only)
            dict(C("z", lambda r: r["z"]), vector=True),
            dict(C("z * 2.0", lambda r: r["z"] * 2.0), vector=True),
            dict(C("z * tc", lambda r: r["z"] * TC[r["c"]], c=1), vector=True),
        ]
    TV, TJ, TBCI = A["TV"], A["TJ"], A["TBCI"]
    return [
        C("ti", lambda r: TI[r["i"]]),
        C("tic", lambda r: TIC[r["i"], r["c"]], c=1),
        C("tci", lambda r: TCI[r["c"], r["i"]], c=1),
        C("tib", lambda r: TIB[r["i"], r["b"]], b=1),
        C("tbi", lambda r: TBI[r["b"], r["i"]], b=1),
        C("ti.exp()", lambda r: np.exp(TI[r["i"]])),
        C("ti * ti", lambda r: TI[r["i"]] ** 2),
        C("ti + u", lambda r: TI[r["i"]] + r["u"], u=1),
        C("Number(2.0)", lambda r: np.float64(2.0)),
        C("tc", lambda r: TC[r["c"]], c=1),
        C("ti * tic", lambda r: TI[r["i"]] * TIC[r["i"], r["c"]], c=1),
        C("-ti", lambda r: -TI[r["i"]]),
        C("ti.log()", lambda r: np.log(TI[r["i"]])),
        C("tic.reduce(ops.logaddexp, 'c')", lambda r: np.log(np.exp(TIC[r["i"]]).sum())),
        C("tic.reduce(ops.add, 'c')", lambda r: TIC[r["i"]].sum()),
        C("ti * tb", lambda r: TI[r["i"]] * TB[r["b"]], b=1),
        C("ti * tj", lambda r: TI[r["i"]] * TJ[r["j"]], j=1),
        C("ti.sigmoid()", lambda r: _sig(TI[r["i"]])),
        C("ti * 2.0 + 1.0", lambda r: TI[r["i"]] * 2.0 + 1.0),
        C("tbci", lambda r: TBCI[r["b"], r["c"], r["i"]], b=1, c=1),
        C("ti * y", lambda r: TI[r["i"]] * r["y"], y=1),
        dict(C("tv", lambda r: TV[r["i"]]), vector=True),
        dict(C("tv * tc", lambda r: TV[r["i"]] * TC[r["c"]], c=1), vector=True),
    ]


def d_pool2(A):
    """Integrands over both x (Real) and i (Bint[3]) for multi-variable Deltas."""
    TI, TIC, TIB = A["TI"], A["TIC"], A["TIB"]
    return [
        C("x * ti", lambda r: r["x"] * TI[r["i"]]),
        C("x * x + tic", lambda r: r["x"] ** 2 + TIC[r["i"], r["c"]], c=1),
        C("ti", lambda r: TI[r["i"]]),
        C("x * 2.0", lambda r: r["x"] * 2.0),
        C("x * tib", lambda r: r["x"] * TIB[r["i"], r["b"]], b=1),
        C("Number(2.0)", lambda r: np.float64(2.0)),
        C("x * ti * u", lambda r: r["x"] * TI[r["i"]] * r["u"], u=1),
    ]


def d_other(dom, v):
    """A value different from v in the same domain."""
    if dom[0] == "real":
        return np.asarray(v, dtype=np.float64) + 1.0
    return np.int64((int(v) + 1) % dom[0])


def d_rhos(inputs, seed, extra_points=None):
    """All environments over ``inputs``: integers exhaustively, reals at their fixed points."""
    names = sorted(inputs)
    axes = []
    for n in names:
        dom = inputs[n]
        if extra_points and n in extra_points:
            axes.append(extra_points[n])
        elif dom[0] == "real":
            axes.append(d_real_points(n, seed))
        else:
            axes.append(list(range(dom[0])))
    for combo in itertools.product(*axes):
        yield dict(zip(names, combo))


def d_delta_code(terms):
    """terms: list of (name, point component, ld component) -> python source of the Delta constructor."""
    if len(terms) == 1:
        name, p, ld = terms[0]
        if ld["code"] is None:
            return "Delta(%r, %s)" % (name, p["code"])
        return "Delta(%r, %s, %s)" % (name, p["code"], ld["code"])
    parts = []
    for name, p, ld in terms:
        parts.append("(%r, (%s, %s))" % (name, p["code"], ld["code"] if ld["code"] is not None else "Number(0.0)"))
    return "Delta((%s,))" % ", ".join(parts)


def d_snippet(seed, lines):
    A = d_arrays(seed)
    out = [SNIPPET_HEADER]
    for k, v in A.items():
        out.append("%s = %s" % (k, lit(v)))
    out.append(D_PREAMBLE)
    out.extend(lines)
    return "\n".join(out)


def d_union(*comps):
    inputs = {}
    for c in comps:
        inputs.update(c["inputs"])
    return inputs


def d_match(v, p):
    return bool(np.all(np.asarray(v) == np.asarray(p)))


_D_REBOUND = [0]


def d_ground(r, rho):
    """observe.ground, plus a second binding round for inputs the term did not declare.

    Delta.__init__ declares only the inputs of its points, not those of its log_densities, so a Delta whose
    log_density is batch-dependent leaves that batch input unbound after r(**subs) (a typing matter: C06).  The
    value is read after binding the leftover inputs as well; the occurrence is counted."""
    from funsor.tensor import Tensor

    try:
        return observe.ground(r, rho)
    except observe.Decline as e:
        if str(e) != "lazy:Tensor":
            raise
    subs = {n: observe.to_value(n, rho[n], observe._dom_of(d)) for n, d in r.inputs.items()}
    g = r(**subs) if subs else r
    for _ in range(2):
        if isinstance(g, Tensor) and g.inputs and all(n in rho for n in g.inputs):
            g = g(**{n: observe.to_value(n, rho[n], observe._dom_of(d)) for n, d in g.inputs.items()})
    if isinstance(g, Tensor) and not g.inputs:
        _D_REBOUND[0] += 1
        return np.asarray(g.data)
    raise observe.Decline("lazy:Tensor")


def d_compare(key, case, site, feats, r, exp_inputs, exp_out, expected, seed, code_lines, extra_points=None,
              transitions=2):
    """Ground funsor r on every environment over exp_inputs and compare with expected(rho)."""
    from funsor.terms import Funsor

    snip = lambda: d_snippet(seed, code_lines)  # noqa: E731
    if not isinstance(r, Funsor):
        return core.decline(key, "not-a-funsor:" + type(r).__name__)
    for n, d in r.inputs.items():
        got = observe._dom_of(d)
        if n not in exp_inputs or got != (exp_inputs[n][0], tuple(exp_inputs[n][1])):
            return core.violation(
                key, site,
                "result has input %r: %s; expected inputs %s\n  %s" % (n, d, exp_inputs, code_lines[-1]),
                case, dict(feats, what="inputs"), snip(), transitions=transitions,
            )
    got_out = observe._dom_of(r.output)
    if got_out is None or got_out[0] != "real" or tuple(got_out[1]) != tuple(exp_out):
        return core.violation(
            key, site, "result output %s; expected real%s\n  %s" % (r.output, tuple(exp_out), code_lines[-1]),
            case, dict(feats, what="output"), snip(), transitions=transitions,
        )
    npts = 0
    for rho in d_rhos(exp_inputs, seed, extra_points):
        want = expected(rho)
        if want is None or np.any(np.isnan(want)):
            continue
        try:
            got = d_ground(r, rho)
        except observe.Decline as e:
            return core.decline(key, str(e), transitions)
        npts += 1
        if not observe.values_equal(got, np.asarray(want, dtype=np.float64), "real"):
            pt = {k: (np.asarray(v).tolist()) for k, v in rho.items()}
            return core.violation(
                key, site,
                "at %s: funsor %s, reference %s\n  %s"
                % (pt, np.asarray(got).tolist(), np.asarray(want).tolist(), code_lines[-1]),
                case, dict(feats, what="value"), snip(), transitions=transitions,
            )
    if npts == 0:
        return core.skip(key, "reference-undefined-everywhere")
    return None  # all equal


def d_cases(tier):
    out = []
    A = d_arrays(0)
    for var in ("r0", "r2", "i3"):
        pool = d_pool(var, A)
        for pk in D_POINT_KINDS[var]:
            for lk in D_LD_KINDS:
                for vk in d_value_kinds(var, pk):
                    out.append(["D", "subs", var, pk, lk, vk])
        for pk in D_POINT_KINDS[var]:
            for lk in D_LD_KINDS:
                for fi, f in enumerate(pool):
                    if not f.get("vector"):
                        out.append(["D", "reduce", var, pk, lk, fi])
                        out.append(["D", "reduce_r", var, pk, lk, fi])
                    out.append(["D", "integrate", var, pk, lk, fi])
    npool2 = len(d_pool2(A))
    for ctor in ("ctor", "add", "add_r"):
        for pkx, pki in D_MULTI_POINTS:
            for lkx, lki in D_MULTI_LDS:
                for sk in D_MULTI_SUBS:
                    out.append(["D", "msubs", ctor, pkx, pki, lkx, lki, sk])
                for R in ("x", "i", "xi"):
                    for fi in range(npool2):
                        out.append(["D", "mreduce", ctor, pkx, pki, lkx, lki, R, fi])
                        out.append(["D", "mintegrate", ctor, pkx, pki, lkx, lki, R, fi])
    for ck in D_CHAIN_KINDS:
        out.append(["D", "chain", ck])
    out.extend(tr_cases(tier))
    return out


D_MULTI_POINTS = [("t0", "t0"), ("tb", "tb"), ("tb", "t0"), ("t0", "tbc"), ("num", "num"), ("lazy", "t0")]
D_MULTI_LDS = [("zero", "zero"), ("t0", "zero"), ("tb", "t0")]
D_MULTI_SUBS = ["x=eq", "x=ne", "i=eq", "i=ne", "x=eq,i=eq", "x=eq,i=ne", "x=part_b,i=eq", "x=var", "i=var"]
D_CHAIN_KINDS = ["subs", "reduce_x", "reduce_y", "reduce_xy", "reduce_x_f"]


def d_value_kinds(var, pk):
    if pk in ("lazy", "lazyv"):
        return ["sim_eq", "sim_ne", "seq_eq", "seq_ne", "ground_only", "var"]
    kinds = ["eq", "ne", "part_b", "part_c", "var"]
    if var == "r2":
        kinds.append("comp")
    if var != "r2" and pk in ("num", "t0"):
        kinds.append("py")
    return kinds


def d_value(var, dom, point, vk, A, name):
    """Substituted value component for value kind vk (ground points)."""
    is_real = dom[0] == "real"
    dt = "" if is_real else ", %d" % dom[0]

    def mk(arr_fn, inputs, **names):
        # materialise the value table over its inputs as a literal Tensor
        axes = [range(D_FREE[n][0]) for n in inputs]
        shape = tuple(D_FREE[n][0] for n in inputs)
        tab = np.array([arr_fn(dict(zip(inputs, idx))) for idx in itertools.product(*axes)])
        tab = tab.reshape(shape + tuple(dom[1]))
        if not is_real:
            tab = tab.astype(np.int64)
        code = "Tensor(%s, OrderedDict([%s])%s)" % (
            lit(tab), ", ".join("(%r, Bint[%d])" % (n, D_FREE[n][0]) for n in inputs), dt)
        return {"code": code, "ref": lambda r: tab[tuple(r[n] for n in inputs)],
                "inputs": {n: D_FREE[n] for n in inputs}}

    pin = sorted(point["inputs"])
    if vk == "eq":
        return mk(lambda r: point["ref"](r), pin)
    if vk == "ne":
        return mk(lambda r: d_other(dom, point["ref"](r)), pin)
    if vk == "comp":
        return mk(lambda r: point["ref"](r) + np.array([0.0, 1.0]), pin)
    if vk == "part_b":
        ins = sorted(set(pin) | {"b"})
        return mk(lambda r: point["ref"](r) if r["b"] == 0 else d_other(dom, point["ref"](r)), ins)
    if vk == "part_c":
        ins = sorted(set(pin) | {"c"})
        return mk(lambda r: point["ref"](r) if r["c"] != 1 else d_other(dom, point["ref"](r)), ins)
    if vk == "py":
        v = point["ref"]({})
        code = repr(float(v)) if is_real else repr(int(v))
        return {"code": code, "ref": lambda r: v, "inputs": {}}
    raise KeyError(vk)


def d_build_terms(var_specs, A):
    """[(var, pk, lk)] -> [(name, dom, point comp, ld comp)]"""
    terms = []
    for var, pk, lk in var_specs:
        name, dom = D_VARS[var]
        terms.append((name, dom, d_point(var, pk, A), d_ld(lk, A)))
    return terms


def d_run(ns, lines):
    """Execute the code lines in a copy of the namespace; the last line assigns r."""
    env = dict(ns)
    for ln in lines:
        exec(ln, env)
    return env["r"]


def d_feats(case):
    op = case[1]
    if op in ("subs", "reduce", "reduce_r", "integrate"):
        return {"op": op, "var": case[2], "point": case[3], "log_density": case[4]}
    if op in ("msubs", "mreduce", "mintegrate"):
        return {"op": op, "ctor": case[2], "point": case[3] + "+" + case[4], "log_density": case[5] + "+" + case[6]}
    if op == "tsubs":
        return {"op": op, "mode": case[2], "transform": "+".join(case[3]), "point": case[4], "log_density": case[5]}
    return {"op": op, "kind": str(case[2])}


def check_D(case, seed):
    key = repr(case)
    ns, A = d_namespace(seed)
    op = case[1]
    try:
        if op == "subs":
            return d_check_subs(key, case, seed, ns, A)
        if op in ("reduce", "reduce_r", "integrate"):
            _, _, var, pk, lk, fi = case
            terms = d_build_terms([(var, pk, lk)], A)
            f = d_pool(var, A)[fi]
            return d_check_reduce(key, case, seed, ns, terms, [terms[0][0]], f, op, "single")
        if op == "msubs":
            return d_check_msubs(key, case, seed, ns, A)
        if op in ("mreduce", "mintegrate"):
            _, _, ctor, pkx, pki, lkx, lki, R, fi = case
            terms = d_build_terms([("r0", pkx, lkx), ("i3", pki, lki)], A)
            f = d_pool2(A)[fi]
            return d_check_reduce(key, case, seed, ns, terms, list(R), f, op[1:], ctor)
        if op == "chain":
            return d_check_chain(key, case, seed, ns, A)
        if op == "tsubs":
            return d_check_tsubs(key, case, seed, ns, A)
    except UnownedRandomness as e:
        return core.skip(key, "unowned-random:" + str(e)[:60])
    raise ValueError(case)


def d_delta_expr(terms, ctor):
    t3 = [(n, p, ld) for n, _, p, ld in terms]
    if ctor in ("single", "ctor"):
        return d_delta_code(t3)
    parts = [d_delta_code([t]) for t in t3]
    if ctor == "add_r":
        parts = parts[::-1]
    return "(" + " + ".join(parts) + ")"


def d_remaining_points(terms, R, seed):
    """Candidate values for Delta variables that stay free: every point value over its environments + one other."""
    extra = {}
    for name, dom, p, ld in terms:
        if name in R:
            continue
        if dom[0] != "real":
            continue
        vals = []
        for rho in d_rhos(p["inputs"], seed):
            v = np.asarray(p["ref"](rho), dtype=np.float64)
            if not any(np.array_equal(v, t) for t in vals):
                vals.append(v)
        vals.append(vals[0] + 1.0)
        extra[name] = vals
    return extra


def d_check_reduce(key, case, seed, ns, terms, R, f, op, ctor):
    site = "Integrate:delta" if op == "integrate" else "Delta+f reduce"
    dexpr = d_delta_expr(terms, ctor)
    rset = "frozenset(%r)" % sorted(R)
    if op == "reduce":
        line = "r = (d + f).reduce(ops.logaddexp, %s)" % rset
    elif op == "reduce_r":
        line = "r = (f + d).reduce(ops.logaddexp, %s)" % rset
    else:
        line = "r = Integrate(d, f, %s)" % rset
    lines = ["d = " + dexpr, "f = " + f["code"], line]
    try:
        r = d_run(ns, lines)
    except UnownedRandomness:
        raise
    except Exception as e:  # noqa
        return core.decline(key, "raised:" + type(e).__name__, 1)
    comps = [t[2] for t in terms] + [t[3] for t in terms] + [f]
    exp_inputs = d_union(*comps)
    for name, dom, p, ld in terms:
        if name not in R:
            exp_inputs[name] = dom
        else:
            exp_inputs.pop(name, None)
    # f may mention Delta variables it does not bind (e.g. 'ti' only): they are bound by the Delta point anyway
    vector = bool(f.get("vector"))
    exp_out = (2,) if vector else ()

    def expected(rho):
        env = dict(rho)
        # points may depend on free inputs only (never on other Delta variables here)
        ok_match = True
        for name, dom, p, ld in terms:
            pv = p["ref"](env)
            if name in R:
                continue
            if not d_match(env[name], pv):
                ok_match = False
        pts = {name: p["ref"](env) for name, dom, p, ld in terms}
        env.update(pts)
        fv = np.asarray(f["ref"](env), dtype=np.float64)
        if op == "integrate":
            if not ok_match:
                return np.zeros_like(fv)
            return math.exp(sum(ld["ref"](env) for _, _, _, ld in terms)) * fv
        if not ok_match:
            return np.full_like(fv, NEG_INF)
        return fv + sum(ld["ref"](env) for name, _, _, ld in terms if name not in R)

    extra = d_remaining_points(terms, R, seed)
    bad = d_compare(key, case, site, d_feats(case), r, exp_inputs, exp_out, expected, seed, lines, extra)
    if bad is not None:
        return bad
    lazy = any(t[2]["code"] in ("y * 2.0", "y", "w * 2.0", "w", "j") for t in terms)
    cls = "D:%s:%s:%s" % (op, "lazy-point" if lazy else "ground-point", type(r).__name__.split("[")[0])
    return core.ok(key, True, cls, 3 + len(terms))


def d_check_subs(key, case, seed, ns, A):
    _, _, var, pk, lk, vk = case
    name, dom = D_VARS[var]
    point, ld = d_point(var, pk, A), d_ld(lk, A)
    site = "Delta.eager_subs"
    dexpr = d_delta_code([(name, point, ld)])
    lines = ["d = " + dexpr]
    subs_env = {}  # free inputs bound by the substitution: name -> value
    exp_inputs = d_union(point, ld)
    extra = {}
    if vk == "var":
        new = name + "2"
        lines.append("r = d(%s=Variable(%r, %s))" % (name, new, "Real" if dom == ("real", ()) else
                                                      ("Reals[2]" if dom[0] == "real" else "Bint[3]")))
        exp_inputs[new] = dom
        terms = [(new, dom, point, ld)]
        extra = d_remaining_points(terms, [], seed)
        valref = lambda r: r[new]  # noqa: E731
    elif vk in ("sim_eq", "sim_ne", "seq_eq", "seq_ne", "ground_only"):
        pv_name = sorted(point["inputs"])[0]  # the variable the lazy point depends on
        pdom = D_FREE[pv_name]
        if pdom[0] == "real":
            yv = d_real_points(pv_name, seed)[0]
            ycode = "Tensor(%s)" % lit(yv)
        else:
            yv = 1
            ycode = "1"
        pval = point["ref"]({pv_name: yv})
        val = pval if vk.endswith("eq") or vk == "ground_only" else d_other(dom, pval)
        vcode = "Tensor(%s%s)" % (lit(val), "" if dom[0] == "real" else ", OrderedDict(), %d" % dom[0])
        if vk.startswith("sim"):
            lines.append("r = d(%s=%s, %s=%s)" % (name, vcode, pv_name, ycode))
            subs_env[pv_name] = yv
            exp_inputs.pop(pv_name)
        elif vk.startswith("seq"):
            lines.append("r = d(%s=%s)(%s=%s)" % (pv_name, ycode, name, vcode))
            subs_env[pv_name] = yv
            exp_inputs.pop(pv_name)
        else:
            lines.append("r = d(%s=%s)" % (name, vcode))
            if pdom[0] == "real":
                extra = {pv_name: [np.asarray(yv), np.asarray(yv) + 1.0]}
        valref = lambda r: val  # noqa: E731
    else:
        value = d_value(var, dom, point, vk, A, name)
        lines.append("r = d(%s=%s)" % (name, value["code"]))
        exp_inputs.update(value["inputs"])
        valref = value["ref"]
    try:
        r = d_run(ns, lines)
    except UnownedRandomness:
        raise
    except Exception as e:  # noqa
        return core.decline(key, "raised:" + type(e).__name__, 1)

    def expected(rho):
        env = dict(rho)
        env.update(subs_env)
        if d_match(valref(env), point["ref"](env)):
            return np.float64(ld["ref"](env))
        return np.float64(NEG_INF)

    bad = d_compare(key, case, site, d_feats(case), r, exp_inputs, (), expected, seed, lines, extra)
    if bad is not None:
        return bad
    return core.ok(key, True, "D:subs:%s:%s" % (vk, type(r).__name__.split("[")[0]), 2)


def d_check_msubs(key, case, seed, ns, A):
    _, _, ctor, pkx, pki, lkx, lki, sk = case
    terms = d_build_terms([("r0", pkx, lkx), ("i3", pki, lki)], A)
    site = "Delta.eager_subs"
    lines = ["d = " + d_delta_expr(terms, ctor)]
    exp_inputs = d_union(*([t[2] for t in terms] + [t[3] for t in terms]))
    valrefs, args = {}, []
    free_terms = []
    for item in sk.split(","):
        nm, vk = item.split("=")
        var = "r0" if nm == "x" else "i3"
        name, dom, point, ld = [t for t in terms if t[0] == nm][0]
        if vk == "var":
            new = nm + "2"
            args.append("%s=Variable(%r, %s)" % (nm, new, "Real" if dom[0] == "real" else "Bint[3]"))
            exp_inputs[new] = dom
            valrefs[nm] = (lambda new: (lambda r: r[new]))(new)
            free_terms.append((new, dom, point, ld))
            continue
        if point["code"] in ("y * 2.0",):
            return core.skip(key, "lazy-point-ground-subs-covered-in-single")
        value = d_value(var, dom, point, vk, A, name)
        args.append("%s=%s" % (nm, value["code"]))
        exp_inputs.update(value["inputs"])
        valrefs[nm] = value["ref"]
    for name, dom, point, ld in terms:
        if name not in valrefs:
            exp_inputs[name] = dom
            valrefs[name] = (lambda name: (lambda r: r[name]))(name)
            free_terms.append((name, dom, point, ld))
    lines.append("r = d(%s)" % ", ".join(args))
    try:
        r = d_run(ns, lines)
    except UnownedRandomness:
        raise
    except Exception as e:  # noqa
        return core.decline(key, "raised:" + type(e).__name__, 1)

    def expected(rho):
        tot = 0.0
        for name, dom, point, ld in terms:
            if not d_match(valrefs[name](rho), point["ref"](rho)):
                return np.float64(NEG_INF)
            tot += ld["ref"](rho)
        return np.float64(tot)

    extra = d_remaining_points(free_terms, [], seed)
    bad = d_compare(key, case, site, d_feats(case), r, exp_inputs, (), expected, seed, lines, extra)
    if bad is not None:
        return bad
    return core.ok(key, True, "D:msubs:%s:%s" % (sk, type(r).__name__.split("[")[0]), 3)


# -- transform substitution: Delta('y', p, c)(y = t(x)) for the invertible transforms solve() handles ---------
#
# funsor's convention (confirmed on the pinned tree, test_delta.py::test_transform_exp/log): the result is a Delta on
# x at x0 = t^-1(p) with log-density c + log|dt/dx|(x0).  The reference uses textbook derivatives, never
# op.log_abs_det_jacobian.

TR = OrderedDict([
    # name: (code of t(arg), t, log|t'|)
    ("exp", ("ops.exp(%s)", np.exp, lambda v: v)),
    ("log", ("ops.log(%s)", np.log, lambda v: -np.log(v))),
    ("tanh", ("ops.tanh(%s)", np.tanh, lambda v: np.log(1.0 - np.tanh(v) ** 2))),
    ("atanh", ("ops.atanh(%s)", np.arctanh, lambda v: -np.log(1.0 - v ** 2))),
    ("sigmoid", ("ops.sigmoid(%s)", _sig, lambda v: np.log(_sig(v) * (1.0 - _sig(v))))),
])
TR_AFFINE = OrderedDict([("scale", "%s * 2.0"), ("shift", "%s + 1.0")])  # not handled by solve(): declines
TR_LDS = ["omit", "zero", "num", "t0", "tb", "tc"]
_TR_INTEGRATED = [0]


def tr_cases(tier):
    out = []
    names = list(TR)
    for t in names + list(TR_AFFINE):
        for pk in ("t0", "tb", "v2"):
            for lk in TR_LDS:
                out.append(["D", "tsubs", "single", [t], pk, lk])
    for t1 in names:
        for t2 in names:
            for mode in ("compose", "chain"):
                for pk in ("t0", "tb"):
                    for lk in ("zero", "num", "tb"):
                        out.append(["D", "tsubs", mode, [t1, t2], pk, lk])
    for t in names:
        for mode in ("two-y", "two-both"):
            for lk in ("zero", "num", "tb"):
                out.append(["D", "tsubs", mode, [t], "t0", lk])
    return out


def d_check_tsubs(key, case, seed, ns, A):
    from funsor.delta import Delta

    _, _, mode, ts, pk, lk = case
    site = "Delta.eager_subs"
    feats = {"op": "tsubs", "mode": mode, "transform": "+".join(ts), "point": pk, "log_density": lk}
    # the point is p = t(x*), x* generic in (0.5, 0.9): inside the domain of every transform
    if pk == "t0":
        xstar, pin, pcode_in = 0.5 + 0.4 * (generic_fill(70, (), seed) - 0.5) / 1.5, [], "OrderedDict()"
    elif pk == "tb":
        xstar, pin, pcode_in = 0.5 + 0.4 * (generic_fill(71, (2,), seed) - 0.5) / 1.5, ["b"], "B2"
    else:
        xstar, pin, pcode_in = 0.5 + 0.4 * (generic_fill(72, (2,), seed) - 0.5) / 1.5, [], "OrderedDict()"
    xstar = np.asarray(xstar, dtype=np.float64)
    dom = "Reals[2]" if pk == "v2" else "Real"
    affine = ts[0] in TR_AFFINE
    # forward map and total log|Jacobian| at the solution, by the textbook formulas
    with np.errstate(all="ignore"):
        if affine:
            pval, ldj = (xstar * 2.0 if ts[0] == "scale" else xstar + 1.0), None
            tcode = TR_AFFINE[ts[0]] % "xx"
        elif len(ts) == 1:
            code, fwd, lad = TR[ts[0]]
            pval, ldj, tcode = fwd(xstar), lad(xstar), code % "xx"
        else:
            (c1, f1, l1), (c2, f2, l2) = TR[ts[0]], TR[ts[1]]
            mid = f2(xstar)  # y = t1(t2(x))
            pval, ldj = f1(mid), l1(mid) + l2(xstar)
            tcode = c1 % (c2 % "xx")
    if pk == "v2" and ldj is not None:
        ldj = np.asarray(ldj).sum()
    if not np.all(np.isfinite(pval)) or (ldj is not None and not np.all(np.isfinite(ldj))):
        return core.skip(key, "reference-undefined:composition-outside-domain")
    ld = d_ld({"omit": "zero"}.get(lk, lk), A)
    ldcode = None if lk == "omit" else (ld["code"] or "Number(0.0)")
    pcode = "Tensor(%s, %s)" % (lit(pval), pcode_in)
    lines = ["xx = Variable('x', %s); zz = Variable('z', %s)" % (dom, dom)]
    two = mode.startswith("two")
    if two:
        # second Delta variable v (point q, log-density 0.25); 'two-both' substitutes v = log(u) as well
        q = float(generic_fill(73, (), seed))
        dcode = lambda lc: "Delta((('y', (%s, %s)), ('v', (Tensor(%s), Number(0.25)))))" % (  # noqa: E731
            pcode, lc or "Number(0.0)", lit(np.asarray(q)))
    else:
        dcode = lambda lc: ("Delta('y', %s)" % pcode) if lc is None else "Delta('y', %s, %s)" % (pcode, lc)  # noqa: E731
    tx = tcode
    if mode == "chain":
        c1, c2 = TR[ts[0]][0], TR[ts[1]][0]
        sub = "(y=%s)(x=%s)" % (c1 % "xx", c2 % "zz")
        out_name = "z"
    elif mode == "two-both":
        sub = "(y=%s, v=ops.log(Variable('u', Real)))" % tx
        out_name = "x"
    else:
        sub = "(y=%s)" % tx
        out_name = "x"
    lines.append("r = %s%s" % (dcode(ldcode), sub))
    lines0 = [lines[0], "r = %s%s" % (dcode(None if not two else "Number(0.0)"), sub)]
    try:
        r = d_run(ns, lines)
        r0 = d_run(ns, lines0)
    except UnownedRandomness:
        raise
    except Exception as e:  # noqa
        return core.decline(key, "raised:" + type(e).__name__, 1)
    snip = lambda: d_snippet(seed, lines)  # noqa: E731

    def viol(what, msg):
        return core.violation(key, site, msg + "\n  " + lines[-1], case, dict(feats, what=what), snip(), transitions=4)

    # (b) structure and inputs: a Delta on the transform's variable (+ v/u), inputs = that variable + batch inputs
    if not isinstance(r, Delta) or not isinstance(r0, Delta):
        return core.decline(key, "lazy:" + type(r).__name__.split("[")[0], 2)
    terms, terms0 = OrderedDict(r.terms), OrderedDict(r0.terms)
    want_names = {out_name} | ({"u"} if mode == "two-both" else {"v"} if two else set())
    if set(terms) != want_names or set(terms0) != want_names:
        return viol("inputs", "result binds %s, expected %s" % (sorted(terms), sorted(want_names)))
    allowed = want_names | set(pin) | set(ld["inputs"])
    if not set(r.inputs) <= allowed or not want_names <= set(r.inputs):
        return viol("inputs", "result inputs %s, expected %s (+ batch inputs %s)" % (
            sorted(r.inputs), sorted(want_names), sorted(allowed - want_names)))
    rho_inputs = {n: D_FREE[n] for n in set(pin) | set(ld["inputs"])}
    npts = 0
    for rho in d_rhos(rho_inputs, seed):
        bsel = (rho["b"],) if pin else ()
        x0_ref = xstar[bsel] if pin else xstar
        want_ld = float(ld["ref"](rho)) + float(np.asarray(ldj)[bsel] if (pin and np.ndim(ldj)) else ldj)
        extra_ld, extra_subs = 0.0, {}
        if two:
            extra_ld = 0.25
            if mode == "two-both":  # v = log(u): u0 = exp(q), log|d log u / du| = -q
                extra_ld += -q
                extra_subs["u"] = np.asarray(math.exp(q))
            else:
                extra_subs["v"] = np.asarray(q)
        # funsor's own solution point (read from the term) must be the textbook inverse
        try:
            x0 = np.asarray(d_ground(terms[out_name][0], rho), dtype=np.float64)
            x00 = np.asarray(d_ground(terms0[out_name][0], rho), dtype=np.float64)
        except observe.Decline as e:
            return core.decline(key, "point-" + str(e), 2)
        if not close(x0, x0_ref, rtol=1e-6, atol=1e-9) or not np.array_equal(x0, x00):
            return viol("point", "at %s: solution point %s, textbook inverse %s" % (rho, x0.tolist(), np.asarray(x0_ref).tolist()))
        if mode == "two-both":
            try:
                u0 = np.asarray(d_ground(terms["u"][0], rho), dtype=np.float64)
            except observe.Decline as e:
                return core.decline(key, "point-" + str(e), 2)
            if not close(u0, math.exp(q), rtol=1e-6):
                return viol("point", "u solution %s, expected %s" % (u0.tolist(), math.exp(q)))
            extra_subs["u"] = u0
        for where, xv in (("solution", x0), ("elsewhere", x0 + 0.125)):
            env = dict(rho)
            env[out_name] = xv
            env.update(extra_subs)
            try:
                got = float(d_ground(r, env))
                got0 = float(d_ground(r0, env))
            except observe.Decline as e:
                return core.decline(key, str(e), 3)
            npts += 1
            want = want_ld + extra_ld if where == "solution" else NEG_INF
            # (a) additivity in the log-density (differential, convention-free)
            c_here = float(ld["ref"](rho))
            if not close(got, got0 + c_here):
                return viol("additivity", "at %s (%s, x=%s): with log_density %r the value is %r, but the same Delta "
                            "with log_density 0 gives %r (+ %r expected)" % (rho, where, xv.tolist(), c_here, got, got0, c_here))
            # (b) change-of-variables convention: c + log|dt/dx| at the solution, -inf elsewhere
            if not close(got, want, rtol=1e-6, atol=1e-9):
                return viol("value", "at %s (%s, x=%s): value %r, expected log_density + log|dt/dx| = %r"
                            % (rho, where, xv.tolist(), got, want))
        # (d) integration against a test function commutes: Integrate(result, 1 + |x|^2, x) = exp(ld) (1 + |x0|^2)
        if not two:
            try:
                env2 = dict(ns)
                env2["r"] = r
                exec(lines[0], env2)
                integ = eval("Integrate(r, 1.0 + (%s * %s).sum(), %r)" % (
                    "zz" if out_name == "z" else "xx", "zz" if out_name == "z" else "xx", out_name), env2) \
                    if pk == "v2" else eval("Integrate(r, 1.0 + %s * %s, %r)" % (
                        "zz" if out_name == "z" else "xx", "zz" if out_name == "z" else "xx", out_name), env2)
                gi = float(d_ground(integ, rho))
            except observe.Decline:
                gi = None
            except Exception:  # noqa
                gi = None
            if gi is not None:
                _TR_INTEGRATED[0] += 1
                wi = math.exp(want_ld) * (1.0 + float((x0 * x0).sum()))
                if not close(gi, wi, rtol=1e-6):
                    return viol("integrate", "at %s: Integrate(result, 1+|x|^2) = %r, expected exp(log_density + "
                                "log|J|) (1+|x0|^2) = %r" % (rho, gi, wi))
    if npts == 0:
        return core.skip(key, "reference-undefined-everywhere")
    return core.ok(key, lk not in ("omit", "zero"), "D:tsubs:%s:%s" % (mode, "+".join(ts)), 4)


def d_check_chain(key, case, seed, ns, A):
    """Delta('x', px, ldx) + Delta('y', x * 2.0, ldy): the second point depends on the first Delta's variable."""
    _, _, ck = case
    px, ldx, ldy = float(A["PX0"]), float(A["LD0"]), 0.5
    lines = ["d = Delta('x', Tensor(PX0), Tensor(LD0)) + Delta('y', x * 2.0, Number(0.5))"]
    xs = [np.asarray(px), np.asarray(px) + 1.0]
    ys = [np.asarray(2.0 * px), np.asarray(2.0 * px) + 1.0, np.asarray(2.0 * (px + 1.0))]
    real = ("real", ())

    def dens(xv, yv):  # pointwise log-density of the sum of the two Deltas
        a = ldx if xv == px else NEG_INF
        b = ldy if yv == 2.0 * xv else NEG_INF
        return a + b

    if ck == "subs":
        lines.append("r = d")
        exp_inputs, extra = {"x": real, "y": real}, {"x": xs, "y": ys}
        expected = lambda r: np.float64(dens(float(r["x"]), float(r["y"])))  # noqa: E731
        site = "Delta.eager_subs"
    elif ck == "reduce_x":
        # unit mass in x at px: the y-Delta is evaluated at x = px
        lines.append("r = d.reduce(ops.logaddexp, 'x')")
        exp_inputs, extra = {"y": real}, {"y": ys}
        expected = lambda r: np.float64(ldy if float(r["y"]) == 2.0 * px else NEG_INF)  # noqa: E731
        site = "Delta+f reduce"
    elif ck == "reduce_y":
        lines.append("r = d.reduce(ops.logaddexp, 'y')")
        exp_inputs, extra = {"x": real}, {"x": xs}
        expected = lambda r: np.float64(ldx if float(r["x"]) == px else NEG_INF)  # noqa: E731
        site = "Delta+f reduce"
    elif ck == "reduce_xy":
        lines.append("r = d.reduce(ops.logaddexp, frozenset(['x', 'y']))")
        exp_inputs, extra = {}, {}
        expected = lambda r: np.float64(0.0)  # noqa: E731
        site = "Delta+f reduce"
    else:
        lines.append("r = (d + (x * y + 1.0)).reduce(ops.logaddexp, frozenset(['x', 'y']))")
        exp_inputs, extra = {}, {}
        expected = lambda r: np.float64(px * 2.0 * px + 1.0)  # noqa: E731
        site = "Delta+f reduce"
    try:
        r = d_run(ns, lines)
    except UnownedRandomness:
        raise
    except Exception as e:  # noqa
        return core.decline(key, "raised:" + type(e).__name__, 1)
    bad = d_compare(key, case, site, d_feats(case), r, exp_inputs, (), expected, seed, lines, extra)
    if bad is not None:
        return bad
    return core.ok(key, True, "D:chain:%s:%s" % (ck, type(r).__name__.split("[")[0]), 3)


# ---------------------------------------------------------------------------
# part G: Gaussian._sample

G_NAMES = ("x", "y")
G_H = 0.7


def g_cases(tier):
    out = []
    shapes_all = [[[]], [[2]], [[], []], [[], [2]], [[2], []], [[2], [2]]]
    for shapes in shapes_all:
        k = len(shapes)
        bposs = [-1] + list(range(k + 1))
        for bpos in bposs:
            for extra in (0, 1):
                for mask in range(1, 2 ** k):
                    for mode in ("e0", "e2", "rp"):
                        out.append(["G", shapes, bpos, extra, mask, mode])
    if tier == "thorough":
        # two batch inputs (sizes 2, 3) around the reals, and a 3-particle sample input
        for shapes in shapes_all:
            k = len(shapes)
            for extra in (0, 1):
                for mask in range(1, 2 ** k):
                    for mode in ("e0", "e3", "rp"):
                        out.append(["G", shapes, "both", extra, mask, mode])
    return out


def g_setup(shapes, bpos, extra, seed):
    from funsor.domains import Bint, Reals
    from funsor.gaussian import Gaussian

    shapes = [tuple(sh) for sh in shapes]
    dims = [int(np.prod(sh)) if sh else 1 for sh in shapes]
    dim = sum(dims)
    rank = dim + extra
    if bpos == "both":
        bnames, bshape = ["b", "c"], (2, 3)
    elif bpos == -1:
        bnames, bshape = [], ()
    else:
        bnames, bshape = ["b"], (2,)
    ps = 0.5 * (generic_fill(50, bshape + (dim, rank), seed) - 1.25)
    for d in range(dim):
        ps[..., d, d] += 1.5
    wv = generic_fill(51, bshape + (rank,), seed) - 1.0
    items = [(G_NAMES[j], Reals[shapes[j]]) for j in range(len(shapes))]
    if bpos == "both":
        items = [("b", Bint[2])] + items + [("c", Bint[3])]
    elif bpos != -1:
        items.insert(bpos, ("b", Bint[2]))
    inputs = OrderedDict(items)
    g = Gaussian(wv, ps, inputs)
    offsets, o = {}, 0
    for j, d in enumerate(dims):
        offsets[G_NAMES[j]] = (o, o + d)
        o += d
    P = ps @ np.swapaxes(ps, -1, -2)
    eta = (ps @ wv[..., None])[..., 0]
    c = -0.5 * (wv * wv).sum(-1)
    return {"g": g, "ps": ps, "wv": wv, "inputs": inputs, "shapes": shapes, "dims": dims, "dim": dim,
            "bnames": bnames, "bshape": bshape, "offsets": offsets, "P": P, "eta": eta, "c": c}


def g_reference(st, bidx, a, b):
    """Dense conditional of block a given block b for batch element bidx: (cov_a, mean_fn(xb), mass_fn(xb))."""
    P, eta, c = st["P"][bidx], st["eta"][bidx], float(st["c"][bidx])
    Paa, Pab, Pbb = P[np.ix_(a, a)], P[np.ix_(a, b)], P[np.ix_(b, b)]
    cov = np.linalg.inv(Paa)
    sign, logdet = np.linalg.slogdet(Paa)

    def mean(xb):
        return cov @ (eta[a] - Pab @ xb)

    def mass(xb):
        v = eta[a] - Pab @ xb
        return float(
            c + eta[b] @ xb - 0.5 * xb @ Pbb @ xb + 0.5 * v @ cov @ v + 0.5 * len(a) * math.log(2 * math.pi)
            - 0.5 * logdet
        )

    return cov, mean, mass


def g_snippet(st, case, sampled, sample_code, noise):
    lines = [SNIPPET_HEADER]
    lines.append("white_vec = %s" % lit(st["wv"]))
    lines.append("prec_sqrt = %s" % lit(st["ps"]))
    lines.append(
        "g = Gaussian(white_vec, prec_sqrt, OrderedDict([%s]))"
        % ", ".join("(%r, %s)" % (k, v) for k, v in st["inputs"].items())
    )
    if noise is not None:
        lines.append("N = %s  # prescribed white noise" % lit(noise))
        lines.append("np.random.randn = lambda *shape: N.reshape(shape)")
    lines.append("y = g.sample(frozenset(%r), %s)" % (sorted(sampled), sample_code))
    lines.append("print(y)")
    lines.append("P = prec_sqrt @ np.swapaxes(prec_sqrt, -1, -2); eta = (prec_sqrt @ white_vec[..., None])[..., 0]")
    lines.append("print('dense precision', P.tolist(), 'info vector', eta.tolist())")
    lines.append("# expected: sampled point = cov_a (eta_a - P_ab x_b) + L noise, L L' = cov_a = inv(P_aa);")
    lines.append("#           mass over the sampled block = closed-form Gaussian marginal")
    return "\n".join(lines)


def check_G(case, seed):
    import funsor.ops as ops
    from funsor.domains import Bint, Real, Reals

    _, shapes, bpos, extra, mask, mode = case
    key = repr(case)
    st = g_setup(shapes, bpos, extra, seed)
    g = st["g"]
    k = len(st["shapes"])
    s_names = [G_NAMES[j] for j in range(k) if (mask >> j) & 1]
    r_names = [G_NAMES[j] for j in range(k) if not (mask >> j) & 1]
    a = [t for n in s_names for t in range(*st["offsets"][n])]
    b = [t for n in r_names for t in range(*st["offsets"][n])]
    dim_a, dim_b = len(a), len(b)
    sampled = frozenset(s_names)
    ss = {"e0": (), "e2": (2,), "e3": (3,), "rp": ()}[mode]
    pshape = ss + st["bshape"]  # positions: (particle.., batch..)
    pnames = (["p"] if ss else []) + st["bnames"]
    nshape = pshape + (dim_a,)
    if mode == "rp":
        sample_inputs = OrderedDict(noise=Reals[st["bshape"] + (dim_a,)])
        sample_code = "OrderedDict(noise=Reals[%s])" % ", ".join(str(t) for t in st["bshape"] + (dim_a,))
    else:
        sample_inputs = OrderedDict(p=Bint[ss[0]]) if ss else OrderedDict()
        sample_code = "OrderedDict(p=Bint[%d])" % ss[0] if ss else "OrderedDict()"
    positions = list(itertools.product(*[range(t) for t in pshape]))
    # prescribed noises
    noises = [("zero", None, np.zeros(nshape))]
    for pos in positions:
        for t in range(dim_a):
            N = np.zeros(nshape)
            N[pos + (t,)] = 1.0
            noises.append(("e", (pos, t), N))
    noises.append(("generic", None, generic_fill(52, nshape, seed) - 1.0))
    # lattice for the remaining real inputs
    lattice = [np.zeros(dim_b)]
    if dim_b:
        for t in range(dim_b):
            e = np.zeros(dim_b)
            e[t] = G_H
            lattice.append(e)
        lattice.append(generic_fill(53, (dim_b,), seed) - 0.75)
    feats = {"mode": mode, "partial": bool(r_names), "rank_extra": extra, "batch": str(bpos)}

    def viol(site, msg, noise=None, **extra_f):
        return core.violation(
            key, site, msg, case, dict(feats, **extra_f),
            g_snippet(st, case, sampled, sample_code, None if mode == "rp" else noise), transitions=len(noises),
        )

    def rho_of(pos, xb, noise):
        rho = dict(zip(pnames, pos))
        for n in r_names:
            lo, hi = st["offsets"][n]
            idx = [b.index(t) for t in range(lo, hi)]
            rho[n] = xb[idx].reshape(st["shapes"][G_NAMES.index(n)])
        if mode == "rp":
            rho["noise"] = noise
        return rho

    def run(noise):
        SOURCE.prescribe([] if mode == "rp" else [("randn", noise)])
        y = g.sample(sampled, OrderedDict(sample_inputs))
        want_log = [] if mode == "rp" else [("randn", tuple(nshape))]
        return y, (list(SOURCE.log) == want_log and SOURCE.exhausted()), list(SOURCE.log)

    def read(y, noise, lat):
        """-> points[pos][li] = vector over block a; masses[pos][li]"""
        deltas, others = read_sum(y)
        if set(deltas) != set(s_names):
            raise Unreadable("delta-names:%s" % sorted(deltas))
        pts, ms = {}, {}
        for pos in positions:
            bidx = pos[len(ss):]
            for li in lat:
                rho = rho_of(pos, lattice[li], noise)
                vec = np.zeros(dim_a)
                tot = 0.0
                for n in s_names:
                    point, ld = deltas[n]
                    v = np.asarray(d_ground(point, rho), dtype=np.float64)
                    if v.shape != st["shapes"][G_NAMES.index(n)]:
                        raise Unreadable("point-shape:%s" % (v.shape,))
                    lo, hi = st["offsets"][n]
                    vec[[a.index(t) for t in range(lo, hi)]] = v.reshape(-1)
                    tot += float(d_ground(ld, rho))
                for t in others:
                    tot += float(d_ground(t, rho))
                pts[pos, li] = vec
                ms[pos, li] = tot
        return pts, ms

    all_lat = list(range(len(lattice)))
    results = {}
    ycache = None
    try:
        if mode == "rp":
            y, ok_src, log = run(None)
            if not ok_src:
                return core.skip(key, "unowned-random:requests %s" % (log,))
            ycache = y
        for kind, where, N in noises:
            if mode != "rp":
                y, ok_src, log = run(N)
                if not ok_src:
                    return core.skip(key, "unowned-random:requests %s" % (log,))
            else:
                y = ycache
            # inputs / output
            want = OrderedDict(g.inputs)
            want.update(sample_inputs)
            if dict(y.inputs) != dict(want):
                return viol(
                    "Gaussian._sample:inputs",
                    "result inputs %s, expected %s"
                    % ({n: str(v) for n, v in y.inputs.items()}, {n: str(v) for n, v in want.items()}), N,
                )
            if y.output != Real:
                return viol("Gaussian._sample:inputs", "result output %s, expected Real" % (y.output,), N)
            lat = all_lat if kind != "e" else ([0, len(lattice) - 1] if dim_b else [0])
            results[kind, where] = read(y, N, lat)
            if kind == "zero":
                y0 = y
    except UnownedRandomness as e:
        return core.skip(key, "unowned-random:" + str(e)[:60])
    except Unreadable as e:
        return core.decline(key, "unreadable-result:" + str(e))
    except observe.Decline as e:
        return core.decline(key, "point-" + str(e))
    except Exception as e:  # noqa
        return core.decline(key, "raised:" + type(e).__name__)

    tol = dict(rtol=RTOL_CHOL, atol=1e-8)
    p0, m0 = results["zero", None]
    pg, mg = results["generic", None]
    Ngen = noises[-1][2]
    for pos in positions:
        bidx = pos[len(ss):]
        cov, mean, mass = g_reference(st, bidx, a, b)
        # mean (conditional on the remaining inputs) at noise 0
        for li in all_lat:
            want = mean(lattice[li])
            if not close(p0[pos, li], want, **tol):
                return viol(
                    "Gaussian._sample:mean",
                    "at position %s, remaining inputs %s: sample at zero noise %s, dense %smean %s"
                    % (pos, lattice[li].tolist(), p0[pos, li].tolist(), "conditional " if dim_b else "", want.tolist()),
                    noises[0][2], lattice_point=li,
                )
            wm = mass(lattice[li])
            for what, mm in (("zero", m0), ("generic", mg)):
                if not close(mm[pos, li], wm, **tol):
                    return viol(
                        "Gaussian._sample:mass",
                        "at position %s, remaining inputs %s (%s noise): mass of the sample over %s is %r, "
                        "closed-form marginal %r" % (pos, lattice[li].tolist(), what, s_names, mm[pos, li], wm),
                        noises[0][2] if what == "zero" else Ngen,
                    )
        # linear part
        L = np.zeros((dim_a, dim_a))
        for t in range(dim_a):
            pe, me = results["e", (pos, t)]
            L[:, t] = pe[pos, 0] - p0[pos, 0]
            for li in ([0, len(lattice) - 1] if dim_b else [0]):
                if not close(pe[pos, li] - p0[pos, li], L[:, t], rtol=RTOL_CHOL, atol=1e-7):
                    return viol(
                        "Gaussian._sample:affine",
                        "at position %s: response to noise e_%d depends on the remaining inputs: %s vs %s"
                        % (pos, t, (pe[pos, li] - p0[pos, li]).tolist(), L[:, t].tolist()), noises[0][2],
                    )
                if not close(me[pos, li], mass(lattice[li]), **tol):
                    return viol(
                        "Gaussian._sample:mass",
                        "at position %s (noise e_%d): mass %r, closed form %r" % (pos, t, me[pos, li],
                                                                              mass(lattice[li])), noises[0][2],
                    )
            for other in positions:
                if other != pos and not close(pe[other, 0], p0[other, 0], rtol=RTOL_CHOL, atol=1e-9):
                    return viol(
                        "Gaussian._sample:affine",
                        "noise at position %s component %d changed the sample at position %s: %s -> %s"
                        % (pos, t, other, p0[other, 0].tolist(), pe[other, 0].tolist()), noises[0][2], cross_talk=True,
                    )
        if not close(L @ L.T, cov, rtol=RTOL_CHOL, atol=1e-8):
            return viol(
                "Gaussian._sample:cov",
                "at position %s: linear part L of the sample gives L L' = %s, dense covariance inv(P_aa) = %s"
                % (pos, (L @ L.T).tolist(), cov.tolist()), noises[0][2],
            )
        for li in all_lat:
            want = p0[pos, li] + L @ Ngen[pos]
            if not close(pg[pos, li], want, rtol=RTOL_CHOL, atol=1e-7):
                return viol(
                    "Gaussian._sample:affine",
                    "at position %s: sample at generic noise %s is %s, affine prediction %s"
                    % (pos, Ngen[pos].tolist(), pg[pos, li].tolist(), want.tolist()), Ngen,
                )
    # determinism
    try:
        y2, ok_src, log = run(noises[0][2])
        p2, m2 = read(y2, noises[0][2], all_lat)
    except Exception as e:  # noqa
        return viol("Gaussian._sample:determinism", "second run raised %s" % type(e).__name__, noises[0][2])
    if any(not np.array_equal(p2[q], p0[q]) or m2[q] != m0[q] for q in p0):
        return viol("Gaussian._sample:determinism", "two runs with identical noise differ", noises[0][2])
    # funsor-level reduce of the zero-noise sample
    counters = {"G_executions": len(noises) + 1, "G_points_checked": len(positions) * len(lattice)}
    cls = "G:%s:%s" % (mode, "partial" if r_names else "full")
    try:
        m = y0.reduce(ops.logaddexp, sampled)
        for pos in positions:
            cov, mean, mass = g_reference(st, pos[len(ss):], a, b)
            for li in all_lat:
                rho = rho_of(pos, lattice[li], noises[0][2])
                v = d_ground(m, rho)
                if not close(v, mass(lattice[li]), **tol):
                    return viol(
                        "Gaussian._sample:mass",
                        "at position %s, remaining %s: sample.reduce(logaddexp, %s) = %r, closed form %r"
                        % (pos, lattice[li].tolist(), s_names, float(v), mass(lattice[li])), noises[0][2], via="reduce",
                    )
        counters["G_funsor_reduce_checked"] = 1
    except observe.Decline as e:
        counters["G_funsor_reduce_declined"] = 1
        cls += ":reduce-declined:" + str(e)
    except Exception as e:  # noqa
        counters["G_funsor_reduce_declined"] = 1
        cls += ":reduce-raised:" + type(e).__name__
    return core.ok(key, True, cls, len(noises) + 2, counters)


# ---------------------------------------------------------------------------
# part M: Contraction._sample on Tensor + Gaussian mixtures, Integrate under MonteCarlo


def m_cases(tier):
    out = []
    for xshape in ([], [2]):
        for sampled in ("x", "i", "ix"):
            for ss in ([], [2]):
                S = 2 if ss else 1
                if "i" in sampled:
                    for alts in itertools.product(range(3), repeat=S):
                        for fill in ((0, 1) if "x" in sampled else (0,)):
                            out.append(["M", "mix", xshape, sampled, ss, list(alts), fill])
                else:
                    for fill in (0, 1):
                        out.append(["M", "mix", xshape, sampled, ss, [], fill])
    for fk in ("a", "ba", "ac", "vec"):
        for ss in ([], [2]):
            D = (2 if ss else 1) * 2
            out.append(["M", "mc", fk, ss, []])
            for d in range(D):
                for alt in (1, 2):
                    out.append(["M", "mc", fk, ss, [[d, alt]]])
            if tier == "thorough":
                for d1, d2 in itertools.combinations(range(D), 2):
                    for a1 in (1, 2):
                        for a2 in (1, 2):
                            out.append(["M", "mc", fk, ss, [[d1, a1], [d2, a2]]])
    return out


def m_mids(logits):
    logits = np.asarray(logits, dtype=np.float64)
    p = np.exp(logits - logits.max())
    p = p / p.sum()
    c = np.cumsum(p)
    lo = np.concatenate([[0.0], c[:-1]])
    return (lo + c) / 2.0


def check_M(case, seed):
    if case[1] == "mix":
        return m_check_mix(case, seed)
    return m_check_mc(case, seed)


def m_check_mix(case, seed):
    import funsor.ops as ops
    from funsor.domains import Bint, Real, Reals
    from funsor.gaussian import Gaussian
    from funsor.tensor import Tensor

    _, _, xshape, sampled_code, ss, alts, fill = case
    key = repr(case)
    xshape = tuple(xshape)
    dim = 2 if xshape else 1
    ps = 0.5 * (generic_fill(60, (3, dim, dim), seed) - 1.25)
    for d in range(dim):
        ps[:, d, d] += 1.5
    wv = generic_fill(61, (3, dim), seed) - 1.0
    tdat = generic_fill(62, (3,), seed) - 1.0
    t = Tensor(tdat, OrderedDict(i=Bint[3]))
    g = Gaussian(wv, ps, OrderedDict(i=Bint[3], x=Reals[xshape]))
    mix = t + g
    names = {"x": ["x"], "i": ["i"], "ix": ["i", "x"]}[sampled_code]
    sampled = frozenset(names)
    sample_inputs = OrderedDict(p=Bint[2]) if ss else OrderedDict()
    S = 2 if ss else 1
    # reference
    P = ps @ np.swapaxes(ps, -1, -2)
    eta = (ps @ wv[..., None])[..., 0]
    lognorm = np.array([
        -0.5 * (wv[i] @ wv[i]) + 0.5 * eta[i] @ np.linalg.solve(P[i], eta[i]) + 0.5 * dim * math.log(2 * math.pi)
        - 0.5 * np.linalg.slogdet(P[i])[1] for i in range(3)
    ])
    w = tdat + lognorm  # mass of component i
    total = ref_logsumexp(w)
    mids = m_mids(w)
    rand_values = [float(mids[k]) for k in alts]
    feats = {"sampled": sampled_code, "particles": S}

    def snippet():
        lines = [SNIPPET_HEADER, "t = Tensor(%s, OrderedDict(i=Bint[3]))" % lit(tdat),
                 "g = Gaussian(%s, %s, OrderedDict(i=Bint[3], x=Reals[%s]))" % (lit(wv), lit(ps), ", ".join(map(str, xshape))),
                 "U = %r; np.random.rand = lambda *sh: np.array([U.pop(0) for _ in range(int(np.prod(sh)))]).reshape(sh)" % rand_values,
                 "np.random.randn = lambda *sh: np.full(sh, %r)" % float(fill),
                 "y = (t + g).sample(frozenset(%r), OrderedDict(%s))" % (sorted(names), "p=Bint[2]" if ss else ""),
                 "print(y)", "print(y.reduce(ops.logaddexp, frozenset(['i', 'x'])), 'expected total mass', %r)" % total]
        return "\n".join(lines)

    def viol(site, msg, **f):
        return core.violation(key, site, msg, case, dict(feats, **f), snippet(), transitions=3)

    def run():
        SOURCE.prescribe_policy(rand_values, fill)
        y = mix.sample(sampled, OrderedDict(sample_inputs))
        return y, list(SOURCE.log), SOURCE.exhausted()

    try:
        y, log, used = run()
        if not used:
            return core.skip(key, "unowned-random:requests %s" % (log,))
        want = OrderedDict(mix.inputs)
        want.update(sample_inputs)
        if dict(y.inputs) != dict(want):
            return viol("Contraction._sample:inputs", "result inputs %s, expected %s" % (
                {n: str(v) for n, v in y.inputs.items()}, {n: str(v) for n, v in want.items()}))
        if y.output != Real:
            return viol("Contraction._sample:inputs", "result output %s" % (y.output,))
        tot = y.reduce(ops.logaddexp, frozenset(["i", "x"]))
        per = y.reduce(ops.logaddexp, "x") if sampled_code == "x" else None
        deltas, others = read_sum(y)
        for p in range(S):
            rho = {"p": p} if ss else {}
            v = d_ground(tot, rho)
            if not close(v, total, rtol=RTOL_CHOL, atol=1e-8):
                return viol("Contraction._sample:mass", "particle %d: total mass of the sample over (i, x) %r, of the "
                            "mixture %r" % (p, float(v), total))
            if per is not None:
                for i in range(3):
                    v = d_ground(per, dict(rho, i=i))
                    if not close(v, w[i], rtol=RTOL_CHOL, atol=1e-8):
                        return viol("Contraction._sample:mass", "particle %d, i=%d: mass over x %r, expected %r"
                                    % (p, i, float(v), float(w[i])))
            if "i" in names:
                if "i" not in deltas:
                    return core.decline(key, "unreadable-result:no-delta-i")
                sel = int(d_ground(deltas["i"][0], rho))
                if sel != alts[p]:
                    return viol("Contraction._sample:support", "particle %d: draw %r (midpoint of cell %d of the "
                                "component masses %s) selected i=%d" % (p, rand_values[p], alts[p], w.tolist(), sel))
            if "x" in names:
                if "x" not in deltas:
                    return core.decline(key, "unreadable-result:no-delta-x")
                comps = [int(d_ground(deltas["i"][0], rho))] if "i" in names else [0, 1, 2]
                for i in comps:
                    xv = np.asarray(d_ground(deltas["x"][0], dict(rho, i=i)), dtype=np.float64).reshape(-1)
                    mean = np.linalg.solve(P[i], eta[i])
                    if fill == 0:
                        if not close(xv, mean, rtol=RTOL_CHOL, atol=1e-8):
                            return viol("Gaussian._sample:mean", "particle %d component %d: sample at zero noise %s, "
                                        "mean %s" % (p, i, xv.tolist(), mean.tolist()))
                    else:  # (x - mean)' P (x - mean) = |noise|^2 for any square root of the covariance
                        q = float((xv - mean) @ P[i] @ (xv - mean))
                        if not close(q, float(dim), rtol=RTOL_CHOL, atol=1e-8):
                            return viol("Gaussian._sample:cov", "particle %d component %d: Mahalanobis norm of the "
                                        "response to unit noise in every coordinate is %r, expected %d" % (p, i, q, dim))
        y2, log2, used2 = run()
        if log2 != log or str(y2) != str(y):
            return viol("Contraction._sample:determinism", "two runs with identical prescribed draws differ")
    except UnownedRandomness as e:
        return core.skip(key, "unowned-random:" + str(e)[:60])
    except Unreadable as e:
        return core.decline(key, "unreadable-result:" + str(e))
    except observe.Decline as e:
        return core.decline(key, "result-" + str(e))
    except Exception as e:  # noqa
        return core.decline(key, "raised:" + type(e).__name__)
    return core.ok(key, True, "M:mix:%s:%s" % (sampled_code, "+".join(k for k, _ in log)), 3, {"M_executions": 2})


def m_check_mc(case, seed):
    import funsor.ops as ops  # noqa: F401
    from funsor.domains import Bint
    from funsor.integrate import Integrate
    from funsor.montecarlo import MonteCarlo
    from funsor.tensor import Tensor

    _, _, fk, ss, devs = case
    key = repr(case)
    xdat = generic_fill(63, (2, 3), seed) - 1.0
    x = Tensor(xdat, OrderedDict(b=Bint[2], a=Bint[3]))
    if fk == "a":
        fdat, finputs = generic_fill(64, (3,), seed), OrderedDict(a=Bint[3])
    elif fk == "ba":
        fdat, finputs = generic_fill(65, (2, 3), seed), OrderedDict(b=Bint[2], a=Bint[3])
    elif fk == "ac":
        fdat, finputs = generic_fill(66, (3, 2), seed), OrderedDict(a=Bint[3], c=Bint[2])
    else:
        fdat, finputs = generic_fill(67, (3, 2), seed), OrderedDict(a=Bint[3])  # output Reals[2]
    f = Tensor(fdat, finputs)
    S = 2 if ss else 1
    D = S * 2
    alt_of = {int(d): int(a) for d, a in devs}
    sel_ref = [alt_of.get(d, 0) for d in range(D)]
    vals = [float(m_mids(xdat[d % 2])[sel_ref[d]]) for d in range(D)]
    mass = [ref_logsumexp(xdat[b]) for b in range(2)]
    kwargs = {"p": Bint[2]} if ss else {}
    feats = {"integrand": fk, "particles": S}

    def snippet():
        return "\n".join([
            SNIPPET_HEADER, "x = Tensor(%s, OrderedDict(b=Bint[2], a=Bint[3]))" % lit(xdat),
            "f = Tensor(%s, OrderedDict([%s]))" % (lit(fdat), ", ".join("(%r, %s)" % kv for kv in finputs.items())),
            "U = %r; np.random.rand = lambda *sh: np.array([U.pop(0) for _ in range(int(np.prod(sh)))]).reshape(sh)" % vals,
            "with MonteCarlo(%s):" % ("p=Bint[2]" if ss else ""), "    r = Integrate(x, f, 'a')", "print(r)",
            "# expected r[p, b, ...] = exp(logsumexp_a x[b, a]) * f[a = inverse CDF of the draw of (p, b)]",
        ])

    def run():
        SOURCE.prescribe_policy(vals, 0.0)
        with MonteCarlo(**kwargs):
            r = Integrate(x, f, "a")
        return r, list(SOURCE.log), SOURCE.exhausted()

    try:
        r, log, used = run()
        if not used or log != [("rand", ((2,) if ss else ()) + (2,))]:
            return core.skip(key, "unowned-random:requests %s" % (log,))
        exp_inputs = {"b": (2, ())}
        if ss:
            exp_inputs["p"] = (2, ())
        if fk == "ac":
            exp_inputs["c"] = (2, ())

        def expected(rho):
            d = (rho.get("p", 0)) * 2 + rho["b"]
            a = sel_ref[d]
            if fk == "a" or fk == "vec":
                fv = fdat[a]
            elif fk == "ba":
                fv = fdat[rho["b"], a]
            else:
                fv = fdat[a, rho["c"]]
            return math.exp(mass[rho["b"]]) * np.asarray(fv)

        bad = d_compare(key, case, "MonteCarlo:Integrate", feats, r, exp_inputs, (2,) if fk == "vec" else (),
                        expected, seed, ["r = <see snippet>"], None, transitions=2)
        if bad is not None:
            if bad["status"] == "violation":
                bad["violation"]["snippet"] = snippet()
            return bad
        r2, log2, used2 = run()
        if log2 != log or str(r2) != str(r):
            return core.violation(key, "MonteCarlo:Integrate", "two runs with identical prescribed draws differ",
                                  case, dict(feats, what="determinism"), snippet())
    except UnownedRandomness as e:
        return core.skip(key, "unowned-random:" + str(e)[:60])
    except Exception as e:  # noqa
        return core.decline(key, "raised:" + type(e).__name__)
    return core.ok(key, True, "M:mc:%s:%s" % (fk, type(r).__name__.split("[")[0]), 3, {"M_executions": 2})


# ---------------------------------------------------------------------------
# module interface


def bounds(tier):
    quick = tier == "quick"
    A = d_arrays(0)
    return {
        "delta": {
            "variables": {"x": "Real", "z": "Reals[2]", "i": "Bint[3]"},
            "point_kinds": D_POINT_KINDS,
            "log_density_kinds": D_LD_KINDS,
            "integrand_pool_sizes": {v: len(d_pool(v, A)) for v in D_VARS},
            "operations": ["d(name=value)", "(d + f).reduce(logaddexp, name)", "(f + d).reduce(logaddexp, name)",
                           "Integrate(d, f, name)"],
            "multi": {"constructions": ["Delta(terms)", "Delta_x + Delta_i", "Delta_i + Delta_x"],
                      "points": D_MULTI_POINTS, "log_densities": D_MULTI_LDS, "substitutions": D_MULTI_SUBS,
                      "reduced_sets": ["x", "i", "xi"], "pool": len(d_pool2(A)), "chain": D_CHAIN_KINDS},
            "transform_substitution": {
                "transforms": list(TR), "declining_affine": list(TR_AFFINE), "log_density_kinds": TR_LDS,
                "points": ["scalar", "batched over b", "Reals[2]"],
                "modes": ["single", "compose t1(t2(x)) (all 25)", "chain d(y=t1(x))(x=t2(z)) (all 25)",
                          "two-variable Delta: y only / y and v"],
                "evaluated_at": "funsor's own solution point (must equal the textbook inverse) and solution + 0.125",
                "oracles": ["additivity in log_density vs the same Delta with log_density 0",
                            "value = log_density + sum of textbook log|dt/dx| at the solution, -inf elsewhere",
                            "Integrate(result, 1+|x|^2, x) = exp(value) (1+|x0|^2)"],
            },
            "free_real_inputs_points": 2,
        },
        "tensor_sampling": {
            "inputs": "1-3", "sizes": "1-3" if quick else "1-4",
            "fills": "generic; -inf in every single cell position; 'row scales' for signatures with a non-sampled batch "
                     "input of >= 2 rows: batch row r shifted by %s[(r + variant) %% 4], variant in %s, alone and with -inf in "
                     "cell c of every low row, c in {0%s}; sample inputs () and (p:2)%s"
                     % (list(T_ROW_OFFSETS), "{0,1}" if quick else "{0,1,2,3}",
                        ", 1..n-1 when n <= 4" if quick else ", 1..n-1 when n <= 9",
                        " (p:2: 0 deviations only)" if quick else " (p:2 with a size-4 input: 0 deviations only)"),
            "sampled": "every non-empty subset",
            "sample_inputs": "(), (p:2), (p:2, q:3); for -inf fills (p:2, q:3) only when cells <= %d" % (6 if quick else 12),
            "draw_alternatives": "midpoint of every non-empty CDF interval, every interior boundary, 0.0, nextafter(1,0)",
            "deviation_bound": 1 if quick else 2,
            "deviating_draws": "every (particle, batch row) for the generic fill; the rows holding the -inf cell otherwise",
            "pair_bound": None if quick else "groups with (#deviating draws) * (#alternatives - 1) <= 32",
            "funsor_level_reduce": "0-deviation execution and every deviation of the first deviating draw"
            + ("" if quick else "; every 0- and 1-deviation execution of signatures with sizes <= 3"),
        },
        "tensor_sampling_histories": {
            "what": "2-3 sample calls on ONE Tensor object; every call checked against the single-call reference",
            "sizes": h_sizes(tier),
            "fills": "generic; -inf in every single position" + (" (for > 9 cells: first and last position)" if quick else ""),
            "pairs": "every ordered pair of sampled subsets incl. the same subset twice; sample sizes of the two calls "
                     "in %s; last call: 0 deviations and every single deviation" % (H_SS_PAIRS,),
            "triples": "every order of three distinct subsets (all three when 2 inputs; {a,b,c}, {ab,ac,bc}, {a,bc,abc} "
                       "when 3 inputs), first call with p:2, last call 0-2 deviations",
        },
        "gaussian_sampling": {
            "real_input_shapes": [[[]], [[2]], [[], []], [[], [2]], [[2], []], [[2], [2]]],
            "batch": "none or b:2 at every position" + ("" if quick else "; b:2 first and c:3 last"),
            "rank": "dim, dim+1", "sampled": "every non-empty subset of the real inputs",
            "modes": ["eager", "eager with p:%d" % (2 if quick else 3), "reparametrised (noise: Reals[batch.., dim])"],
            "noises": "0, e_t at every (particle, batch) position, one generic", "lattice": "0, 0.7 e_i, generic",
        },
        "mixture_montecarlo": {"mixture": "Tensor(i:3) + Gaussian(i:3, x: Real | Reals[2])",
                               "sampled": ["x", "i", "ix"], "particles": [1, 2],
                               "montecarlo_integrands": ["a", "ba", "ac", "vector"],
                               "deviation_bound": 1 if quick else 2},
    }


def cases(tier):
    # D, M, T simplest-first; the (slow) Gaussian groups are spread evenly through the list so that no worker
    # chunk consists of slow cases only
    fast = d_cases(tier) + m_cases(tier) + h_cases(tier) + t_cases(tier)
    slow = g_cases(tier)
    step = max(1, len(fast) // (len(slow) + 1))
    out, k = [], 0
    for n, c in enumerate(fast):
        if n % step == 0 and k < len(slow):
            out.append(slow[k])
            k += 1
        out.append(c)
    out.extend(slow[k:])
    return out


CHECKS = {"D": check_D, "T": check_T, "TP": check_TP, "G": check_G, "M": check_M, "H": check_H}


def check(case, seed):
    install_source()
    case = lang.tuplify(case)
    case = _listify(case)
    with warnings.catch_warnings():
        warnings.simplefilter("ignore")
        with np.errstate(all="ignore"):
            before = _D_REBOUND[0]
            out = CHECKS[case[0]](case, seed)
            if _D_REBOUND[0] != before:
                out.setdefault("counters", {})["undeclared_log_density_inputs_rebound"] = _D_REBOUND[0] - before
            return out


def finalize(report, tier, seed):
    fam = {}
    for k, n in report.outcomes.items():
        head = k.split(":")[0]
        if head in ("D", "T", "TP", "G", "M", "H"):
            fam[head] = fam.get(head, 0) + n
    return {"ok_cases_by_family": fam, "family_legend": {
        "D": "Delta semantics", "T": "Tensor._sample single executions", "TP": "Tensor._sample pairs of deviations "
        "(one case = all alternative pairs of two draws)", "G": "Gaussian._sample groups", "M": "mixture / MonteCarlo",
        "H": "histories of 2-3 sample calls on one Tensor object"}}


def _listify(x):
    if isinstance(x, (list, tuple)):
        return [_listify(y) for y in x]
    return x


def describe(case):
    return repr(case)
