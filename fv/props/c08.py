"""C08 -- normal forms and contraction-order optimisation preserve value.

Sum-product expressions over every supported semiring -- R(+, x(t1..tn), X), nested sums of products, products of
sums (distribution), each optionally wrapped in a substitution or with one operand scaled by a free real parameter --
over operands whose input sets range over the subsets of {i:2, j:3, k:2, m:1}, with EVERY non-empty subset X of reduced
variables (including variables some or all operands do not mention).  Each expression is evaluated naively (eager),
normalized then evaluated, unfolded then evaluated, through apply_optimizer, and (einsum family) through
funsor.einsum.einsum / naive_einsum / naive_contract_einsum on three back ends; every completed result is compared
with the brute-force reference table.  Normalizing a normalized term must return the identical object.
"""
import itertools

from .. import core, gen, observe
from ..ref import lang

ID = "C08"
LEVEL_RULE = (
    "semiring expressions of the listed shapes x operand input-sets x every reduced subset x 7 semirings x 4 evaluation "
    "routes (+ idempotence of normalize); einsum: all equations with <= 3 operands over <= 3 symbols (operand strings of "
    "length <= 2) x 3 back ends x 3 entry points; non-trivial = >= 2 routes completed and agreed with the reference; distinct = case text"
)
ASSUMPTIONS = [
    "carriers as declared by the statement: positive data for (max|min, mul), booleans for (or, and)",
    "reference = point-wise denotation of the naive expression (fv.ref.lang.den): replicate, multiply, fold",
    "a route that raises or stays lazy is a decline",
]

SEMIRINGS = [("add", "mul"), ("logaddexp", "add"), ("max", "add"), ("min", "add"), ("max", "mul"), ("min", "mul"), ("or", "and")]
NAMES = ("i", "j", "k", "m")


def _subsets(names, maxlen):
    out = [()]
    for r in range(1, maxlen + 1):
        out += list(itertools.combinations(names, r))
    return out


def _leaf(names, lid, boolean=False):
    if boolean:
        n = 1
        for x in names:
            n *= gen.SIZES[x]
        return gen.T(names, dtype=2, contents=[1 if (c * 5 + lid) % 3 else 0 for c in range(n)])
    return gen.T(names, lid=100 + lid)


def _prod(op, terms):
    e = terms[0]
    for t in terms[1:]:
        e = ("B", op, e, t)
    return e


def _red(op, e, names):
    return ("R", op, e, tuple((n, gen.SIZES[n]) for n in names))


def expr_cases(tier):
    out = []
    sub2 = _subsets(NAMES, 2)  # 11 input sets
    small = [(), ("i",), ("j",), ("i", "j"), ("j", "k"), ("k", "m")]
    Xs = [x for x in _subsets(NAMES, 4) if x]
    Xs_small = [("i",), ("j",), ("i", "j"), ("k",), ("i", "k"), ("j", "m"), ("i", "j", "k")]
    for plus, times in SEMIRINGS:
        b = plus == "or"
        # S1: R(+, t1 x t2, X), all pairs of input sets (unordered), all X
        for a1, a2 in itertools.combinations_with_replacement(sub2, 2):
            for X in Xs:
                out.append(_red(plus, _prod(times, [_leaf(a1, 1, b), _leaf(a2, 2, b)]), X))
        # S1 with three operands (reduced operand menu)
        menu3 = small if tier != "thorough" else sub2
        for a1, a2, a3 in itertools.combinations_with_replacement(menu3, 3):
            for X in (Xs if tier == "thorough" else Xs_small):
                out.append(_red(plus, _prod(times, [_leaf(a1, 1, b), _leaf(a2, 2, b), _leaf(a3, 3, b)]), X))
        # S2: nested sum of products
        for a1, a2, a3 in itertools.product(small, repeat=3):
            for Y in (("j",), ("k",), ("j", "k")):
                for X in (("i",), ("i", "j"), ("m",), ("i", "k")):
                    inner = _red(plus, _prod(times, [_leaf(a2, 2, b), _leaf(a3, 3, b)]), Y)
                    out.append(_red(plus, _prod(times, [_leaf(a1, 1, b), inner]), X))
        # S3: product of sums (distribution) and a sum inside a product
        for a1, a2 in itertools.product(small, repeat=2):
            for X1 in (("i",), ("j",), ("i", "j")):
                for X2 in (("j",), ("k",), ("i",)):
                    out.append(_prod(times, [_red(plus, _leaf(a1, 1, b), X1), _red(plus, _leaf(a2, 2, b), X2)]))
            for a3 in small[:4]:
                for X in (("i",), ("j",), ("i", "j"), ("k",)):
                    out.append(_red(plus, _prod(times, [_leaf(a1, 1, b), ("B", plus, _leaf(a2, 2, b), _leaf(a3, 3, b))]), X))
        # S4: a reduced sub-term used twice (a DAG: both occurrences are the same lazily built object)
        for a1, a2 in itertools.product(small[1:], small):
            for X1 in (("i",), ("j",), ("j", "k")):
                s_ = _red(plus, _leaf(a1, 1, b), X1)
                for X2 in (("j",), ("i",), ("k",), ("i", "k")):
                    out.append(_red(plus, _prod(times, [s_, s_, _leaf(a2, 2, b)]), X2))
                    out.append(_prod(times, [s_, _red(plus, _prod(times, [s_, _leaf(a2, 2, b)]), X2)]))
                    out.append(_red(plus, _prod(times, [s_, s_, s_, _leaf(a2, 2, b)]), X2))  # three uses
        # S4b: a reduced PRODUCT r used twice, once directly and once inside a semiring sum: r x (r + k), (r + k) x r, ...
        for a1, a3 in ((("i",), ("i", "j")), (("i", "j"), ("j",)), (("j", "k"), ("j",)), (("i",), ("i",))):
            for X1 in (("i",), ("j",)):
                r_ = _red(plus, _prod(times, [_leaf(a1, 1, b), _leaf(a3, 3, b)]), X1)
                for a2 in small[:5]:
                    k_ = _leaf(a2, 2, b)
                    out.append(_prod(times, [r_, ("B", plus, r_, k_)]))
                    out.append(_prod(times, [("B", plus, r_, k_), r_]))
                    out.append(_prod(times, [r_, ("B", plus, k_, r_)]))
                    out.append(_prod(times, [r_, k_, ("B", plus, r_, k_)]))
                    out.append(("B", plus, _prod(times, [r_, k_]), r_))
        # S5: a semiring sum with a product as a direct operand (distribution in the other direction), optionally reduced
        for a1, a2, a3 in itertools.product(small[:5], repeat=3):
            body = ("B", plus, _prod(times, [_leaf(a1, 1, b), _leaf(a2, 2, b)]), _leaf(a3, 3, b))
            out.append(body)
            out.append(_prod(times, [body, _leaf(a1, 4, b)]))
            for X in (("i",), ("j",), ("i", "j"), ("k",)):
                out.append(_red(plus, body, X))
        # S6: two-key substitutions (swap / renaming chain / index tensors) into a lazy sum-product
        for a1, a2 in (("i", "k"), ("k", "i"), ("i", "j")):
            for a3 in ((), ("k",), ("i", "k")):
                body0 = _prod(times, [_leaf((a1, a2) if a1 != a2 else (a1,), 1, b), _leaf(a3, 2, b)])
                for body in (body0, _red(plus, body0, ("j",))):
                    if not lang.well_typed(body):
                        continue
                    tb = lang.ty(body).inputs
                    if "i" in tb and "k" in tb:
                        out.append(("S", body, (("i", gen.V("k", 2)), ("k", gen.V("i", 2)))))
                        out.append(("S", body, (("i", gen.V("k", 2)), ("k", gen.V("f", 2)))))
                        out.append(("S", body, (("i", gen.T("k", dtype=2, contents=[1, 0])), ("k", gen.T("m", dtype=2, contents=[1])))))
        if b:
            continue
        # free real parameter on one operand; substitution wrapper
        x = gen.V("x", "real")
        for a1, a2 in itertools.product(small, repeat=2):
            for X in Xs_small:
                out.append(_red(plus, _prod(times, [_leaf(a1, 1), (("B", times, _leaf(a2, 2), x))]), X))
                body = _red(plus, _prod(times, [_leaf(a1, 1), _leaf(a2, 2)]), X)
                t = lang.ty(body) if lang.well_typed(body) else None
                if t:
                    for n in list(t.inputs)[:1]:
                        out.append(("S", body, ((n, gen.N(0, gen.SIZES[n])),)))
                        out.append(("S", body, ((n, gen.V("f", gen.SIZES[n])),)))
    seen, uniq = set(), []
    for e in out:
        if e not in seen and lang.well_typed(e):
            seen.add(e)
            uniq.append(e)
    return uniq


def einsum_cases(tier):
    syms = "abc" if tier != "thorough" else "abcd"
    maxops = 3
    operands = [""] + list(syms) + ["".join(p) for p in itertools.permutations(syms, 2)]
    out = []
    for n in range(1, maxops + 1):
        for ins in itertools.combinations_with_replacement(operands, n) if n == 3 else itertools.product(operands, repeat=n):
            used = sorted(set("".join(ins)))
            for r in range(0, len(used) + 1):
                for outs in itertools.combinations(used, r):
                    eq = ",".join(ins) + "->" + "".join(outs)
                    for backend in ("numpy", "funsor.einsum.numpy_log", "funsor.einsum.numpy_map"):
                        out.append([eq, backend, "generic"])
                    if n >= 2 and len(outs) <= 1:
                        # log-weights far from 0: products below the range where exp() underflows
                        for backend in ("funsor.einsum.numpy_log", "funsor.einsum.numpy_map"):
                            out.append([eq, backend, "deep"])
    # operands with three dimensions in every order (a permutation that is not its own inverse needs >= 3 dims), alone and
    # next to one smaller operand, every output subset in every order of <= 2 symbols
    s3 = "abc"
    for p3 in itertools.permutations(s3):
        p3 = "".join(p3)
        for other in [None, "", "a", "b", "c", "ab", "ba", "bc", "ca"]:
            ins = (p3,) if other is None else (p3, other)
            for r in range(0, 3):
                for outs in itertools.permutations(s3, r):
                    eq = ",".join(ins) + "->" + "".join(outs)
                    for backend in ("numpy", "funsor.einsum.numpy_log", "funsor.einsum.numpy_map"):
                        out.append([eq, backend, "generic"])
    return out


def cases(tier):
    return [["expr", e] for e in expr_cases(tier)] + [["einsum"] + c for c in einsum_cases(tier)]


def bounds(tier):
    return {"names_sizes": {n: gen.SIZES[n] for n in NAMES}, "semirings": ["%s/%s" % s for s in SEMIRINGS],
            "routes": ["eager", "normalize+reinterpret", "unfold+reinterpret", "apply_optimizer", "normalize-idempotence"],
            "einsum_symbols": 3 if tier != "thorough" else 4, "einsum_operands": 3,
            "einsum_entry_points": ["einsum", "naive_einsum", "naive_contract_einsum", "back-end module einsum on raw arrays", "opt_einsum.contract(backend=module)"],
            "einsum_three_dim_operands": "every order of abc, alone and next to one operand of <= 2 dims, outputs of <= 2 symbols in every order"}


def describe(case):
    if case[0] == "expr":
        return lang.code(lang.tuplify(case[1]))
    return "einsum %s" % (case[1:],)


def _features(e, route, what):
    f = {"head": lang.head(e), "route": route, "what": what}
    # does some reduction range over a variable that no operand below it mentions / that only some mention?
    absent_all = False
    absent_some = False
    for s in lang.subterms(e):
        if s[0] == "R":
            own = lang.ty(s[2]).inputs
            leaves = [x for x in lang.subterms(s[2]) if x[0] == "T"]
            for n, _ in s[3]:
                if n not in own:
                    absent_all = True
                elif any(n not in lf[1] for lf in leaves):
                    absent_some = True
    f["reduced_var_absent_from_all_operands"] = absent_all
    f["reduced_var_absent_from_some_operand"] = absent_some
    return f


def check_expr(e, seed):
    import funsor.interpretations as I
    from funsor import interpreter
    from funsor.optimizer import apply_optimizer, unfold

    key = repr(e)
    t, tbl = lang.table(e, seed)
    if all(v is None for _, v in tbl):
        return core.skip(key, "reference-undefined-everywhere")
    counters = {}
    n_ok = 0

    def route_eager():
        return lang.build(e, seed)

    def route_normalize():
        with I.normalize:
            x = lang.build(e, seed)
        return interpreter.reinterpret(x)

    def route_unfold():
        with I.lazy:
            x = lang.build(e, seed)
        with unfold:
            y = interpreter.reinterpret(x)
        return interpreter.reinterpret(y)

    def route_optimizer():
        with I.lazy:
            x = lang.build(e, seed)
        return apply_optimizer(x)

    for name, fn in (("eager", route_eager), ("normalize", route_normalize), ("unfold", route_unfold), ("optimizer", route_optimizer)):
        try:
            r = fn()
        except Exception as ex:
            c = "decline:%s:%s" % (name, type(ex).__name__)
            counters[c] = counters.get(c, 0) + 1
            continue
        kind, msg = observe.compare(r, t, tbl)
        if kind.startswith("violation"):
            what = kind.split(":", 1)[1]
            return core.violation(key, "route:" + name, "%s via %s: %s\n  %s" % (kind, name, msg, lang.code(e)), ["expr", e], _features(e, name, what), lang.snippet(e, seed))
        if kind == "ok":
            n_ok += 1
        else:
            c = "decline:%s:%s" % (name, kind.split(":")[-1])
            counters[c] = counters.get(c, 0) + 1
    # normalizing a normalized term returns the identical object
    try:
        with I.normalize:
            x = lang.build(e, seed)
            y = interpreter.reinterpret(x)
        if y is not x:
            return core.violation(key, "normalize-idempotence", "reinterpreting a normalized term under normalize built a different object:\n  %s\n  first:  %s\n  second: %s" % (lang.code(e), str(x)[:300], str(y)[:300]), ["expr", e], _features(e, "idempotence", "identity"), lang.snippet(e, seed, interpretation="normalize"))
        n_ok += 1
    except Exception as ex:
        c = "decline:idempotence:%s" % type(ex).__name__
        counters[c] = counters.get(c, 0) + 1
    if n_ok < 2:
        return core.decline(key, "fewer-than-two-routes-completed", counters=counters)
    return core.ok(key, True, "ok:%s" % lang.head(e), transitions=n_ok, counters=counters)


def check_einsum(eq, backend, seed, fill="generic"):
    import numpy as np
    from collections import OrderedDict
    from funsor.domains import Bint
    from funsor.einsum import einsum, naive_contract_einsum, naive_einsum
    from funsor.tensor import Tensor

    key = "einsum:%s:%s:%s" % (eq, backend, fill)
    sizes = {"a": 2, "b": 3, "c": 2, "d": 1}
    ins, outs = eq.split("->")
    ins = ins.split(",")
    arrays = []
    for q, s in enumerate(ins):
        shape = tuple(sizes[ch] for ch in s)
        a = lang.generic_fill(200 + q, shape, seed)
        arrays.append(a)
    plus, times = {"numpy": ("add", "mul"), "funsor.einsum.numpy_log": ("logaddexp", "add"), "funsor.einsum.numpy_map": ("max", "add")}[backend]
    if plus != "add":
        arrays = [np.log(a) for a in arrays]
    if fill == "deep":
        arrays = [a * 20.0 - 400.0 for a in arrays]
    # brute-force reference over all symbol assignments
    used = sorted(set("".join(ins)))
    red = [ch for ch in used if ch not in outs]
    f_times = {"mul": np.multiply, "add": np.add}[times]
    f_plus = {"add": np.add, "logaddexp": np.logaddexp, "max": np.maximum}[plus]
    ref = {}
    for ov in itertools.product(*[range(sizes[ch]) for ch in outs]):
        env = dict(zip(outs, ov))
        acc = None
        for rv in itertools.product(*[range(sizes[ch]) for ch in red]):
            env2 = dict(env)
            env2.update(zip(red, rv))
            val = None
            for s, a in zip(ins, arrays):
                v = a[tuple(env2[ch] for ch in s)]
                val = v if val is None else f_times(val, v)
            acc = val if acc is None else f_plus(acc, val)
        ref[ov] = acc
    operands = [Tensor(a, OrderedDict((ch, Bint[sizes[ch]]) for ch in s)) for s, a in zip(ins, arrays)]
    n_ok = 0
    counters = {}
    for name, fn in (("einsum", einsum), ("naive_einsum", naive_einsum), ("naive_contract_einsum", naive_contract_einsum)):
        try:
            r = fn(eq, *operands, backend=backend)
        except Exception as ex:
            c = "decline:%s:%s" % (name, type(ex).__name__)
            counters[c] = counters.get(c, 0) + 1
            continue
        extra = [n for n in r.inputs if n not in outs]
        if extra:
            return core.violation(key, "einsum:" + name, "%s(%r) has inputs %s not in the output" % (name, eq, extra), ["einsum", eq, backend, fill], {"entry": name, "backend": backend, "what": "extra-input"})
        for ov, want in ref.items():
            rho = dict(zip(outs, ov))
            try:
                got = observe.ground(r, rho)
            except observe.Decline as d:
                counters["decline:%s:%s" % (name, d)] = 1
                break
            if not observe.values_equal(got, want, "real"):
                return core.violation(
                    key, "einsum:" + name, "%s(%r, backend=%s) at %s: funsor %s, brute force %s" % (name, eq, backend, rho, np.asarray(got).tolist(), float(want)),
                    ["einsum", eq, backend, fill], {"entry": name, "backend": backend, "what": "value", "fill": fill, "has_repeated_operand_symbols": any(len(set(s)) != len(s) for s in ins),
                                              "reduced_symbol_count": len(red)},
                )
        else:
            n_ok += 1
    # the semiring back-end modules themselves (funsor.einsum.numpy_log / numpy_map) on the raw arrays, called directly and
    # through opt_einsum -- the way cnf.py's tensor contraction uses them
    if backend != "numpy":
        import importlib
        import opt_einsum

        mod = importlib.import_module(backend)
        for name, fn in (("backend_module.einsum", lambda: mod.einsum(eq, *arrays)), ("opt_einsum.contract", lambda: opt_einsum.contract(eq, *arrays, backend=backend))):
            try:
                val = np.asarray(fn())
            except Exception as ex:
                c = "decline:%s:%s" % (name, type(ex).__name__)
                counters[c] = counters.get(c, 0) + 1
                continue
            want_shape = tuple(sizes[ch] for ch in outs)
            if val.shape != want_shape:
                return core.violation(key, "einsum:" + name, "%s(%r) returns shape %s, expected %s" % (name, eq, val.shape, want_shape), ["einsum", eq, backend, fill],
                                      {"entry": name, "backend": backend, "what": "shape", "fill": fill})
            for ov, want in ref.items():
                if not observe.values_equal(val[ov], want, "real"):
                    return core.violation(
                        key, "einsum:" + name, "%s(%r) on raw arrays at %s: %s, brute force %s" % (name, eq, dict(zip(outs, ov)), float(val[ov]), float(want)),
                        ["einsum", eq, backend, fill], {"entry": name, "backend": backend, "what": "value", "fill": fill, "has_repeated_operand_symbols": any(len(set(s)) != len(s) for s in ins),
                                                      "reduced_symbol_count": len(red)},
                    )
            n_ok += 1
    if n_ok == 0:
        return core.decline(key, "no-entry-point-completed", counters=counters)
    return core.ok(key, bool(red), "ok:einsum:%d-operands" % len(ins), transitions=n_ok, counters=counters)


def check(case, seed):
    if case[0] == "expr":
        return check_expr(lang.tuplify(case[1]), seed)
    return check_einsum(case[1], case[2], seed, case[3] if len(case) > 3 else "generic")
