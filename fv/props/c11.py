"""C11 -- adjoints are semiring derivatives of the forward value.

Sum-product expressions over {a:2, b:3, c:2, d:1} are built lazily (under ``reflect``) from 1-4 (thorough: 5) leaf
Tensors, handed to ``funsor.adjoint.forward_backward`` (optionally after ``apply_optimizer``), and every returned adjoint is
compared with the brute-force semiring derivative of fv.ref.adjref (indicator formulation, plain numpy).
"""
import itertools
import json
import multiprocessing as mp
import os
import time
import traceback

import numpy as np

from .. import core
from ..ref import adjref

ID = "C11"
LEVEL_RULE = (
    "families flat / nested / subs (rename, slice, index) / cat / twice-used leaf / plate, each: multisets of leaf "
    "input-sets (subsets of size <= 2 of {a,b,c,d}) x reduced-variable subsets x 2 semirings x optimizer routes "
    "(0 = none, 1 = apply_optimizer on the lazy term, 2 = apply_optimizer under the tape); non-trivial = the tape "
    "accepted the expression, every leaf adjoint was a ground tensor and was compared cell by cell with the "
    "brute-force derivative, and the expression has >= 2 leaf occurrences or a reduction; distinct = case text"
)
ASSUMPTIONS = [
    "expressions are built under funsor.interpretations.reflect so that Subs/Cat/Reduce nodes reach the tape unevaluated",
    "adjoint convention read from the implementation and test_adjoint.py: a leaf's adjoint has the leaf's inputs plus the "
    "root's free inputs the leaf does not mention (root inputs sharing a name with a leaf input are pinned by the cell); "
    "inputs the table does not depend on may be omitted",
    "a leaf reached through a substitution (adjoint_subs scatters and reduces every cotangent variable the leaf lacks): "
    "its adjoint is compared after semiring-summing the returned adjoint over the inputs the leaf does not have, with "
    "the derivative of the root total (the statement's literal 'sum over all variables the leaf does not mention')",
    "(logaddexp, add) data are logs of the (add, mul) data; semiring zero cells are 0.0 resp. -inf",
    "an exception, or a forward value / adjoint that is not a ground Tensor/Number, is a decline",
    "reductions range only over variables the reduced operand mentions (reductions over absent variables belong to C08)",
    "a leaf with an input name that is bound by an inner reduction and also free in the root has no representable "
    "'kept' adjoint (two variables, one name): it is compared under the 'total' convention",
    "a leaf used once plainly and once through a substitution while the root keeps free inputs the leaf lacks is not "
    "compared (the two conventions above contradict each other there); counted as skip-mixed-convention",
    "on the optimizer routes a leaf whose data array is no longer a leaf of apply_optimizer(expr) is not compared",
    "violation features name the structural situations (mechanisms) found by hand analysis to be wrong on the pinned tree; "
    "the driver reports violations that none of them explains first",
]

SIZES = {"a": 2, "b": 3, "c": 2, "d": 1}
NAMES = ("a", "b", "c", "d")
RTOL, ATOL = 1e-7, 1e-9


# ---------------------------------------------------------------------------
# small helpers on case descriptors


def _sets(maxlen=2):
    out = [()]
    for r in range(1, maxlen + 1):
        out += list(itertools.combinations(NAMES, r))
    return out


def _leaf(names, zeros=(), sizes=None):
    sizes = sizes or {}
    return {"inputs": [[n, sizes.get(n, SIZES[n])] for n in names], "zeros": list(zeros)}


def _subsets(names):
    names = list(names)
    out = []
    for r in range(len(names) + 1):
        out += [list(c) for c in itertools.combinations(names, r)]
    return out


def _some_subsets(names, last=True):
    """nothing, the first variable, the last variable, the first two, all (deduplicated, in that order)."""
    names = list(names)
    cand = [[], names[:1], names[-1:] if last else [], names[:2], names]
    out = []
    for c in cand:
        if c not in out:
            out.append(c)
    return out


def _case(kind, sr, opt, leaves, expr):
    return {"kind": kind, "sr": sr, "opt": opt, "leaves": {str(k): v for k, v in leaves.items()}, "expr": expr}


def _free(expr, leaves):
    return [n for n, _ in adjref.free_names(expr, {str(k): v for k, v in leaves.items()})]


SEMIRINGS = ("addmul", "log")


def _routes(tier, kind, expr=None):
    if expr is not None and any(_has(expr, k) for k in ("ren", "mren", "slice", "index")):
        # apply_optimizer's unfold pass (which includes `lazy`) evaluates Subs-of-Tensor into a new tensor, so a leaf
        # reached through a substitution is no longer a leaf of the optimized term: nothing to check on those routes
        return (0,)
    if tier != "thorough" and kind in ("flat4", "plate", "cat", "twice"):
        return (0, 1)
    return (0, 1, 2)


# ---------------------------------------------------------------------------
# enumeration


def flat_cases(tier):
    out = []
    sets = _sets()
    nmax = 5 if tier == "thorough" else 4
    for n in range(1, nmax + 1):
        for ms in itertools.combinations_with_replacement(sets, n):
            leaves = {q + 1: _leaf(s) for q, s in enumerate(ms)}
            prod = ["mul", [["leaf", q + 1] for q in range(n)]] if n > 1 else ["leaf", 1]
            present = _free(prod, leaves)
            full = tier == "thorough" and n <= 4 or n <= 2
            for X in (_subsets(present) if full else _some_subsets(present, last=(tier == "thorough" or n <= 3))):
                e = ["sum", prod, X] if X else prod
                out.append(("flat" if n <= 3 else "flat4", leaves, e))
                if n <= 2 and ms[0]:
                    # the same expression with the semiring zero in the first / last cell of the first leaf
                    cells = int(np.prod([SIZES[v] for v in ms[0]]))
                    for zeros in ([0], [cells - 1]) if cells > 1 else ([0],):
                        lz = dict(leaves)
                        lz[1] = _leaf(ms[0], zeros)
                        out.append(("flat", lz, e))
    return out


def nested_cases(tier):
    out = []
    sets = _sets() if tier == "thorough" else [(), ("a",), ("b",), ("a", "b"), ("b", "c"), ("c", "d"), ("a", "c")]
    for s1 in sets:
        for s2, s3 in itertools.combinations_with_replacement(sets, 2):
            leaves = {1: _leaf(s1), 2: _leaf(s2), 3: _leaf(s3)}
            inner_prod = ["mul", [["leaf", 2], ["leaf", 3]]]
            inner_vars = _free(inner_prod, leaves)
            Ys = [y for y in (_subsets(inner_vars) if tier == "thorough" else _some_subsets(inner_vars)) if y]
            for Y in Ys:
                inner = ["sum", inner_prod, Y]
                outer_prod = ["mul", [["leaf", 1], inner]]
                outer_vars = _free(outer_prod, leaves)
                for X in (_subsets(outer_vars) if tier == "thorough" else _some_subsets(outer_vars)):
                    e = ["sum", outer_prod, X] if X else outer_prod
                    out.append(("nested", leaves, e))
    if tier == "thorough":
        # four leaves: (t1 * t2 * (t3*t4).reduce(Y)).reduce(X) over the small menu
        small = [(), ("a",), ("b",), ("a", "b"), ("b", "c"), ("c", "d")]
        for s1, s2 in itertools.combinations_with_replacement(small, 2):
            for s3, s4 in itertools.combinations_with_replacement(small, 2):
                leaves = {1: _leaf(s1), 2: _leaf(s2), 3: _leaf(s3), 4: _leaf(s4)}
                inner_prod = ["mul", [["leaf", 3], ["leaf", 4]]]
                for Y in [y for y in _some_subsets(_free(inner_prod, leaves)) if y]:
                    outer_prod = ["mul", [["leaf", 1], ["leaf", 2], ["sum", inner_prod, Y]]]
                    for X in _some_subsets(_free(outer_prod, leaves)):
                        out.append(("nested", leaves, ["sum", outer_prod, X] if X else outer_prod))
    return out


def _accesses(names):
    """Every way the first leaf is reached through a substitution of one of its variables."""
    out = []
    for v in names:
        n = SIZES[v]
        out.append(["ren", 1, v, "z"])
        for other in NAMES:  # renaming onto a name other leaves use (a join), sizes must agree
            if other != v and other not in names and SIZES[other] == n:
                out.append(["ren", 1, v, other])
        out.append(["slice", 1, v, "s", 0, n, 1])  # the whole range under a new name
        if n == 3:
            for start, stop, step in ((0, 2, 1), (1, 3, 1), (0, 3, 2)):
                out.append(["slice", 1, v, "s", start, stop, step])
            for vals in ([2, 0, 1], [1, 0, 2], [2, 0], [1]):
                out.append(["index", 1, v, "p", vals])
        if n == 2:
            for start, stop, step in ((0, 1, 1), (1, 2, 1)):
                out.append(["slice", 1, v, "s", start, stop, step])
            for vals in ([1, 0], [1]):
                out.append(["index", 1, v, "p", vals])
    return out


def subs_cases(tier):
    out = []
    sets = _sets()
    own = [s for s in sets if s and "d" not in s] if tier != "thorough" else [s for s in sets if s]
    others_menu = sets if tier == "thorough" else [(), ("a",), ("b",), ("a", "b"), ("b", "c"), ("a", "c"), ("c", "d")]
    for s1 in own:
        for acc in _accesses(s1):
            if acc[0] == "ren" and acc[2] == "d":
                continue
            other_lists = [[]] + [[s] for s in others_menu]
            if tier == "thorough":
                other_lists += [list(p) for p in itertools.combinations_with_replacement(others_menu[:7], 2)]
            else:
                other_lists += [[("a", "b"), ("b", "c")], [("b",), ("a", "c")]]
            for others in other_lists:
                leaves = {1: _leaf(s1)}
                for q, s in enumerate(others):
                    leaves[q + 2] = _leaf(s)
                terms = [acc] + [["leaf", q + 2] for q in range(len(others))]
                prod = ["mul", terms] if len(terms) > 1 else acc
                try:
                    present = _free(prod, leaves)
                except (AssertionError, ValueError):
                    continue
                for X in (_subsets(present) if (tier == "thorough" or len(present) <= 3) else _some_subsets(present)):
                    out.append(("subs", leaves, ["sum", prod, X] if X else prod))
    # simultaneous renamings that permute or shift the leaf's OWN (equally sized) input names: the scattered axes must
    # be told apart from the cotangent's axes of the same name (adjoint_subs relabels the keys for this)
    own2 = [[["a", "c"], ["c", "a"]], [["a", "c"], ["c", "z"]], [["c", "a"], ["a", "z"]]]
    own3 = [[["a", "b"], ["b", "c"], ["c", "a"]], [["a", "c"], ["c", "b"], ["b", "a"]], [["a", "c"], ["c", "a"]],
            [["a", "b"], ["b", "a"]], [["a", "b"], ["b", "c"], ["c", "z"]]]
    for names, sizes, perms, menu in (
        (("a", "c"), {}, own2, [None, (), ("a",), ("c",), ("a", "c"), ("a", "b"), ("c", "d")]),
        (("a", "b", "c"), {"b": 2}, own3, [None, (), ("a",), ("c",), ("a", "c")]),  # b:2 here, so no other factor has b
    ):
        for perm in perms:
            for other in menu:
                leaves = {1: _leaf(names, sizes=sizes)}
                terms = [["mren", 1, perm]]
                if other is not None:
                    leaves[2] = _leaf(other)
                    terms.append(["leaf", 2])
                prod = ["mul", terms] if len(terms) > 1 else terms[0]
                present = _free(prod, leaves)
                for X in _subsets(present):
                    out.append(("subs", leaves, ["sum", prod, X] if X else prod))
    # substitutions ONTO one of the leaf's own names: a diagonal renaming x[a,c](a='c'), and an index substitution whose
    # index tensor is indexed by the leaf's other input, x[a,b](a=idx[b]) (any contents: the pair (idx[b], b) is injective).
    # The adjoint must keep both inputs: the cotangent on the diagonal / at [a == idx[b]], the semiring zero elsewhere.
    own = []
    for x, y in (("a", "c"), ("c", "a")):
        own.append(((x, y) if x < y else (y, x), ["ren", 1, x, y]))
    for names in (("a", "b"), ("a", "c"), ("b", "c")):
        for x, y in (names, names[::-1]):
            menus = {2: ([1, 0], [0, 0]), 3: ([2, 0], [1, 1])} if SIZES[y] == 2 else {2: ([1, 0, 1], [0, 0, 1]), 3: ([2, 0, 1], [1, 1, 0])}
            for vals in menus[SIZES[x]]:
                own.append((names, ["index", 1, x, y, vals]))
    one = [(), ("a",), ("b",), ("c",), ("a", "b"), ("a", "c"), ("b", "c")]
    two = [[("a",), ("c",)], [("b",), ("a", "c")], [("a", "b"), ("b", "c")]]
    for names, acc in own:
        for others in [[]] + [[o] for o in one] + two:
            leaves = {1: _leaf(names)}
            for q, o in enumerate(others):
                leaves[q + 2] = _leaf(o)
            terms = [acc] + [["leaf", q + 2] for q in range(len(others))]
            prod = ["mul", terms] if len(terms) > 1 else acc
            present = _free(prod, leaves)
            for X in _subsets(present):
                out.append(("subs", leaves, ["sum", prod, X] if X else prod))
    return out


def cat_cases(tier):
    out = []
    splits = {"a": [(1, 1)], "b": [(1, 2), (2, 1)], "c": [(1, 1)]}
    extra_menu = [(), ("a",), ("b",), ("c",), ("d",)]
    others_menu = [None, (), ("a",), ("b",), ("c",), ("a", "b"), ("b", "c"), ("a", "c")]
    for v in ("a", "b", "c"):
        for n1, n2 in splits[v]:
            for x1 in extra_menu:
                for x2 in extra_menu:
                    if v in x1 or v in x2:
                        continue
                    if tier != "thorough" and x1 != x2 and x1 and x2:
                        continue
                    for other in others_menu:
                        leaves = {1: _leaf((v,) + x1, sizes={v: n1}), 2: _leaf((v,) + x2, sizes={v: n2})}
                        cat = ["cat", v, [["leaf", 1], ["leaf", 2]]]
                        if other is not None:
                            leaves[3] = _leaf(other)
                            prod = ["mul", [cat, ["leaf", 3]]]
                        else:
                            prod = cat
                        present = _free(prod, leaves)
                        for X in _subsets(present):
                            out.append(("cat", leaves, ["sum", prod, X] if X else prod))
    # the identical leaf among the parts of one Cat more than once: (t1, t1), (t1, t2, t1), (t1, t1, t2), (t2, t1, t1);
    # its adjoint is the sum of the slices of the cotangent over its occurrences
    patterns = [[1, 1], [1, 2, 1], [1, 1, 2], [2, 1, 1]]
    extras = [(), ("d",)] + ([("a",), ("b",), ("c",)] if tier == "thorough" else [])
    for v in ("a", "b", "c"):
        w = {"a": "b", "b": "c", "c": "a"}[v]
        for pat in patterns:
            if tier != "thorough" and len(pat) == 3 and v != "b":
                continue  # quick: three parts only along b (1 + 1 + 1 = 3, so another factor can carry b)
            for x1 in extras + [(w,)]:
                for x2 in ([()] if 2 not in pat else [(), (w,)]):
                    if v in x1 or v in x2:
                        continue
                    for other in (None, (v,), (v, w), (w,), ()):
                        leaves = {1: _leaf((v,) + x1, sizes={v: 1})}
                        if 2 in pat:
                            leaves[2] = _leaf((v,) + x2, sizes={v: 1})
                        cat = ["cat", v, [["leaf", q] for q in pat]]
                        if other is not None:
                            if v in other and len(pat) != SIZES[v]:
                                continue  # the other factor's v must have the concatenated size
                            leaves[3] = _leaf(other)
                            prod = ["mul", [cat, ["leaf", 3]]]
                        else:
                            prod = cat
                        present = _free(prod, leaves)
                        for X in _subsets(present):
                            out.append(("cat", leaves, ["sum", prod, X] if X else prod))
    return out


def twice_cases(tier):
    out = []
    sets = _sets()
    own = [s for s in sets if s]
    others_menu = [None] + (sets if tier == "thorough" else [(), ("a",), ("b",), ("a", "b"), ("b", "c")])
    for s1 in own:
        for other in others_menu:
            leaves = {1: _leaf(s1)}
            if other is not None:
                leaves[2] = _leaf(other)
            o = [["leaf", 2]] if other is not None else []
            # the same leaf twice in one product
            prod = ["mul", [["leaf", 1], ["leaf", 1]] + o]
            present = _free(prod, leaves)
            for X in _subsets(present):
                out.append(("twice", leaves, ["sum", prod, X] if X else prod))
            # once outside, once inside an inner reduction
            for Y in [y for y in _subsets(_free(["mul", [["leaf", 1]] + o], leaves)) if y]:
                inner = ["sum", ["mul", [["leaf", 1]] + o] if o else ["leaf", 1], Y]
                outer_prod = ["mul", [["leaf", 1], inner]]
                for X in _some_subsets(_free(outer_prod, leaves)):
                    out.append(("twice", leaves, ["sum", outer_prod, X] if X else outer_prod))
            # once directly, once renamed (all substituted names reduced or not)
            for v in s1:
                if v == "d":
                    continue
                prod = ["mul", [["leaf", 1], ["ren", 1, v, "z"]] + o]
                present = _free(prod, leaves)
                for X in _subsets(present):
                    out.append(("twice", leaves, ["sum", prod, X] if X else prod))
    return out


def plate_cases(tier):
    out = []
    sets = [s for s in _sets() if s]
    factor_menu = [None, (), ("a",), ("b",), ("a", "b"), ("b", "c")]
    for s1 in sets:
        cells = int(np.prod([SIZES[n] for n in s1]))
        zero_menu = [[], [0], [cells - 1]] + ([[0, cells - 1]] if cells > 2 else [])
        for s2 in [None] + ([s for s in _sets()] if tier == "thorough" else [(), ("a",), ("b",), ("a", "b"), ("b", "c")]):
            for zeros in zero_menu:
                leaves = {1: _leaf(s1, zeros)}
                terms = [["leaf", 1]]
                if s2 is not None:
                    leaves[2] = _leaf(s2)
                    terms.append(["leaf", 2])
                body = ["mul", terms] if len(terms) > 1 else terms[0]
                bvars = _free(body, leaves)
                for X in _some_subsets(bvars):
                    summed = ["sum", body, X] if X else body
                    rest = [n for n in bvars if n not in X]
                    for P in [p for p in _subsets(rest) if p and len(p) <= 2]:
                        plated = ["prod", summed, P]
                        out.append(("plate", leaves, plated))
                        if zeros and tier != "thorough":
                            continue
                        # an outer factor and an outer sum around the plate
                        for s0 in (factor_menu[1:4] if tier == "thorough" else factor_menu[1:3]):
                            leaves2 = dict(leaves)
                            leaves2[3] = _leaf(s0)
                            outer = ["mul", [["leaf", 3], plated]]
                            ov = _free(outer, leaves2)
                            for X2 in _some_subsets(ov)[:3 if tier == "thorough" else 2]:
                                out.append(("plate", leaves2, ["sum", outer, X2] if X2 else outer))
    return out


FAMILIES = (
    ("flat", flat_cases),
    ("nested", nested_cases),
    ("subs", subs_cases),
    ("cat", cat_cases),
    ("twice", twice_cases),
    ("plate", plate_cases),
)


def cases(tier):
    out, seen = [], set()
    for name, fn in FAMILIES:
        for kind, leaves, expr in fn(tier):
            for sr in SEMIRINGS:
                for opt in _routes(tier, kind, expr):
                    c = _case(kind.rstrip("4"), sr, opt, leaves, expr)
                    k = repr(c)
                    if k not in seen:
                        seen.add(k)
                        out.append(c)
    return out


def bounds(tier):
    b = {
        "names_sizes": dict(SIZES),
        "leaf_input_sets": "all subsets of size <= 2 of {a,b,c,d} (11)",
        "max_leaves": 5 if tier == "thorough" else 4,
        "semirings": ["add/mul (positive generic data, 0.0 cells)", "logaddexp/add (logs of the same data, -inf cells)"],
        "optimizer_routes": "0 none, 1 apply_optimizer under reflect then forward_backward, 2 apply_optimizer inside the tape (as "
                            "test_adjoint.py does); expressions containing a substitution: route 0 only",
        "families": {},
    }
    for name, fn in FAMILIES:
        b["families"][name] = len(fn(tier))
    return b


# ---------------------------------------------------------------------------
# pretty printing / stand-alone snippet


def _occ_code(node):
    k = node[0]
    if k == "leaf":
        return "t%s" % node[1]
    if k == "ren":
        return "t%s(%s=%r)" % (node[1], node[2], node[3])
    if k == "mren":
        return "t%s(%s)" % (node[1], ", ".join("%s=%r" % (o, n) for o, n in node[2]))
    if k == "slice":
        return "t%s(%s=Slice(%r, %d, %d, %d, SIZE_%s))" % (node[1], node[2], node[3], node[4], node[5], node[6], node[1])
    if k == "index":
        return "t%s(%s=Tensor(np.array(%r), OrderedDict(%s=Bint[%d]), SIZE_%s))" % (
            node[1], node[2], list(node[4]), node[3], len(node[4]), node[1])
    raise ValueError(k)


def code(e, leaves=None):
    k = e[0]
    if k in adjref.OCC_KINDS:
        s = _occ_code(e)
        if leaves is not None and k in ("slice", "index"):
            size = dict((n, z) for n, z in leaves[str(e[1])]["inputs"])[e[2]]
            s = s.replace("SIZE_%s" % e[1], str(size))
        return s
    if k == "cat":
        return "Cat(%r, (%s,))" % (e[1], ", ".join(code(p, leaves) for p in e[2]))
    if k == "mul":
        return "(" + " @ ".join(code(c, leaves) for c in e[1]) + ")"
    if k == "sum":
        return "%s.reduce(SUM, frozenset(%r))" % (code(e[1], leaves), list(e[2]))
    if k == "prod":
        return "%s.reduce(PROD, frozenset(%r))" % (code(e[1], leaves), list(e[2]))
    raise ValueError(k)


def describe(case):
    return "%s opt=%d %s :: %s" % (case["sr"], case["opt"], code(case["expr"], case["leaves"]),
                                    {k: [n for n, _ in v["inputs"]] for k, v in sorted(case["leaves"].items())})


def _key(case):
    return "%s|%s|%d|%s|%s" % (case["kind"], case["sr"], case["opt"], code(case["expr"], case["leaves"]),
                               sorted((k, tuple(map(tuple, v["inputs"])), tuple(v["zeros"])) for k, v in case["leaves"].items()))


def snippet(case, seed, lid=None, expected=None):
    sr = case["sr"]
    lines = [
        "import numpy as np",
        "from collections import OrderedDict",
        "import funsor",
        "from funsor import ops, Tensor, Bint",
        "from funsor.terms import Cat, Slice",
        "from funsor.interpretations import reflect",
        "from funsor.adjoint import AdjointTape, forward_backward",
        "from funsor.optimizer import apply_optimizer",
        "funsor.set_backend('numpy')",
        "SUM, PROD = %s" % ("ops.add, ops.mul" if sr == "addmul" else "ops.logaddexp, ops.add"),
    ]
    for k in sorted(case["leaves"]):
        spec = case["leaves"][k]
        data = _carrier(adjref.leaf_data(k, spec, seed), sr)
        lines.append("t%s = Tensor(np.array(%s), OrderedDict([%s]))" % (
            k, repr(data.tolist()).replace("-inf", "-np.inf"), ", ".join("(%r, Bint[%d])" % (n, s) for n, s in spec["inputs"])))
    body = code(case["expr"], case["leaves"]).replace(" @ ", " * " if sr == "addmul" else " + ")
    lines.append("with reflect:")
    lines.append("    expr = %s" % body)
    if case["opt"] == 1:
        lines.append("    expr = apply_optimizer(expr)")
    if case["opt"] == 2:
        lines.append("with AdjointTape() as tape:")
        lines.append("    fwd = apply_optimizer(expr)")
        lines.append("adjoints = tape.adjoint(SUM, PROD, fwd)")
    else:
        lines.append("fwd, adjoints = forward_backward(SUM, PROD, expr)")
    lines.append("print('forward', fwd)")
    if lid is not None:
        lines.append("print('adjoint of t%s:', adjoints[t%s])" % (lid, lid))
        if expected is not None:
            lines.append("# expected (brute-force semiring derivative), axes %s:" % (list(expected.names),))
            lines.append("# %s" % repr(expected.arr.tolist()))
    return "\n".join(lines) + "\n"


# ---------------------------------------------------------------------------
# running one case on funsor


def _carrier(arr, sr):
    if sr == "log":
        with np.errstate(divide="ignore"):
            return np.log(arr)
    return arr


def build(case, seed):
    """(lazy expression built under reflect, {lid: leaf Tensor})."""
    from collections import OrderedDict

    from funsor.domains import Bint
    from funsor.interpretations import reflect
    from funsor.tensor import Tensor
    from funsor.terms import Cat, Slice
    import funsor.ops as ops

    sr = case["sr"]
    sum_op, prod_op = (ops.add, ops.mul) if sr == "addmul" else (ops.logaddexp, ops.add)
    tensors = {}
    for k in sorted(case["leaves"]):
        spec = case["leaves"][k]
        data = _carrier(adjref.leaf_data(k, spec, seed), sr)
        tensors[k] = Tensor(data, OrderedDict((n, Bint[int(s)]) for n, s in spec["inputs"]))

    def occ(node):
        k = node[0]
        t = tensors[str(node[1])]
        if k == "leaf":
            return t
        if k == "ren":
            return t(**{node[2]: node[3]})
        if k == "mren":
            return t(**{o: n for o, n in node[2]})
        if k == "slice":
            size = t.inputs[node[2]].size
            return t(**{node[2]: Slice(node[3], int(node[4]), int(node[5]), int(node[6]), size)})
        if k == "index":
            size = t.inputs[node[2]].size
            idx = Tensor(np.array(list(node[4]), dtype=np.int64), OrderedDict([(node[3], Bint[len(node[4])])]), size)
            return t(**{node[2]: idx})
        raise ValueError(k)

    def go(e):
        k = e[0]
        if k in adjref.OCC_KINDS:
            return occ(e)
        if k == "cat":
            return Cat(e[1], tuple(go(p) for p in e[2]))
        if k == "mul":
            x = go(e[1][0])
            for c in e[1][1:]:
                x = prod_op(x, go(c))
            return x
        if k == "sum":
            return go(e[1]).reduce(sum_op, frozenset(e[2]))
        if k == "prod":
            return go(e[1]).reduce(prod_op, frozenset(e[2]))
        raise ValueError(k)

    with reflect:
        expr = go(case["expr"])
    return expr, tensors, sum_op, prod_op


def run_adjoint(case, expr, sum_op, prod_op):
    from funsor.adjoint import AdjointTape, forward_backward
    from funsor.interpretations import reflect
    from funsor.optimizer import apply_optimizer

    if case["opt"] == 0:
        return forward_backward(sum_op, prod_op, expr)
    if case["opt"] == 1:
        with reflect:
            expr2 = apply_optimizer(expr)
        return forward_backward(sum_op, prod_op, expr2)
    with AdjointTape() as tape:
        fwd = apply_optimizer(expr)
    return fwd, tape.adjoint(sum_op, prod_op, fwd)


def _ground(r):
    """(names, sizes, ndarray) of a ground funsor result, or None."""
    from funsor.tensor import Tensor
    from funsor.terms import Number

    if isinstance(r, Number):
        return (), (), np.asarray(r.data, dtype=np.float64)
    if isinstance(r, Tensor) and not r.output.shape:
        names = tuple(r.inputs)
        sizes = tuple(d.size for d in r.inputs.values())
        data = np.asarray(r.data, dtype=np.float64)
        if data.shape != sizes:
            return None
        return names, sizes, data
    return None


def _close(a, b):
    a = np.asarray(a, dtype=np.float64)
    b = np.asarray(b, dtype=np.float64)
    if a.shape != b.shape:
        return False
    if np.any(np.isnan(a)):
        return False
    inf = np.isinf(b)
    if np.any(inf) and not np.all(a[inf] == b[inf]):
        return False
    fin = ~inf
    return bool(np.all(np.abs(a[fin] - b[fin]) <= ATOL + RTOL * np.abs(b[fin])))


def compare(got, expected):
    """got = (names, sizes, data) from funsor; expected = adjref.NA in the carrier.  -> (verdict, message)

    verdict: "ok" | "inputs" (an input the expected table does not have, or of another size) |
    "missing-input" (an omitted input the expected table depends on) | "value"."""
    names, sizes, data = got
    for n, s in zip(names, sizes):
        if n not in expected.names:
            return "inputs", "unexpected input %r (expected a subset of %s)" % (n, list(expected.names))
        if expected.size(n) != s:
            return "inputs", "input %r has size %d, expected %d" % (n, s, expected.size(n))
    exp = expected
    for n in expected.names:
        if n not in names:
            ax = exp.names.index(n)
            first = np.take(exp.arr, [0], axis=ax)
            if not _close(np.broadcast_to(first, exp.arr.shape), exp.arr):
                return "missing-input", "the adjoint lacks input %r on which the expected table depends" % n
            exp = adjref.NA([m for m in exp.names if m != n], np.take(exp.arr, 0, axis=ax))
    want = adjref.expand(exp, names) if names else exp.arr
    if not _close(data, want):
        return "value", "funsor %s, expected %s (axes %s)" % (np.asarray(data).tolist(), np.asarray(want).tolist(), list(names))
    return "ok", ""


def _semiring_sum(data, axes, sr):
    if not axes:
        return data
    if sr == "addmul":
        return data.sum(axis=axes)
    out = data
    for ax in sorted(axes, reverse=True):
        out = np.logaddexp.reduce(out, axis=ax)
    return out


def _leaf_profile(case):
    """{lid: {"access": set of occurrence kinds, "count": n, "in_cat": bool, "occ_names": [names per occurrence]}}"""
    prof = {}
    expr, leaves = case["expr"], case["leaves"]

    def walk(e, in_cat):
        k = e[0]
        if k in adjref.OCC_KINDS:
            p = prof.setdefault(str(e[1]), {"access": set(), "count": 0, "in_cat": False, "occ_names": []})
            p["access"].add(k)
            p["count"] += 1
            p["in_cat"] = p["in_cat"] or in_cat
            p["occ_names"].append([n for n, _ in adjref.occ_names(e, leaves)])
        elif k == "cat":
            for c in e[2]:
                walk(c, True)
        elif k == "mul":
            for c in e[1]:
                walk(c, in_cat)
        else:
            walk(e[1], in_cat)

    walk(expr, False)
    return prof


def _has(e, kind):
    k = e[0]
    if k == kind:
        return True
    if k in adjref.OCC_KINDS:
        return False
    if k == "cat":
        return any(_has(c, kind) for c in e[2])
    if k == "mul":
        return any(_has(c, kind) for c in e[1])
    return _has(e[1], kind)


def _reductions(e):
    k = e[0]
    if k in adjref.OCC_KINDS:
        return []
    if k == "cat":
        return [r for c in e[2] for r in _reductions(c)]
    if k == "mul":
        return [r for c in e[1] for r in _reductions(c)]
    return [e] + _reductions(e[1])


def _cats(e):
    k = e[0]
    if k in adjref.OCC_KINDS:
        return []
    if k == "cat":
        return [e]
    if k == "mul":
        return [r for c in e[1] for r in _cats(c)]
    return _cats(e[1])


def _reductions_with_paths(e, path=()):
    """[(path, node)] of the sum/prod nodes, paths as in adjref.occurrences."""
    k = e[0]
    if k in adjref.OCC_KINDS:
        return []
    if k == "cat":
        return [r for q, c in enumerate(e[2]) for r in _reductions_with_paths(c, path + (q,))]
    if k == "mul":
        return [r for q, c in enumerate(e[1]) for r in _reductions_with_paths(c, path + (q,))]
    return [(path, e)] + _reductions_with_paths(e[1], path + (0,))


def case_features(case, free, seed):
    """Structural features of the whole expression used to localise / classify violations."""
    expr, leaves = case["expr"], case["leaves"]
    reds = _reductions_with_paths(expr)
    occs = [(p, [n for n, _ in adjref.occ_names(node, leaves)]) for p, node in adjref.occurrences(expr)]
    bound_free = any(v in free for _, r in reds for v in r[2])
    reused = False
    plate_zero = False
    plate_lacks = False
    for path, r in reds:
        inside = [names for p, names in occs if p[:len(path)] == path]
        outside = [names for p, names in occs if p[:len(path)] != path]
        if any(v in names for v in r[2] for names in outside):
            reused = True
        if r[0] == "prod":
            if np.any(adjref.forward(r[1], leaves, seed).arr == 0.0):
                plate_zero = True
            if any(v not in names for v in r[2] for names in inside):
                plate_lacks = True
    cat_differ = False
    for c in _cats(expr):
        sets = [set(n for n, _ in adjref.free_names(p, leaves)) for p in c[2]]
        if any(x != sets[0] for x in sets):
            cat_differ = True
    return {"bound_name_free_in_root": bound_free, "bound_name_reused": reused, "plate_operand_has_zero": plate_zero,
            "plate_factor_lacks_plate_var": plate_lacks, "cat_parts_inputs_differ": cat_differ}


def _site(case, prof):
    access = sorted(prof["access"] - {"leaf"})
    if prof["in_cat"]:
        return "adjoint_cat"  # also when the leaf is repeated among the parts
    if prof["count"] > 1:
        return "twice-used-leaf"
    if access:
        return "adjoint_subs:" + {"ren": "rename", "mren": "rename", "slice": "slice", "index": "index"}[access[0]]
    if prof["in_cat"]:
        return "adjoint_cat"
    if _has(case["expr"], "prod"):
        return "plate"
    if case["opt"]:
        return "adjoint_contract"
    if _has(case["expr"], "sum"):
        return "adjoint_reduce"
    return "adjoint_binary"


def check(case, seed):
    with np.errstate(all="ignore"):
        return _check(case, seed)


def _check(case, seed):
    case = _normalise(case)
    key = _key(case)
    sr = case["sr"]
    expr_tree, leaves = case["expr"], case["leaves"]
    n_occ = len(adjref.occurrences(expr_tree))
    feats = {"semiring": sr, "optimizer": case["opt"], "leaves": len(leaves), "shape": case["kind"]}
    # reference first (harness errors surface before funsor is touched)
    fwd_ref = adjref.to_domain(adjref.forward(expr_tree, leaves, seed), sr)
    free = list(fwd_ref.names)
    feats.update(case_features(case, free, seed))
    try:
        expr, tensors, sum_op, prod_op = build(case, seed)
    except Exception as ex:
        return core.decline(key, "build:" + type(ex).__name__)
    try:
        fwd, adjoints = run_adjoint(case, expr, sum_op, prod_op)
    except Exception as ex:
        return core.decline(key, "tape:" + type(ex).__name__)
    transitions = 0
    # forward value: ordinary eager evaluation and the brute-force table
    g = _ground(fwd)
    if g is None:
        return core.decline(key, "forward-lazy:" + type(fwd).__name__.split("[")[0])
    verdict, msg = compare(g, fwd_ref)
    if verdict != "ok":
        return core.violation(key, "forward", "forward value of forward_backward differs from the brute-force table (%s): %s\n  %s" % (verdict, msg, describe(case)),
                              case, dict(feats, what=verdict), snippet(case, seed))
    transitions += 1
    try:
        from funsor.interpreter import reinterpret

        eager = _ground(reinterpret(expr))
    except Exception:
        eager = None
    if eager is not None:
        verdict, msg = compare(eager, fwd_ref)
        if verdict != "ok":
            return core.violation(key, "forward", "eager evaluation of the lazy expression differs from the brute-force table (%s): %s\n  %s" % (verdict, msg, describe(case)),
                                  case, dict(feats, what="eager-" + verdict), snippet(case, seed))
        transitions += 1
    profile = _leaf_profile(case)
    cat_names = {}
    for c in _cats(expr_tree):
        allnames = set(n for p in c[2] for n, _ in adjref.free_names(p, leaves))
        for p in c[2]:
            if p[0] == "leaf":
                cat_names[str(p[1])] = allnames
    lost = None
    classes, found, compared = [], [], 0
    for lid in sorted(leaves):
        prof = profile[lid]
        lnames = [n for n, _ in leaves[lid]["inputs"]]
        via_subs = bool(prof["access"] - {"leaf"})
        if case["opt"] and via_subs:
            # apply_optimizer's unfold pass evaluates substitutions into new tensors: the original leaf is no longer
            # a leaf of the expression handed to the tape, so the tape has nothing to say about it
            classes.append("leaf-evaluated-by-optimizer")
            continue
        adj = adjoints[tensors[lid]]
        ga = _ground(adj)
        if ga is None:
            return core.decline(key, "adjoint-lazy:" + type(adj).__name__.split("[")[0], transitions=transitions)
        root_free_outside = any(n not in on for on in prof["occ_names"] for n in free)
        f = dict(feats, leaf_access="+".join(sorted(prof["access"])), leaf_occurrences=prof["count"],
                 subs_leaf_root_free_outside=bool(via_subs and root_free_outside),
                 zero_cell_under_plate=bool(leaves[lid]["zeros"] and feats["plate_operand_has_zero"]),
                 cat_part_lacks_input=bool(prof["in_cat"] and any(n not in lnames for n in cat_names.get(lid, ()))),
                 # a renaming of the leaf onto one of its own names (a diagonal) whose cotangent is the Number 1:
                 # the substituted occurrence is the only factor of the expression
                 diagonal_renaming_sole_factor=bool(n_occ == 1 and any(
                     o[0] == "ren" and str(o[1]) == lid and o[3] in lnames for _, o in adjref.occurrences(expr_tree))))
        bound_clash = any(n in lnames and n in free for r in _reductions(expr_tree) for n in r[2])
        if via_subs or bound_clash:
            if prof["count"] > 1 and len(prof["access"]) > 1 and any(n not in lnames for n in free):
                classes.append("skip-mixed-convention")
                continue  # a plain and a substituted occurrence with root-free variables: two conventions collide
            exp = adjref.to_domain(adjref.expected_adjoint(expr_tree, leaves, seed, lid, "total"), sr)
            names, sizes, data = ga
            bad = [n for n in names if n not in lnames and n not in free]
            if bad:
                verdict, msg = "inputs", "input %r is neither a leaf input nor a free input of the root" % bad[0]
            else:
                extra = tuple(q for q, n in enumerate(names) if n not in lnames)
                red = _semiring_sum(data, extra, sr)
                ga2 = (tuple(n for n in names if n in lnames), tuple(z for n, z in zip(names, sizes) if n in lnames), red)
                verdict, msg = compare(ga2, exp)
            conv = "total"
        else:
            exp = adjref.to_domain(adjref.expected_adjoint(expr_tree, leaves, seed, lid, "root-free-kept"), sr)
            verdict, msg = compare(ga, exp)
            conv = "kept"
        if verdict != "ok" and case["opt"]:
            if lost is None:
                lost = _leaves_lost_by_optimizer(expr, tensors)
            if lid in lost:
                classes.append("leaf-evaluated-by-optimizer")
                continue
        compared += 1
        if verdict != "ok":
            mech = _mechanisms(f)
            f["mechanisms"] = "+".join(mech) if mech else "none"
            found.append((len(mech), lid, prof, f, verdict, msg, conv, exp, lnames))
            continue
        transitions += 1
        classes.append("%s:%s:%d" % ("+".join(sorted(prof["access"])), conv, len(ga[0])))
    if found:
        # report the failing leaf that the fewest already-described mechanisms could explain
        found.sort(key=lambda x: (x[0], x[1]))
        _, lid, prof, f, verdict, msg, conv, exp, lnames = found[0]
        return core.violation(
            key, _site(case, prof),
            "adjoint of leaf t%s (inputs %s) differs from the semiring derivative of the root (%s; convention %s): %s\n  %s"
            % (lid, lnames, verdict, conv, msg, describe(case)),
            case, dict(f, what=verdict), snippet(case, seed, lid, exp), transitions=transitions)
    if not compared:
        return core.decline(key, "no-leaf-comparable:" + ",".join(sorted(set(classes))), transitions=transitions)
    nontrivial = n_occ >= 2 or _has(expr_tree, "sum") or _has(expr_tree, "prod")
    return core.ok(key, nontrivial, "ok:%s:%s" % (case["kind"], ",".join(sorted(set(classes)))), transitions=transitions)


def _mechanisms(f):
    """Structural situations of this leaf / expression in which the pinned tree is known (by hand analysis) to go wrong."""
    out = []
    if f["subs_leaf_root_free_outside"]:
        out.append("scatter-overwrites-unsummed-input")
    if f["zero_cell_under_plate"]:
        out.append("safe-inverse-at-zero")
    if f["bound_name_free_in_root"]:
        out.append("unmangle-captures-free-name")
    if f["cat_part_lacks_input"]:
        out.append("cat-part-broadcast")
    if f["diagonal_renaming_sole_factor"]:
        out.append("scatter-number-renaming-shortcut")
    if f["optimizer"] and f["bound_name_reused"]:
        out.append("unmangle-merges-bound-names")
    if f["optimizer"] and f["plate_factor_lacks_plate_var"]:
        out.append("plate-over-absent-variable")
    return out


def _leaves_lost_by_optimizer(expr, tensors):
    """lids of leaf tensors that are not leaves of apply_optimizer(expr) (read off the optimized term's fields)."""
    from funsor.interpretations import reflect
    from funsor.optimizer import apply_optimizer
    from funsor.tensor import Tensor
    from funsor.terms import Funsor

    try:
        with reflect:
            opt = apply_optimizer(expr)
    except Exception:
        return set()
    seen, ids, stack = set(), set(), [opt]
    while stack:
        x = stack.pop()
        if isinstance(x, (tuple, frozenset, list)):
            stack.extend(x)
        elif isinstance(x, Tensor):
            ids.add(id(x.data))  # alpha-renamed copies of a leaf share its data array
        elif isinstance(x, Funsor) and id(x) not in seen:
            seen.add(id(x))
            stack.extend(x._ast_values)
    return {lid for lid, t in tensors.items() if id(t.data) not in ids}


def _normalise(case):
    """JSON round trip tolerant: lists everywhere, leaf-table keys are strings."""
    def lst(x):
        if isinstance(x, (list, tuple)):
            return [lst(y) for y in x]
        return x

    return {"kind": case["kind"], "sr": case["sr"], "opt": int(case["opt"]),
            "leaves": {str(k): {"inputs": lst(v["inputs"]), "zeros": lst(v.get("zeros", []))} for k, v in case["leaves"].items()},
            "expr": lst(case["expr"])}


# ---------------------------------------------------------------------------
# driver.  The generic core.run_cases keeps only the first 40 distinct violation signatures it meets; on the pinned tree
# several thousand cases fall into already-described defect classes, so this module drives the pool itself and hands
# the report the violations that NO described mechanism explains first -- a new failure can then never be crowded out.

EXPLORE_FORKS = True


def _work(job):
    seed, idx, chunk = job
    outs = []
    for j, case in enumerate(chunk):
        note = None
        try:
            out = check(case, seed)
        except BaseException as e:  # harness error: never a VIOLATION
            if isinstance(e, (KeyboardInterrupt, SystemExit)):
                raise
            out = core.skip(json.dumps(case, default=str, sort_keys=True), "HARNESS-ERROR:" + type(e).__name__)
            note = "harness error on case %s: %s" % (json.dumps(case, default=str)[:300], traceback.format_exc()[-1500:])
        sample = None
        if idx < 4 and j < 2:
            sample = {"case": describe(case), "status": out["status"], "observed": out.get("outcome")}
        outs.append((out, sample, note))
    return outs


def explore(tier, seed, report):
    cs = cases(tier)
    nproc = core.NPROC
    size = max(1, min(400, len(cs) // (nproc * 8) or 1))
    jobs = [(seed, i, c) for i, c in enumerate(core.chunked(cs, size))]
    budget = float(os.environ.get("VERIF_BUDGET_S", "0") or 0)
    t0 = time.time()
    violations, kept_full = [], {}
    ctx = mp.get_context("fork")
    with ctx.Pool(nproc, initializer=core._worker_init, initargs=(__name__, core.REPO, None)) as pool:
        for outs in pool.imap(_work, jobs):
            for out, sample, note in outs:
                if note:
                    report.notes.append(note)
                if out["status"] == "violation":
                    v = out["violation"]
                    mech = v["features"].get("mechanisms", "none")
                    kept_full[mech] = kept_full.get(mech, 0) + 1
                    if mech not in ("none", "") and kept_full[mech] > 20:
                        v["snippet"] = ""  # bound the parent's memory: explained repeats are only counted
                    violations.append((out, sample))
                else:
                    report.add(out, sample)
            if budget and time.time() - t0 > budget:
                report.exhaustive = False
                report.notes.append("VERIF_BUDGET_S hit after %d evaluations" % (report.evaluations + len(violations)))
                pool.terminate()
                break

    def rank(item):
        mech = item[0]["violation"]["features"].get("mechanisms", "none")
        return 0 if mech in ("none", "") else len(mech.split("+"))

    # unexplained first; then one representative of every distinct mechanism set (so that each described defect is
    # reported as reproduced); then the rest.  Stable: enumeration order (simplest first) within a group.
    seen_mech = set()
    keyed = []
    for q, item in enumerate(violations):
        mech = item[0]["violation"]["features"].get("mechanisms", "none")
        first = mech not in seen_mech
        seen_mech.add(mech)
        r = rank(item)
        keyed.append(((0 if r == 0 else (1 if first else 2), r, q), item))
    keyed.sort(key=lambda x: x[0])
    for _, (out, sample) in keyed:
        report.add(out, sample)
