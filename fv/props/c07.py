"""C07 -- hash-consing: structural equality is object identity, held weakly.

Explorer E-hist (DESIGN 2.1): explicit-state breadth-first search over event histories on the process-global intern
tables of the real library (``Funsor._cons_cache`` per class, ``ArrayType._type_cache``,
``ProductDomain._type_cache``, ``OpMeta._instance_cache`` per op class, ``GenericTypeMeta._type_cache``).

A state is the history that reaches it.  ``Exec.run(pool, history)`` replays the history on the real library from a
clean slate (no handle held, gc.collect() done, interpretation stack at its base) while the boring model of
``fv.ref.hashcons`` is stepped in lockstep; after every event the invariants listed in ``LEVEL_RULE`` are evaluated
on the real objects and compared with the model.  States are de-duplicated on the canonical form ``hashcons.canon``.
The recipe pool (66 recipes) is explored per sub-pool (every recipe alone, every pair of same-kind recipes, in the
thorough tier also every same-kind triple): histories over a sub-pool use every event that is relevant to it.
"""
import copy
import gc
import inspect
import multiprocessing as mp
import os
import pickle
import sys
import time
import weakref
from collections import Counter, deque
from itertools import combinations

import numpy as np

from .. import core
from ..ref import hashcons as H
from ..ref import lang

ID = "C07"
LEVEL_RULE = (
    "E-hist: for each sub-pool of recipes, BFS over event histories (construct r under the ambient interpretation / "
    "drop r / gc.collect / realloc slot / switch interpretation / copy, pickle, deepcopy, reinterpret of a held "
    "handle under reflect), every history replayed on the real library from a clean slate, model stepped in "
    "lockstep; invariants after every event: (1) among all live objects ever obtained (handles, their sub-terms, "
    "round-trip results; dropped ones watched through weakrefs) same object <=> same model key (arrays by slot "
    "generation), (2) a constructed object's _ast_values/.data/.inputs/.output equal the recipe evaluated on the "
    "CURRENT slot arrays, (3) after gc.collect a watched object is dead iff no held handle reaches its key in the "
    "model, (4) no intern table holds a dead value and all table sizes return to the clean-slate baseline, "
    "(5) round trips return the identical object (array-free terms, domains, ops; copy and reinterpret always) or an "
    "equal-structured object on copied arrays.  A state is non-trivial when at least one recipe has been built; "
    "two states are distinct when their canonical forms differ (ambient interpretation, generation parity of the "
    "slots in use, per recipe N/H(key with relative generations)/D/C)."
)
ASSUMPTIONS = [
    "CPython, numpy backend, FUNSOR_DEBUG/PROFILE off; gc disabled during a history and run only at gc events and at "
    "the clean slate",
    "objects alive at harness start (after one warm-up pass over all recipes) are moved to the permanent generation "
    "with gc.freeze() so that gc.collect() costs microseconds; everything created afterwards is collected normally "
    "(thorough: the un-merged singleton cross-check runs un-frozen with full collections and must agree)",
    "the sizes 5 and 7, axis -3, parameter types complex/bytes and the names ?q are used by nothing but the recipes, so "
    "the model can predict the liveness of the domains/ops/types built from them",
    "identity of objects that are no longer referenced is observed only through weakrefs; whether id() was recycled "
    "by realloc is recorded, not prescribed",
    "sub-pool decomposition: interactions among more than two (thorough: three) recipes of the same kind, or between "
    "recipes of different kinds other than {Variable('qq', Bint[7]), Lambda(i, v[i]) with v: Reals[2]} x domains, are not "
    "explored",
    "real array contents are the generic fill (function of VERIF_SEED)",
]

OBSERVER_KINDS = ("cp", "pk", "dc", "ri")
MAX_VIOLATIONS_PER_JOB = 3


def bounds(tier):
    jobs = plan(tier)
    by = Counter((j["mode"], len(j["pool"]), j["depth"]) for j in jobs)
    return {
        "recipes": len(H.RECIPE_LIST),
        "recipe_kinds": dict(Counter(r.kind for r in H.RECIPE_LIST)),
        "array_slots": list(H.SLOTS),
        "interpretations": list(H.INTERPS),
        "events": ["construct", "drop", "gc", "realloc", "switch", "copy", "pickle", "deepcopy", "reinterpret"],
        "sub_searches": {"%s/pool=%d/depth=%d" % k: n for k, n in sorted(by.items())},
        "depth": 7 if tier == "thorough" else 5,
        "unmerged_crosscheck_depth": 4 if tier == "thorough" else None,
    }


# ---------------------------------------------------------------------------
# the real library: namespace, tables, warm-up, baseline


class HarnessError(Exception):
    pass


class Declined(Exception):
    pass


_PRELUDE = """\
import copy, gc, importlib, pickle, weakref
from collections import OrderedDict
import numpy as np
import funsor
from funsor import ops
from funsor.cnf import Contraction
from funsor.delta import Delta
from funsor.domains import Array, Bint, Product, Real, Reals
from funsor.gaussian import Gaussian
from funsor.interpretations import normalize
from funsor.interpreter import reinterpret
from funsor.tensor import Tensor
from funsor.terms import Binary, Lambda, Number, Reduce, Slice, Stack, Subs, Unary, Variable, eager, lazy, reflect
class _T:  # owner of bound methods / a callable object, for the wrapped ops
    def ladj(self, x, y): return x
    def ladj2(self, x, y): return y
    def fwd(self, x): return x
    def __call__(self, x): return x
    def copy(self): return _T()
def _fq(x, y): return x
"""


def initial_array(slot, seed):
    if slot == "s0":
        return np.array([0, 1])
    if slot == "s1":
        return lang.generic_fill(71, (2, 2), seed)
    if slot == "tq":
        return env().ns["_T"]()
    return lang.generic_fill(72, (2,), seed)


class Env:
    def __init__(self):
        ns = {}
        exec(_PRELUDE, ns)
        assert ns["funsor"].get_backend() == "numpy"
        self.ns = ns
        from funsor import interpreter
        from funsor.domains import ArrayType, ProductDomain
        from funsor.ops.op import Op
        from funsor.terms import Funsor
        from funsor.typing import GenericTypeMeta

        self.interpreter = interpreter
        self.Funsor, self.Op, self.ArrayType, self.ProductDomain = Funsor, Op, ArrayType, ProductDomain
        self.GenericTypeMeta = GenericTypeMeta
        self.interps = {i: ns[i] for i in H.INTERPS}
        self.reflect = ns["reflect"]
        self.reinterpret = ns["reinterpret"]
        self.base_len = len(interpreter._STACK)
        self.code = {}
        for r in H.RECIPE_LIST:
            self.code[r.name] = compile(r.src, "<recipe %s>" % r.name, "eval")
            self.code[r.name, "alt"] = [
                (a, compile(a, "<recipe %s alt %d>" % (r.name, i), "eval")) for i, a in enumerate(r.alts)
            ]
        self.tables = None
        self.baseline = None
        self.recording_hot = False
        self.hot_list = []
        self.frozen = False

    # -- intern tables -----------------------------------------------------------------------------------
    def discover_tables(self):
        def subclasses(c):
            for s in c.__subclasses__():
                yield s
                yield from subclasses(s)

        out, seen = [], set()

        def add(name, imp, t):
            if id(t) not in seen:
                seen.add(id(t))
                out.append((name, imp, t))

        add("ArrayType._type_cache", "funsor.domains.ArrayType._type_cache", self.ArrayType._type_cache)
        add("ProductDomain._type_cache", "funsor.domains.ProductDomain._type_cache", self.ProductDomain._type_cache)
        for c in sorted(set(subclasses(self.Funsor)) | {self.Funsor}, key=lambda c: (c.__module__, c.__name__)):
            if c.__args__:
                continue
            where = "%s.%s" % (c.__module__, c.__name__)
            add("%s._cons_cache" % c.__name__, where + "._cons_cache", c._cons_cache)
            add("%s._type_cache" % c.__name__, where + "._type_cache", c._type_cache)
        for c in sorted(set(subclasses(self.Op)), key=lambda c: (c.__module__, c.__name__)):
            add("%s._instance_cache" % c.__name__, "%s.%s._instance_cache" % (c.__module__, c.__name__), c._instance_cache)
        return out

    def table_sizes(self):
        """Per table the raw number of entries (a WeakValueDictionary's ``data``: includes entries whose value died
        but whose key was not removed -- at the clean slate there must be none of those either)."""
        return [len(d) for d in self.datas]

    def note_hot(self):
        for i, d in enumerate(self.datas):
            if len(d) != self.baseline[i]:
                self.hot.add(i)

    def prepare(self, seed, only=None):
        """Warm up every recipe (tests: those in ``only``) under every interpretation, then fix the table baseline
        and freeze the heap."""
        if self.baseline is not None:
            return
        ex = Exec(seed, env=self)
        warm = []
        for r in H.RECIPE_LIST:
            if only is not None and r.name not in only:
                continue
            for i in H.INTERPS if r.kind == "term" else ("eager",):
                h = ([("sw", i)] if i != "eager" else []) + [("c", r.name), ("c", r.name)]
                h += [(k, r.name) for k in OBSERVER_KINDS if k != "ri" or r.kind == "term"]
                h += [("d", r.name), ("gc",)]
                warm.append(((r.name,), tuple(h)))
        for pool, h in warm:
            ex.run(pool, h)
        collect()
        self.tables = self.discover_tables()
        self.datas = [getattr(t, "data", t) for _, _, t in self.tables]
        b1 = self.table_sizes()
        self.baseline = b1
        self.hot = set()  # tables that the recipes touch at all: only these are scanned after every event
        self.recording_hot = True
        for pool, h in warm:
            ex.run(pool, h, check_all=True)
        self.recording_hot = False
        self.hot_list = sorted(self.hot)
        collect()
        b2 = self.table_sizes()
        self.baseline_unstable = [
            (self.tables[i][0], b1[i], b2[i]) for i in range(len(b1)) if b1[i] != b2[i]
        ]
        self.freeze()

    def freeze(self):
        collect()
        gc.freeze()
        self.frozen = True

    def unfreeze(self):
        gc.unfreeze()
        self.frozen = False


def collect():
    """The gc event: gc.collect() repeated until a pass finds nothing.  One pass is not enough for nested interned
    classes: the key of a WeakValueDictionary entry holds its arguments strongly until the value's weakref callback
    has run, so ``Product[Bint[7], Reals[5]]`` is reclaimed by the first pass and its argument domains by the second."""
    n = 0
    for _ in range(6):
        if not gc.collect():
            break
        n += 1
    return n


_ENV = None


def env():
    global _ENV
    if _ENV is None:
        _ENV = Env()
    return _ENV


# ---------------------------------------------------------------------------
# executing one history on the real library, model in lockstep


class Entry:
    __slots__ = ("wr", "key", "k", "n", "expr", "pred", "cls")

    def wname(self):
        return "w%d_%d" % (self.k, self.n)


class Violation(Exception):
    def __init__(self, site, check, message, asserts, entries=(), extra=None):
        super().__init__(message)
        self.site, self.check, self.message = site, check, message
        self.asserts, self.entries, self.extra = list(asserts), list(entries), extra or {}


def _lit(x):
    return repr(x)


class Exec:
    def __init__(self, seed, env=None):
        self.e = env or globals()["env"]()
        self.seed = seed
        self.amb = None
        self.replayed = 0

    # -- clean slate -------------------------------------------------------------------------------------
    def reset(self, pool):
        e = self.e
        self.pool = tuple(pool)
        self.ms = H.MState(self.pool)
        self.held = {}
        self.reg = []
        self.arrays = []
        self.foreign = []
        self.nforeign = 0
        self.label = None
        self.counters = Counter()
        self.k = -1
        for s in H.SLOTS:
            e.ns.pop(s, None)
        for s in H.SLOTS:
            a = initial_array(s, self.seed)
            e.ns[s] = a
            self.arrays.append((weakref.ref(a), s, 0))
            del a
        if len(e.interpreter._STACK) != e.base_len:
            raise HarnessError("interpretation stack not at base at clean slate")

    def teardown(self, check):
        e = self.e
        if self.amb is not None:
            amb, self.amb = self.amb, None
            amb.__exit__(None, None, None)
        del e.interpreter._STACK[e.base_len :]
        self.held.clear()
        for s in H.SLOTS:
            e.ns.pop(s, None)
        collect()
        if not check:
            self.reg = []
            return
        self.k += 1
        # clean slate: nothing that was built during the history may survive
        for ent in self.reg:
            if ent.pred and ent.wr() is not None:
                raise Violation(
                    "weak:" + ent.cls, "liveness-clean-slate",
                    "after dropping every handle and gc.collect() the object %s (key %s) is still alive%s"
                    % (ent.expr, _kt(ent.key), self._referrers(ent)),
                    ["assert %s() is None, 'every reference dropped, gc.collect() run, still alive'" % ent.wname()],
                    [ent], {"final": True},
                )
        self.reg = []
        self.check_tables(final=True)

    # -- real -> struct ----------------------------------------------------------------------------------
    def arr_key(self, a):
        for wr, s, g in self.arrays:
            if wr() is a:
                return ("arr", s, g)
        for wr, n in self.foreign:
            if wr() is a:
                return ("arr?", n)
        self.nforeign += 1
        self.foreign.append((weakref.ref(a), self.nforeign))
        return ("arr?", self.nforeign)

    def walk(self, x, expr, out):
        """Structure of a real object as a spec; appends (object, raw spec, python expression) of every term and
        domain met on the way to ``out``."""
        e = self.e
        if isinstance(x, e.Funsor):
            vals = x._ast_values
            s = (getattr(type(x), "__origin__", type(x)).__name__,) + tuple(
                self.walk(v, "%s._ast_values[%d]" % (expr, i), out) for i, v in enumerate(vals)
            )
            out.append((x, s, expr))
            return s
        if isinstance(x, (np.ndarray, e.ns["_T"])):
            return self.arr_key(x)
        if inspect.ismethod(x):
            return ("method", self.walk(x.__self__, None, []), x.__func__.__name__)
        if inspect.isfunction(x):
            return ("fn", x.__name__)
        if isinstance(x, (str, int, float, bool, type(None))):
            return x
        if isinstance(x, tuple):
            return tuple(self.walk(v, "%s[%d]" % (expr, i), out) for i, v in enumerate(x))
        if isinstance(x, frozenset):
            if len(x) == 1:
                return frozenset([self.walk(next(iter(x)), "next(iter(%s))" % expr, out)])
            return frozenset(self.walk(v, None, []) for v in x)
        if isinstance(x, slice):
            return ("slice", x.start, x.stop, x.step)
        if isinstance(x, e.Op):
            dfl = dict(x.defaults)
            if type(x).__name__ == "GetsliceOp" and not isinstance(dfl.get("index"), tuple):
                dfl["index"] = (dfl["index"],)  # a bare index IS the 1-tuple of it (whichever spelling came first)
            s = ("op", type(x).__name__, tuple(sorted((k, self.walk(v, None, [])) for k, v in dfl.items())))
            if expr is not None:
                out.append((x, s, expr))
            return s
        if isinstance(x, e.ArrayType):
            s = ("dom", repr(x))
            out.append((x, s, expr))
            return s
        if isinstance(x, e.ProductDomain):
            s = ("Product", tuple(self.walk(a, "%s.__args__[%d]" % (expr, i), out) for i, a in enumerate(x.__args__)))
            out.append((x, s, expr))
            return s
        if isinstance(x, e.GenericTypeMeta):
            return (
                "type",
                getattr(x, "__origin__", x).__name__,
                tuple(getattr(a, "__name__", None) or repr(a) for a in x.__args__),
            )
        return ("py", type(x).__name__, repr(x))

    def register(self, obj, expr="res", top_pred=None):
        """Walk ``obj``; register every closed term / domain found in it; return (key of obj, entries)."""
        found = []
        raw = self.walk(obj, expr, found)
        if not found or found[-1][0] is not obj:
            found.append((obj, raw, expr))  # parametrised types: only the top object is registered
        if isinstance(obj, self.e.Funsor) and isinstance(obj.output, self.e.ArrayType):
            found.insert(0, (obj.output, ("dom", repr(obj.output)), expr + ".output"))  # kept alive by the term
        ents = []
        n = 0
        memo = {}
        for o, s, ex in found:
            if ex is None:
                continue
            if s[0] in H.FUNSOR_HEADS and H.free_mangled(s):
                continue  # open w.r.t. a gensym'ed name: its identity follows the binder's
            ent = Entry()
            ent.wr = weakref.ref(o)
            ent.key = H.norm(s, memo)
            ent.k, ent.n, ent.expr = self.k, n, ex
            ent.pred = H.liveness_predicted(ent.key)
            ent.cls = s[1] if s[0] in ("op", "type") else s[0]
            n += 1
            ents.append(ent)
        self.reg.extend(ents)
        return H.norm(raw, memo), ents

    # -- invariants --------------------------------------------------------------------------------------
    def check_identity(self):
        by_key, by_obj = {}, {}
        live = []
        for ent in self.reg:
            o = ent.wr()
            if o is None:
                continue
            live.append(ent)
            a = by_key.setdefault(ent.key, ent)
            if a is not ent and a.wr() is not o:
                raise Violation(
                    "cons:" + ent.cls, "two-objects-one-key",
                    "two live objects were built from equal arguments %s: %s (event %d) and %s (event %d)"
                    % (_kt(ent.key), a.expr, a.k, ent.expr, ent.k),
                    ["assert %s() is %s(), 'equal arguments, two distinct live objects'" % (a.wname(), ent.wname())],
                    [a, ent],
                )
            b = by_obj.setdefault(id(o), ent)
            if b is not ent and b.key != ent.key:
                raise Violation(
                    "cons:" + ent.cls, "one-object-two-keys",
                    "one object answers two different argument lists: %s (event %d) and %s (event %d)"
                    % (_kt(b.key), b.k, _kt(ent.key), ent.k),
                    ["assert %s() is not %s(), 'different arguments, same object'" % (b.wname(), ent.wname())],
                    [b, ent],
                )
            del o
        self.reg = live

    def check_fields(self, obj, key, r, expr):
        """The public fields of a term agree with its constructor arguments and the recipe's declared type."""
        e = self.e
        rec = H.RECIPES[r]
        if rec.kind == "dom":
            if key[0] == "dom":
                txt = key[1]
                dtype = "real" if txt.startswith("Real") else int(txt[5:-1].split(",")[0])
                dims = txt[txt.index("[") + 1 : -1].split(",") if "[" in txt else []
                shape = tuple(int(d) for d in (dims if dtype == "real" else dims[1:]))
                if obj.dtype != dtype or tuple(obj.shape) != shape:
                    raise Violation(
                        "intern:ArrayType", "stale",
                        "%s has dtype=%r shape=%r" % (rec.src, obj.dtype, obj.shape),
                        ["assert (%s.dtype, %s.shape) == (%r, %r)" % (expr, expr, dtype, shape)],
                    )
            return
        if rec.kind != "term":
            return
        name = key[0]
        bad = None
        # attributes named like the constructor fields (.op/.lhs/.rhs, .arg, .var/.expr, ...) hold the arguments
        for i, fld in enumerate(getattr(type(obj), "_ast_fields", ())):
            v, a = getattr(obj, fld, None), obj._ast_values[i]
            if isinstance(a, (e.Funsor, e.Op)) and isinstance(v, (e.Funsor, e.Op)) and v is not a:
                bad = ("%s.%s is %s._ast_values[%d]" % (expr, fld, expr, i), True)
                break
            if isinstance(a, str) and isinstance(v, str) and v != a:
                bad = ("%s.%s == %s._ast_values[%d]" % (expr, fld, expr, i), True)
                break
        if bad:
            pass
        elif dict((k, repr(v)) for k, v in obj.inputs.items()) != rec.inputs:
            bad = ("{k: repr(v) for k, v in %s.inputs.items()}" % expr, rec.inputs)
        elif repr(obj.output) != rec.output:
            bad = ("repr(%s.output)" % expr, rec.output)
        elif name == "Tensor":
            if obj.data is not obj._ast_values[0]:
                bad = ("%s.data is %s._ast_values[0]" % (expr, expr), True)
            elif tuple(obj.inputs.items()) != tuple(obj._ast_values[1]):
                bad = ("tuple(%s.inputs.items()) == %s._ast_values[1]" % (expr, expr), True)
            elif obj.dtype != obj._ast_values[2]:
                bad = ("%s.dtype == %s._ast_values[2]" % (expr, expr), True)
        elif name == "Gaussian":
            if obj.white_vec is not obj._ast_values[0] or obj.prec_sqrt is not obj._ast_values[1]:
                bad = ("%s.white_vec is %s._ast_values[0] and %s.prec_sqrt is %s._ast_values[1]" % ((expr,) * 4), True)
        elif name == "Variable":
            if obj.name != obj._ast_values[0] or obj.output is not obj._ast_values[1]:
                bad = ("(%s.name, %s.output) == %s._ast_values" % ((expr,) * 3), True)
        elif name == "Number":
            if obj.data != obj._ast_values[0]:
                bad = ("%s.data == %s._ast_values[0]" % (expr, expr), True)
        if bad:
            raise Violation(
                "cons:" + name, "stale",
                "fields of %s disagree with the recipe %s: expected %s == %r" % (expr, rec.src, bad[0], bad[1]),
                ["assert %s == %r" % bad],
            )

    def check_held(self):
        for r, obj in self.held.items():
            key = self.ms.status[r][1]
            now = H.norm(self.walk(obj, "h_" + r, []))
            if now != key:
                d = H.first_diff(key, now)
                raise Violation(
                    "cons:" + key[0], "mutated",
                    "held handle h_%s changed its structure: at %s expected %s, now %s"
                    % (r, d[0].format("h_" + r), _kt(d[1]), _kt(d[2])),
                    self._diff_asserts(d, "h_" + r),
                )

    def check_liveness(self):
        reach = H.reachable(self.ms)
        may = H.retained(self.ms)
        for ent in self.reg:
            if not ent.pred:
                continue
            alive = ent.wr() is not None
            want = ent.key in reach
            if alive and ent.key not in may:
                raise Violation(
                    "weak:" + ent.cls, "liveness",
                    "object %s of event %d (key %s) is not reachable from any held handle, gc.collect() was run, "
                    "yet it is alive%s" % (ent.expr, ent.k, _kt(ent.key), self._referrers(ent)),
                    ["assert %s() is None, 'unreachable, collected, still alive'" % ent.wname()],
                    [ent],
                )
            if want and not alive and not any(
                o.key == ent.key and o.wr() is not None for o in self.reg
            ):
                raise HarnessError("model says %s is reachable but no live object carries that key" % (_kt(ent.key),))

    def _referrers(self, ent):
        o = ent.wr()
        if o is None:
            return ""
        refs = [r for r in gc.get_referrers(o) if r is not o and type(r).__name__ != "frame"]
        txt = "; referrers: " + ", ".join(sorted({type(r).__name__ for r in refs}))
        del o, refs
        return txt

    def check_tables(self, final=False):
        e = self.e
        if e.baseline is None:
            return
        if e.recording_hot:
            e.note_hot()
        datas, base = e.datas, e.baseline
        if final:
            if e.table_sizes() == base:
                return
            todo = range(len(datas))
        else:
            todo = e.hot_list
        for i in todo:
            d = datas[i]
            if len(d) == base[i]:
                continue  # only a table this history has touched can hold a new dead entry
            name, imp, t = e.tables[i]
            if isinstance(t, weakref.WeakValueDictionary):
                for k, ref in list(d.items()):
                    if ref() is None and ref not in getattr(t, "_pending_removals", ()):
                        raise Violation(
                            "table:" + name, "dead-entry", "%s holds a dead value under key %r" % (name, k),
                            [_table_get(imp), "assert all(r() is not None for r in list(T.data.values()))"],
                        )
            if final:
                raise Violation(
                    "table:" + name, "growth",
                    "after dropping every handle and gc.collect(), %s has %d entries; it had %d at the clean slate "
                    "before the history" % (name, len(d), base[i]),
                    ["assert len(T) == T_len0, (len(T), T_len0)"],
                    (), {"table": imp},
                )

    def _diff_asserts(self, d, base):
        path, exp, act = d
        expr = path.format(base)
        if isinstance(exp, tuple) and exp[:1] == ("arr",):
            if exp[2] == self.ms.gens[exp[1]]:
                return ["assert %s is %s, 'not built on the current array of slot %s'" % (expr, exp[1], exp[1])]
            return ["assert False, 'array at %s: expected %s, got %s'" % (expr, _kt(exp), _kt(act))]
        if H.is_object(exp):
            if exp[0] == "dom":
                return ["assert repr(%s) == %r" % (expr, exp[1])]
            if exp[0] in H.FUNSOR_HEADS:
                return ["assert type(%s).__origin__.__name__ == %r, type(%s)" % (expr, exp[0], expr)]
            if exp[0] == "op":
                return ["assert (type(%s).__name__, dict(%s.defaults)) == (%r, %r)" % (expr, expr, exp[1], dict(exp[2]))]
            return ["assert False, 'at %s expected %s got %s'" % (expr, _kt(exp), _kt(act))]
        if isinstance(exp, (str, int, float, type(None))):
            if isinstance(exp, str) and H.is_mangled(exp):
                return ["assert %s.startswith(%r)" % (expr, exp[:-3] + "__BOUND")]
            return ["assert %s == %r" % (expr, exp)]
        return ["assert False, 'at %s expected %s got %s'" % (expr, _kt(exp), _kt(act))]

    # -- events ------------------------------------------------------------------------------------------
    def step(self, ev, check=True):
        """Execute one event on the real library and on the model; evaluate the invariants."""
        e, ms = self.e, self.ms
        self.k += 1
        kind = ev[0]
        label = kind
        if kind == "c":
            r = ev[1]
            rec = H.RECIPES[r]
            expected = H.expected_key(ms, r)
            predicted_hit = expected in H.reachable(ms)
            before = {id(o) for o in (ent.wr() for ent in self.reg) if o is not None} if check else ()
            try:
                res = eval(e.code[r], e.ns)
            except Exception as exc:  # the constructor itself raised: a decline (BUILDERS rule 2), counted
                if isinstance(exc, (NameError, SyntaxError)):
                    raise HarnessError("recipe %s: %r" % (r, exc))
                raise Declined("c:%s:%s" % (r, type(exc).__name__))
            # other spellings of the SAME arguments (keywords in any order, mixed positional/keyword, defaults
            # written out, f(**subs) in any order): each must give the identical object
            for alt_src, alt_code in e.code[r, "alt"]:
                try:
                    alt = eval(alt_code, e.ns)
                except Exception as exc:  # this spelling raises: a decline, counted; the others are still tried
                    if isinstance(exc, (NameError, SyntaxError)):
                        raise HarnessError("recipe %s, spelling %s: %r" % (r, alt_src, exc))
                    self.counters["decline:spelling:%s:%s" % (r, type(exc).__name__)] += 1
                    continue
                if alt is not res:
                    akey = H.norm(self.walk(alt, "alt", []))
                    site = ("cons:" if rec.kind == "term" else "intern:") + _cls_of(expected)
                    if not H.matches(expected, akey) and H.matches(expected, H.norm(self.walk(res, "res", []))):
                        d = H.first_diff(expected, akey)
                        raise Violation(
                            site, "stale",
                            "the spelling %s under %s returned an object that was not built from these arguments: at %s "
                            "expected %s, got %s" % (alt_src, ms.interp, d[0].format("alt"), _kt(d[1]), _kt(d[2])),
                            ["alt = " + alt_src] + self._diff_asserts(d, "alt"),
                            (), {"features": {"spelling": True}},
                        )
                    raise Violation(
                        site, "two-objects-one-key",
                        "two spellings of equal arguments gave two objects: %s  vs  %s" % (rec.src, alt_src),
                        ["assert res is (%s), 'same arguments, two objects'" % alt_src],
                        (), {"features": {"spelling": True}},
                    )
                del alt
            key, ents = self.register(res)
            if not H.matches(expected, key):
                d = H.first_diff(expected, key)
                same_as = [o for o in self.reg if o not in ents and o.wr() is res]
                raise Violation(
                    "cons:" + _cls_of(expected) if rec.kind == "term" else "intern:" + _cls_of(expected), "stale",
                    "%s under %s returned an object that was not built from these arguments: at %s expected %s, got %s%s"
                    % (rec.src, ms.interp, d[0].format("res"), _kt(d[1]), _kt(d[2]),
                       ("; it is the object first obtained at event %d as %s" % (same_as[0].k, same_as[0].expr)) if same_as else ""),
                    self._diff_asserts(d, "res"),
                    same_as[:1],
                )
            self.check_fields(res, key, r, "res")
            real_same = id(res) in before if check else None
            old = ms.status[r]
            if old[0] == "H" and old[1] == key:
                label = "c:%s:held" % rec.kind
                if self.held[r] is not res:
                    raise Violation(
                        "cons:" + _cls_of(expected), "two-objects-one-key",
                        "%s built again under %s from the same arguments while a handle is held gave a different object"
                        % (rec.src, ms.interp),
                        ["assert res is h_%s, 'equal arguments, handle still held, different object'" % r],
                    )
            else:
                label = "c:%s:%s/%s" % (rec.kind, "hit" if predicted_hit else "miss", {True: "same", False: "new", None: "?"}[real_same])
            self.held[r] = res
            del res
            H.model_step(ms, ev, key)
        elif kind == "d":
            del self.held[ev[1]]
            H.model_step(ms, ev)
        elif kind == "gc":
            n0 = sum(1 for ent in self.reg if ent.wr() is not None)
            passes = collect()
            H.model_step(ms, ev)
            n1 = sum(1 for ent in self.reg if ent.wr() is not None)
            label = ("gc:freed-in-%d-passes" % passes) if n1 < n0 else "gc:nothing"
            self.check_liveness()
        elif kind == "ra":
            s = ev[1]
            old = e.ns.pop(s)
            old_id = id(old)
            tmp = old.copy()
            del old
            new = tmp.copy()
            del tmp
            e.ns[s] = new
            recycled = id(new) == old_id
            H.model_step(ms, ev)
            self.arrays.append((weakref.ref(new), s, ms.gens[s]))
            del new
            label = "ra:id-recycled" if recycled else "ra:id-fresh"
        elif kind == "sw":
            if self.amb is not None:
                amb, self.amb = self.amb, None
                amb.__exit__(None, None, None)
            if ev[1] != "eager":
                self.amb = e.interps[ev[1]]
                self.amb.__enter__()
            H.model_step(ms, ev)
            if len(e.interpreter._STACK) != e.base_len + (self.amb is not None):
                raise HarnessError("stack depth after switch")
        elif kind in OBSERVER_KINDS:
            label = self.observe(kind, ev[1])
            H.model_step(ms, ev)
        else:
            raise ValueError(ev)
        if check:
            self.check_identity()
            self.check_held()
            self.check_tables()
        self.label = label
        return label

    def observe(self, kind, r):
        e = self.e
        h = self.held[r]
        key = self.ms.status[r][1]
        rec = H.RECIPES[r]
        # Op.__deepcopy__ returns self by design, whatever the op wraps
        must_be_identical = kind in ("cp", "ri") or not H.has_arrays(key) or (rec.kind == "op" and kind == "dc")
        code = {
            "cp": "copy.copy(h_%s)",
            "pk": "pickle.loads(pickle.dumps(h_%s))",
            "dc": "copy.deepcopy(h_%s)",
            "ri": "reinterpret(h_%s)",
        }[kind] % r
        try:
            with e.reflect:
                if kind == "cp":
                    res = copy.copy(h)
                elif kind == "pk":
                    res = pickle.loads(pickle.dumps(h))
                elif kind == "dc":
                    res = copy.deepcopy(h)
                else:
                    res = e.reinterpret(h)
        except Exception as exc:  # a round trip that raises is a decline (BUILDERS rule 2), counted
            self.counters["decline:%s:%s:%s" % (kind, rec.kind if rec.kind != "dom" else key[0], type(exc).__name__)] += 1
            return "%s:decline" % kind
        site = ("cons:" if rec.kind == "term" else "intern:") + _cls_of(key)
        if must_be_identical:
            if res is not h:
                extra = {}
                if key[0] == "Contraction":
                    extra = {"features": {"contraction_terms": len(key[4])}}
                raise Violation(
                    site, "roundtrip",
                    "%s under reflect did not return the identical object (handle of %s): got %s for %s"
                    % (code, rec.src, _kt(self.walk(res, "res", [])), _kt(key)),
                    ["assert res is h_%s, 'round trip under reflect must give back the same object'" % r],
                    (), extra,
                )
            del res
            return "%s:identical" % kind
        k2, ents = self.register(res)
        if res is h:
            raise Violation(
                site, "roundtrip",
                "%s returned the original object although its arrays had to be copied" % code,
                ["assert res is not h_%s" % r],
            )
        if _values(k2) != _values(key) or not self._arrays_equal(res, h):
            raise Violation(
                site, "roundtrip", "%s is not an equal-structured copy: %s vs %s" % (code, _kt(k2), _kt(key)),
                ["assert repr(res) == repr(h_%s)" % r],
            )
        del res
        return "%s:copy" % kind

    def _arrays_equal(self, a, b):
        xs, ys = [], []
        _collect_arrays(a, xs, self.e)
        _collect_arrays(b, ys, self.e)
        return (
            len(xs) == len(ys)
            and all(x is not y and x.dtype == y.dtype and x.shape == y.shape and np.array_equal(x, y) for x, y in zip(xs, ys))
        )

    # -- a whole history ---------------------------------------------------------------------------------
    def run(self, pool, hist, check_all=False, tail=()):
        """Replay ``hist`` (checks on the last event only unless ``check_all``), then the events of ``tail``
        (always checked), then return to the clean slate (checked).  Returns (labels of checked events, violation)."""
        gc.disable()
        labels = []
        viol = None
        done = 0
        try:
            self.reset(pool)
            n = len(hist)
            for j, ev in enumerate(hist):
                chk = check_all or j == n - 1
                lab = self.step(ev, chk)
                done += 1
                if chk:
                    labels.append(lab)
                else:
                    self.replayed += 1
            for ev in tail:
                labels.append(self.step(ev, True))
                done += 1
        except Violation as v:
            viol = v.with_traceback(None)
            viol.at = done
        except Declined as dcl:
            self.counters["decline:" + str(dcl)] += 1
            labels.append("declined")
            self.declined = True
            viol = None
            try:
                self.teardown(check=False)
            finally:
                pass
            return labels, None
        self.declined = False
        try:
            self.teardown(check=viol is None)
        except Violation as v:
            viol = v.with_traceback(None)
            viol.at = len(hist) + len(tail)
        return labels, viol


def _cls_of(key):
    if key[0] in ("op", "type"):
        return {"op": "OpMeta", "type": "GenericTypeMeta"}[key[0]]
    if key[0] == "dom":
        return "ArrayType"
    if key[0] == "Product":
        return "ProductDomain"
    return key[0]


def _kt(key):
    t = repr(key)
    return t if len(t) < 220 else t[:217] + "..."


def _values(key):
    """A key with every array replaced by a wildcard (structure only)."""
    if isinstance(key, tuple):
        if key[:1] in (("arr",), ("arr?",)):
            return ("arr*",)
        return tuple(_values(y) for y in key)
    if isinstance(key, frozenset):
        return frozenset(_values(y) for y in key)
    return key


def _collect_arrays(x, out, e):
    if isinstance(x, e.Funsor):
        for v in x._ast_values:
            _collect_arrays(v, out, e)
    elif isinstance(x, np.ndarray):
        out.append(x)
    elif isinstance(x, (tuple, frozenset)):
        for v in x:
            _collect_arrays(v, out, e)


def _table_get(imp):
    mod, cls, attr = imp.rsplit(".", 2)
    return "T = getattr(importlib.import_module(%r), %r).%s" % (mod, cls, attr)


# ---------------------------------------------------------------------------
# stand-alone snippets


def snippet(seed, hist, viol):
    """A stand-alone program replaying ``hist`` with the failing assertion placed after event ``viol.at``."""
    L = [_PRELUDE.rstrip(), "gc.collect(); gc.disable()"]
    for s in H.SLOTS:
        if s == "tq":
            L.append("tq = _T()")
            continue
        a = initial_array(s, seed)
        L.append("%s = np.array(%r)" % (s, a.tolist()))
    table = viol.extra.get("table")
    if table:
        L.append(_table_get(table))
        L.append("T_len0 = len(T)")
    L.append("_amb = None")
    defs = {}
    for ent in viol.entries:
        defs.setdefault(ent.k, []).append("%s = weakref.ref(%s)" % (ent.wname(), ent.expr))
    interp = "eager"
    held = set()
    at = viol.at

    def emit_asserts():
        L.append("# ---- the property fails here: " + viol.message.replace("\n", " ")[:300])
        L.extend(viol.asserts)

    for k, ev in enumerate(hist):
        kind = ev[0]
        L.append("# event %d: %s" % (k, " ".join(map(str, ev))))
        if kind == "c":
            r = ev[1]
            L.append("res = %s   # ambient interpretation: %s" % (H.RECIPES[r].src, interp))
            L.extend(defs.get(k, []))
            if k == at:
                emit_asserts()
                break
            L.append("h_%s = res; del res" % r)
            held.add(r)
        elif kind == "d":
            L.append("del h_%s" % ev[1])
            held.discard(ev[1])
        elif kind == "gc":
            L.append("while gc.collect(): pass")
        elif kind == "ra":
            s = ev[1]
            L.append("tmp = {s}.copy(); del {s}; {s} = tmp.copy(); del tmp   # a NEW array with equal contents".format(s=s))
        elif kind == "sw":
            L.append("if _amb is not None: _amb.__exit__(None, None, None)")
            L.append("_amb = None" if ev[1] == "eager" else "_amb = %s; _amb.__enter__()" % ev[1])
            interp = ev[1]
        else:
            call = {
                "cp": "copy.copy(h_%s)", "pk": "pickle.loads(pickle.dumps(h_%s))",
                "dc": "copy.deepcopy(h_%s)", "ri": "reinterpret(h_%s)",
            }[kind] % ev[1]
            L.append("with reflect:")
            L.append("    res = " + call)
            L.extend(defs.get(k, []))
            if k == at:
                emit_asserts()
                break
            L.append("del res")
        if k == at:
            emit_asserts()
            break
    else:
        L.append("# clean slate: drop every handle, collect")
        L.append("if _amb is not None: _amb.__exit__(None, None, None)")
        for r in sorted(held):
            L.append("del h_%s" % r)
        L.append("del s0, s1, s2, tq")
        L.append("while gc.collect(): pass")
        emit_asserts()
    L.append('print("not reproduced")')
    return "\n".join(L) + "\n"


def make_violation(seed, pool, hist, viol, mode):
    hist = [list(ev) for ev in hist]
    ev = hist[viol.at] if viol.at < len(hist) else ["clean-slate"]
    kinds = sorted({H.RECIPES[r].kind for r in pool})
    feats = {"check": viol.check, "event": ev[0], "kinds": "+".join(kinds)}
    if len(ev) > 1 and ev[1] in H.RECIPES:
        feats["recipe"] = ev[1]
    feats.update(viol.extra.get("features", {}))
    case = {"pool": list(pool), "history": hist, "mode": mode}
    key = "%s|%s" % ("+".join(pool), ";".join(":".join(map(str, e)) for e in hist))
    return core.violation(
        key, viol.site, viol.message, case, feats, snippet(seed, [tuple(e) for e in hist], viol), transitions=len(hist)
    )


# ---------------------------------------------------------------------------
# searches


_FINDINGS = None


def _known(out):
    """Is this violation covered by an entry of known_findings.json?  (Known ones do not stop a sub-search.)"""
    global _FINDINGS
    if _FINDINGS is None:
        _FINDINGS = core.load_findings(ID)
    return core.match_finding(_FINDINGS, out["violation"]) is not None


def search_merged(pool, depth, seed, rep, ex, collect=None):
    """BFS over canonical states of one sub-pool.  Observer events (which never change the canonical state) are
    executed as one tail after the history that first reached the state."""
    pool = tuple(pool)
    ms0 = H.MState(pool)
    visited = {H.canon(ms0, pool): 0}
    queue = deque([((), ms0, "init")])
    nviol = 0
    info = {"states": 0, "transitions": 0, "max_depth": 0}
    while queue:
        hist, ms, how = queue.popleft()
        d = len(hist)
        c = H.canon(ms, pool)
        ntrans = 0
        counters = Counter()
        if d < depth and nviol < MAX_VIOLATIONS_PER_JOB:
            for ev in H.menu(ms, pool):
                h2 = hist + (ev,)
                labels, viol = ex.run(pool, h2)
                ntrans += 1
                counters.update(ex.counters)
                if viol is not None:
                    out = make_violation(seed, pool, h2, viol, "merged")
                    nviol += 0 if _known(out) else 1
                    rep.add(out)
                    continue
                counters["event:" + labels[-1]] += 1
                if ex.declined:
                    continue
                ms2 = ex.ms
                c2 = H.canon(ms2, pool)
                if c2 not in visited:
                    visited[c2] = d + 1
                    queue.append((h2, ms2.copy(), labels[-1]))
            tail = H.observer_events(ms, pool)
            ntrans += len(tail)
            while tail:
                labels, viol = ex.run(pool, hist, tail=tail)
                counters.update(ex.counters)
                if viol is not None:
                    out = make_violation(seed, pool, hist + tuple(tail), viol, "merged")
                    rep.add(out)
                    j = viol.at - len(hist)
                    if _known(out) and 0 <= j < len(tail):
                        tail = tail[:j] + tail[j + 1 :]  # a known finding: run the other round trips without it
                        continue
                    nviol += 1
                else:
                    for lab in labels[-len(tail):]:
                        counters["event:" + lab] += 1
                    if H.canon(ex.ms, pool) != c:
                        raise HarnessError("observer events changed the canonical state")
                break
        info["states"] += 1
        info["transitions"] += ntrans
        info["max_depth"] = max(info["max_depth"], d)
        if collect is not None:
            collect.add((H.canon_text(c), d))
        nontrivial = any(st[1] != "N" for st in c[2])
        sample = None
        if info["states"] in (2, 9) and len(pool) == 2:
            sample = {"case": "pool %s, history %s" % ("+".join(pool), list(hist)), "status": "ok", "observed": H.canon_text(c)}
        rep.add(core.ok(H.canon_text(c), nontrivial, "reached-by:" + how, ntrans, dict(counters)), sample)
    if nviol >= MAX_VIOLATIONS_PER_JOB:
        rep.exhaustive = False
        rep.notes.append("sub-search %s stopped after %d violations" % ("+".join(pool), nviol))
    return info


def search_unmerged(pool, depth, seed, rep, ex, collect):
    """Every event sequence of exactly ``depth`` events (observers are ordinary events), each run once with the
    invariants evaluated after every event -- no de-duplication.  Collects the canonical states met."""
    pool = tuple(pool)
    info = {"histories": 0, "events": 0}
    nviol = 0

    def rec(hist, ms):
        nonlocal nviol
        collect.add((H.canon_text(H.canon(ms, pool)), len(hist)))
        if nviol >= MAX_VIOLATIONS_PER_JOB:
            return
        if len(hist) == depth:
            labels, viol = ex.run(pool, hist, check_all=True)
            info["histories"] += 1
            info["events"] += len(hist)
            if viol is not None:
                out = make_violation(seed, pool, hist, viol, "unmerged")
                nviol += 0 if _known(out) else 1
                rep.add(out)
            return
        for ev in H.menu(ms, pool, observers=True):
            m2 = ms.copy()
            H.model_step(m2, ev)
            rec(hist + (ev,), m2)

    rec((), H.MState(pool))
    rep.counters["unmerged_histories"] += info["histories"]
    rep.counters["unmerged_events_checked"] += info["events"]
    return info


# ---------------------------------------------------------------------------
# plan and parallel driver

_CROSSCHECK_PAIRS = [
    ("t0a", "t0b"), ("t1ij", "t1ji"), ("t1ij", "binT"), ("t2r", "delta"), ("t2r", "gauss"), ("t1ij", "gauss"),
    ("t2r", "binTT"), ("red", "lam"), ("red", "ctr"), ("bin", "subs"), ("bin", "stack"), ("var", "bin"),
    ("var7", "dB7"), ("dB7", "dProd"), ("dR5", "dProd"), ("dProd", "dProd2"), ("dB75", "dR5"), ("dR5", "dR57"), ("dR5", "dR7"), ("lam", "dR5"),
    ("oS0", "oS1"), ("oSl", "oSl2"), ("oSl", "oSl3"), ("oSlA1", "oSlA2"), ("oSlB1", "oSlB2"), ("oSlC1", "oSlC2"), ("oSf1", "oSf2"),
    ("oRs", "oRs3"), ("oSlD1", "oSlD2"), ("oSlE1", "oSlE2"), ("oSlB1", "oSlF2"), ("oW1", "oW2"), ("oW4", "oW5"), ("oW4", "oW6"),
    ("tN1", "tN2"), ("sl1", "sl2"), ("sl1", "oSlS"), ("sl1", "dR1311"),
]


def plan(tier):
    names = [r.name for r in H.RECIPE_LIST]
    kind = {r.name: r.group for r in H.RECIPE_LIST}
    depth = 7 if tier == "thorough" else 5
    jobs = [{"mode": "merged", "pool": [n], "depth": depth} for n in names]
    pairs = [p for p in combinations(names, 2) if kind[p[0]] == kind[p[1]]]
    pairs += [(t, n) for t in ("var7", "lam") for n in names if kind[n] == "dom"]
    pairs += [("sl1", "oSlS"), ("sl1", "dR1311"), ("sl2", "dR1311"), ("sl1", "var")]
    jobs += [{"mode": "merged", "pool": list(p), "depth": depth} for p in pairs]
    if tier == "thorough":
        triples = [t for t in combinations(names, 3) if len({kind[n] for n in t}) == 1]
        triples += [("var7",) + p for p in combinations([n for n in names if kind[n] == "dom"], 2)]
        triples += [("sl1", "oSlS", "dR1311"), ("sl1", "sl2", "oSlS")]
        jobs += [{"mode": "merged", "pool": list(t), "depth": 5} for t in triples]
        jobs += [{"mode": "crosscheck", "pool": [n], "depth": 4, "frozen": False} for n in names]
        jobs += [{"mode": "crosscheck", "pool": list(p), "depth": 4, "frozen": True} for p in _CROSSCHECK_PAIRS]
    return jobs


def _cost(job):
    p = job["pool"]
    w = sum(3 if H.RECIPES[n].kind == "term" else 1 for n in p) ** 2
    w *= (1 + len(H.pool_slots(p))) * {"merged": 1, "crosscheck": 30}[job["mode"]]
    return w * (4 ** (job["depth"] - 4))


def run_job(args):
    job, tier, seed = args
    t0 = time.time()
    rep = core.Report(ID, tier, seed)
    e = env()
    e.prepare(seed)
    ex = Exec(seed)
    pool = job["pool"]
    out = {"job": job}
    try:
        if e.baseline_unstable:
            name, b1, b2 = e.baseline_unstable[0]
            v = Violation(
                "table:" + name, "growth",
                "repeating the same histories from a clean slate grew %s from %d to %d entries" % (name, b1, b2), [],
            )
            v.at = 0
            rep.add(core.violation("warm-up", v.site, v.message, {"pool": [], "history": [], "mode": "warm-up"},
                                   {"check": "growth", "event": "warm-up", "kinds": "all"}, ""))
            return rep, out
        if job["mode"] == "merged":
            out["info"] = search_merged(pool, job["depth"], seed, rep, ex)
        else:
            merged, unmerged = set(), set()
            sub = core.Report(ID, tier, seed)  # states of the depth-4 BFS are already counted by the main search
            if not job.get("frozen", True):
                e.unfreeze()
            try:
                # observers as first-class events in both searches so that depths are comparable
                out["info"] = search_unmerged(pool, job["depth"], seed, rep, ex, unmerged)
            finally:
                if not e.frozen:
                    e.freeze()
            search_merged(pool, job["depth"], seed, sub, ex, merged)
            rep.violations.extend(sub.violations)
            rep.violation_sites.update(sub.violation_sites)
            rep.status["violation"] += sub.status["violation"]
            out["states_equal"] = {t for t, _ in merged} == {t for t, _ in unmerged}
            out["canonical_states"] = len({t for t, _ in merged})
            rep.counters["crosscheck_pools"] += 1
            rep.counters["crosscheck_pools_state_sets_equal"] += int(out["states_equal"])
            if not out["states_equal"]:
                rep.notes.append("crosscheck %s: merged and un-merged searches reach different canonical states" % pool)
        rep.counters["replayed_prefix_events"] += ex.replayed
    except Exception as exc:  # a bug of the harness or an exception it does not understand: never a VIOLATION
        import traceback

        rep.add(core.skip("job %s" % job, "HARNESS-ERROR:" + type(exc).__name__))
        rep.notes.append("harness error in sub-search %s: %s" % (job, traceback.format_exc()[-1500:]))
    finally:
        gc.enable()
    out["wall"] = time.time() - t0
    return rep, out


def _init_worker(modname, repo):
    core._worker_init(modname, repo)


def explore(tier, seed, report):
    jobs = sorted(plan(tier), key=_cost, reverse=True)
    nproc = core.NPROC
    args = [(j, tier, seed) for j in jobs]
    infos = []
    if nproc <= 1:
        results = map(run_job, args)
        for rep, out in results:
            report.merge(rep)
            infos.append(out)
    else:
        ctx = mp.get_context("fork")
        with ctx.Pool(nproc, initializer=_init_worker, initargs=(__name__, core.REPO)) as pool:
            for rep, out in pool.imap_unordered(run_job, args, chunksize=1):
                report.merge(rep)
                infos.append(out)
    merged = [o for o in infos if o["job"]["mode"] == "merged" and "info" in o]
    report.extra["sub_searches"] = len(infos)
    report.extra["slowest_subsearches_s"] = [
        (round(o.get("wall", 0), 1), o["job"]["mode"], "+".join(o["job"]["pool"]))
        for o in sorted(infos, key=lambda o: -o.get("wall", 0))[:5]
    ]
    report.extra["max_depth"] = max([o["info"]["max_depth"] for o in merged] or [0])
    report.extra["per_subsearch_states_total"] = sum(o["info"]["states"] for o in merged)
    report.extra["largest_subsearch"] = max(
        [(o["info"]["states"], "+".join(o["job"]["pool"])) for o in merged] or [(0, "")]
    )
    cc = [o for o in infos if o["job"]["mode"] == "crosscheck" and "info" in o]
    if cc:
        report.extra["unmerged_crosscheck"] = {
            "pools": len(cc),
            "histories": sum(o["info"]["histories"] for o in cc),
            "state_sets_equal": all(o.get("states_equal") for o in cc),
            "unfrozen_full_gc_pools": sum(1 for o in cc if not o["job"].get("frozen", True)),
        }
        if not all(o.get("states_equal") for o in cc):
            report.exhaustive = False


def finalize(report, tier, seed):
    ev = {k[6:]: n for k, n in report.counters.items() if k.startswith("event:")}
    dec = {k[8:]: n for k, n in report.counters.items() if k.startswith("decline:")}
    return {"event_outcomes": ev, "declined_round_trips": dec}


# ---------------------------------------------------------------------------
# replay of one recorded violation


def replay(body):
    case = body["case"]
    seed = body.get("seed", 0)
    e = env()
    e.prepare(seed)
    pool = tuple(case["pool"])
    hist = tuple(tuple(ev) for ev in case["history"])
    ex = Exec(seed)
    try:
        if not hist:
            if e.baseline_unstable:
                name, b1, b2 = e.baseline_unstable[0]
                return core.violation("warm-up", "table:" + name, "tables grow across identical histories", case, {}, "")
            return core.ok("warm-up")
        labels, viol = ex.run(pool, hist, check_all=True)
    finally:
        gc.enable()
    if viol is not None:
        return make_violation(seed, pool, hist, viol, case.get("mode", "merged"))
    return core.ok("replay", True, "passes", len(hist))
