"""C06 -- declared types match actual values.

(a) type monitor over the L corpus: the term built under reflect and under lazy must declare EXACTLY the inputs and the
    output domain the reference typing predicts; built under eager / normalize(+reinterpret) / sequential it must have
    the same output domain, inputs that are a subset (dropping only inputs the value does not depend on), a data array
    of exactly the declared batch + event shape and bounded-integer data inside [0, size).
(b) op catalogue, exhaustive: for every op family with a find_domain rule and every operand-domain tuple with shapes of
    rank <= 2 (thorough 3) and sizes in {1,2,3}, every parameter value (axis / keepdims / index / offset / reshape
    target / stack dim / cat axis / einsum equation): find_domain(op, *domains) equals the shape the op returns on
    arrays of those domains; integer output ranges are decided exhaustively over all operand values.
"""
import itertools

from .. import core, gen, observe
from ..ref import lang

ID = "C06"
LEVEL_RULE = (
    "(a) L-terms by level as in C01 (coarser pool) x 5 interpretations; (b) all (op, operand domains, parameters) of the op "
    "catalogue within the shape bounds; non-trivial (a) = reference defined and >= 1 interpretation compared, "
    "(b) = the op accepted the operands; distinct = case text"
)
ASSUMPTIONS = [
    "reference typing fv.ref.lang.ty: union of inputs minus bound names, numpy's shape rule per op parameter, integer bounds by interval arithmetic",
    "numpy backend",
]
FAMS = ("unary", "binary", "reduce", "subs", "binders", "einsum")


def bounds(tier):
    return {"corpus_depth": 2, "catalogue_rank": 3 if tier == "thorough" else 2, "catalogue_sizes": [1, 2, 3], "int_sizes": [1, 2, 3, 4]}


def shapes(tier):
    sizes = (1, 2, 3)
    out = [()]
    for r in range(1, (3 if tier == "thorough" else 2) + 1):
        out += list(itertools.product(sizes, repeat=r))
    return out


def catalogue(tier):
    shp = shapes(tier)
    out = []
    # unary pointwise
    for op in ("neg", "abs", "exp", "log", "sqrt", "log1p", "sigmoid", "tanh", "reciprocal", "atanh"):
        for s in shp:
            out.append(["unary", op, list(s), "real"])
    for s in shp:
        out.append(["unary", "abs", list(s), 3])
    # reductions: every axis (int, negative, tuple, None) x keepdims
    for op in ("sum", "prod", "max", "min", "logsumexp", "mean", "std", "var", "all", "any"):
        for s in shp:
            nd = len(s)
            axes = [None] + list(range(-nd, nd)) + [list(c) for r in (2, 3) for c in itertools.combinations(range(nd), r)]
            # tuple axes with negative members (each tuple once with every member counted from the right)
            axes += [[a - nd for a in c] for r in (1, 2) for c in itertools.combinations(range(nd), r)]
            if nd >= 2:
                axes += [[0, -1]]
            for ax in axes:
                for kd in (False, True):
                    out.append(["reduction", op, list(s), ax, kd])
    # reshape
    for s in shp:
        n = 1
        for d in s:
            n *= d
        targets = {(n,), (1, n), (n, 1)} | {t for t in shp if t and _prod(t) == n}
        for t in sorted(targets):
            out.append(["reshape", list(s), list(t)])
    # getitem offsets (index domain Bint[size of that dim])
    for s in shp:
        for off in range(len(s)):
            for lshape in ((),):
                out.append(["getitem", list(s), off])
    # getslice: all indexes of length <= rank+1 from {int, slices, None, Ellipsis}
    parts = [0, -1, 1, ["s", None, None, None], ["s", 1, None, None], ["s", None, -1, None], ["s", None, None, 2], ["s", 0, 2, None], None, "..."]
    for s in shp:
        nd = len(s)
        for L in range(1, min(nd + 1, 3) + 1):
            for idx in itertools.product(parts, repeat=L):
                if sum(1 for p in idx if p == "...") > 1:
                    continue
                out.append(["getslice", list(s), list(idx)])
    # binary pointwise / comparison / matmul on reals: all shape pairs
    small = [s for s in shp if len(s) <= 2]
    for op in ("add", "sub", "mul", "truediv", "pow", "max", "min", "logaddexp", "eq", "lt", "floordiv", "mod", "safesub", "safediv"):
        for a in small:
            for b in small:
                out.append(["binary", op, list(a), list(b)])
    for a in shp:
        for b in shp:
            if a and b:
                out.append(["binary", "matmul", list(a), list(b)])
    # integer ranges: exhaustive over operand values
    for op in ("add", "mul", "max", "min", "pow", "floordiv", "mod", "eq", "ne", "lt", "le", "gt", "ge", "and", "or", "xor", "sub"):
        for L in (1, 2, 3, 4):
            for R in (1, 2, 3, 4):
                if op in ("and", "or", "xor") and max(L, R) > 2:
                    continue  # carrier of the boolean ops: booleans
                out.append(["intrange", op, L, R])
    # stack / cat / einsum
    for a in small:
        for b in small:
            for dim in (0, -1, 1, -2):
                out.append(["stack", [list(a), list(b)], dim])
                out.append(["cat", [list(a), list(b)], dim])
    for eq in gen.EINSUMS + ["ab,bc->ca", "aa->a", "ab,ab->ab", "a,b,c->abc"]:
        nin = len(eq.split("->")[0].split(","))
        for ops_ in itertools.product([s for s in small if s], repeat=nin):
            out.append(["einsum", eq, [list(s) for s in ops_]])
    return out


def _prod(t):
    n = 1
    for d in t:
        n *= d
    return n


def cases(tier):
    terms = gen.corpus(tier, families=FAMS, depth=2, coarse=(True if tier == "thorough" else 2))
    return [["term", e] for e in terms] + [["cat"] + c for c in catalogue(tier)]


def describe(case):
    if case[0] == "term":
        return lang.code(lang.tuplify(case[1]))
    return " ".join(str(c) for c in case[1:])


# ---------------------------------------------------------------------------


def _const_value(e):
    """The constant value of e over its whole input space, or None if it is not constant (decided on the reference table)."""
    try:
        t, tbl = lang.table(e, 0)
    except Exception:
        return None
    vals = {None if v is None else tuple(__import__("numpy").asarray(v).reshape(-1).tolist()) for _, v in tbl}
    if len(vals) == 1:
        (v,) = vals
        if v is not None and len(set(v)) == 1:
            return v[0]
    return None


def _int_unit_operand(e):
    """An integer add/mul somewhere in e one of whose operands is constantly the op's unit (literal or computed):
    unit removal then keeps the other operand's declared size."""

    def go(x):
        if x[0] == "S":
            # substitution may turn an operand into the unit: look at the substituted body point-wise
            pass
        if x[0] == "B" and x[1] in ("add", "mul") and lang.ty(x).out[0] != "real":
            unit = 0 if x[1] == "add" else 1
            if any(_const_value(c) == unit for c in (x[2], x[3])):
                return True
        return any(go(c) for c in lang.children(x))

    if go(e):
        return True
    # substitutions of numbers into an integer add/mul operand
    for s_ in lang.subterms(e):
        if s_[0] == "S":
            for b in lang.subterms(s_[1]):
                if b[0] == "B" and b[1] in ("add", "mul") and lang.ty(b).out[0] != "real":
                    unit = 0 if b[1] == "add" else 1
                    for c in (b[2], b[3]):
                        if _const_value(("S", c, tuple((k, v) for k, v in s_[2] if k in lang.ty(c).inputs))) == unit:
                            return True
    return False


def _feat(e, what, mode):
    subs = lang.subterms(e)
    return {
        "head": lang.head(e),
        "operand_head": lang.head(e[3]) if e[0] == "U" else None,
        "what": what,
        "mode": mode,
        "contains_int_floordiv": any(s[0] == "B" and s[1] == "floordiv" and lang.ty(s).out[0] != "real" for s in subs),
        "contains_argreduce": any(s[0] == "U" and s[1] in lang.ARG_REDUCTIONS for s in subs),
        "int_unit_operand": _int_unit_operand(e),
    }


def check_term(e, seed):
    import funsor.interpretations as I
    from funsor import interpreter

    key = repr(e)
    t, tbl = lang.table(e, seed)
    n = 0
    counters = {}
    want_out = None
    # declared type of the lazy term: exact
    for mode in ("reflect", "lazy"):
        try:
            with getattr(I, mode):
                L = lang.build(e, seed)
        except Exception as ex:
            counters["decline:%s:%s" % (mode, type(ex).__name__)] = 1
            continue
        dom = observe._dom_of(L.output)
        if dom is None:
            continue
        if mode == "reflect" or not any(s[0] == "S" for s in lang.subterms(e)):
            # (under lazy, substitutions are performed: inputs may legitimately shrink; reflect is fully lazy)
            if set(L.inputs) != set(t.inputs):
                return _tviol(e, seed, key, mode, "lazy-inputs", "declared inputs %s, predicted %s" % (dict(L.inputs), t.inputs))
        for k, d in L.inputs.items():
            if k in t.inputs and observe._dom_of(d) != (t.inputs[k][0], tuple(t.inputs[k][1])):
                return _tviol(e, seed, key, mode, "lazy-input-domain", "input %s declared %s, predicted %s" % (k, d, t.inputs[k]))
        if dom != (t.out[0], tuple(t.out[1])):
            return _tviol(e, seed, key, mode, "lazy-output", "declared output %s, predicted %s" % (L.output, t.out))
        want_out = L.output
        n += 1
    if all(v is None for _, v in tbl):
        if n:
            return core.ok(key, True, "ok:declared-only", transitions=n, counters=counters)
        return core.skip(key, "reference-undefined-everywhere")
    for mode in ("eager", "normalize", "sequential"):
        try:
            if mode == "eager":
                r = lang.build(e, seed)
            elif mode == "sequential":
                with I.sequential:
                    r = lang.build(e, seed)
            else:
                with I.normalize:
                    L = lang.build(e, seed)
                r = interpreter.reinterpret(L)
        except Exception as ex:
            counters["decline:%s:%s" % (mode, type(ex).__name__)] = 1
            continue
        kind, msg = observe.compare(r, t, tbl, exact_dtype=True)
        if kind.startswith("violation"):
            what = kind.split(":", 1)[1]
            if what == "value":
                continue  # values are C01's business; C06 decides types, shapes and ranges
            return _tviol(e, seed, key, mode, what, msg)
        if want_out is not None and kind == "ok" and r.output != want_out:
            return _tviol(e, seed, key, mode, "output-differs-from-lazy", "evaluated output %s, lazy term declared %s" % (r.output, want_out))
        if kind == "ok":
            n += 1
    if n == 0:
        return core.decline(key, "nothing-completed", counters=counters)
    return core.ok(key, True, "ok:" + lang.head(e), transitions=n, counters=counters)


def _tviol(e, seed, key, mode, what, msg):
    return core.violation(key, "type:" + lang.head(e), "%s (%s): %s\n  %s" % (what, mode, msg, lang.code(e)), ["term", e], _feat(e, what, mode), lang.snippet(e, seed))


# ---------------------------------------------------------------------------
# catalogue


def _dom(shape, dtype="real"):
    from funsor.domains import Array

    return Array[dtype, tuple(shape)]


def _arr(shape, dtype="real", lid=5):
    import numpy as np

    if dtype == "real":
        return lang.generic_fill(lid, tuple(shape), 0)
    return (np.arange(_prod(shape) or 1).reshape(tuple(shape)) % dtype).astype(np.int64)


def _opobj(name):
    from funsor import ops

    return {"and": ops.and_, "or": ops.or_}.get(name) or getattr(ops, name)


def _catviol(key, case, site, msg, feats=None):
    return core.violation(key, site, msg, case, dict(feats or {}, family=case[1]), "# find_domain vs actual: %s" % (case,))


_KEEP_OPS = []


def check_cat(case, seed):
    import numpy as np
    from funsor import ops
    from funsor.domains import find_domain, Array

    key = repr(case)
    fam = case[1]
    try:
        if fam == "unary":
            _, _, op, shape, dtype = case
            o = _opobj(op)
            x = _arr(shape, dtype) * (0.5 if op == "atanh" and dtype == "real" else 1)
            x = x - 0.6 if op == "atanh" else x
            actual = np.asarray(o(x))
            dom = find_domain(o, _dom(shape, dtype))
            site = "find_domain:" + op
            exp_dtype = None
        elif fam == "reduction":
            _, _, op, shape, ax, kd = case
            cls = {"sum": ops.SumOp, "prod": ops.ProdOp, "max": ops.AmaxOp, "min": ops.AminOp, "logsumexp": ops.LogsumexpOp,
                   "mean": ops.MeanOp, "std": ops.StdOp, "var": ops.VarOp, "all": ops.AllOp, "any": ops.AnyOp}[op]
            axis = tuple(ax) if isinstance(ax, list) else ax
            dtype = 2 if op in ("all", "any") else "real"
            o = cls(axis, 0, kd) if op in ("std", "var") else cls(axis, kd)
            x = _arr(shape, dtype)
            actual = np.asarray(o(x))
            dom = find_domain(o, _dom(shape, dtype))
            site = "find_domain:reduction"
        elif fam == "reshape":
            _, _, shape, target = case
            o = ops.ReshapeOp(tuple(target))
            actual = np.asarray(o(_arr(shape)))
            dom = find_domain(o, _dom(shape))
            site = "find_domain:reshape"
        elif fam == "getitem":
            _, _, shape, off = case
            o = ops.GetitemOp(off)
            x = _arr(shape)
            actual = np.asarray(o(x, shape[off] - 1))
            dom = find_domain(o, _dom(shape), _dom((), shape[off]))
            site = "find_domain:getitem"
        elif fam == "getslice":
            _, _, shape, idx = case
            index = lang.decode_index(tuple(tuple(p) if isinstance(p, list) else p for p in idx))
            x = _arr(shape)
            try:
                actual = x[index]
            except IndexError:
                return core.skip(key, "numpy-rejects-index")
            if 0 in actual.shape:
                return core.skip(key, "empty-result")
            o = type(ops.getslice)(index)
            _KEEP_OPS.append(o)  # parametrised ops are interned weakly: keep them alive so that key collisions surface
            dom = find_domain(o, _dom(shape))
            actual2 = np.asarray(o(x))
            if actual2.shape != actual.shape:
                return _catviol(key, case, "op:getslice", "op returns shape %s, numpy %s" % (actual2.shape, actual.shape))
            site = "find_domain:getslice"
        elif fam == "binary":
            _, _, op, a, b = case
            o = _opobj(op)
            x, y = _arr(a, lid=5), _arr(b, lid=6)
            actual = np.asarray(o(x, y))
            dom = find_domain(o, _dom(a), _dom(b))
            site = "find_domain:" + op
        elif fam == "intrange":
            _, _, op, L, R = case
            o = _opobj(op)
            dom = find_domain(o, _dom((), L), _dom((), R))
            if dom.dtype == "real" or dom.shape != ():
                return _catviol(key, case, "find_domain:int:" + op, "integer operands typed %s" % (dom,), {"op": op})
            bad = []
            n = 0
            for a in range(L):
                for b in range(R):
                    if op in ("floordiv", "mod") and b == 0:
                        continue
                    if op == "sub" and a < b:
                        continue
                    if op == "pow" and a == 0 and b == 0:
                        pass
                    v = int(o(np.int64(a), np.int64(b)))
                    n += 1
                    if not 0 <= v < dom.dtype:
                        bad.append((a, b, v))
            if bad:
                return _catviol(key, case, "find_domain:int:" + op, "Bint[%d] %s Bint[%d] declared %s but values (a,b,result) %s occur" % (L, op, R, dom, bad[:4]), {"op": op, "what": "range"})
            if n == 0:
                return core.skip(key, "no-defined-operand-pair")
            return core.ok(key, True, "ok:intrange:" + op, transitions=n)
        elif fam in ("stack", "cat"):
            _, _, shps, dim = case
            xs = tuple(_arr(s, lid=5 + i) for i, s in enumerate(shps))
            o = ops.StackOp(dim) if fam == "stack" else ops.CatOp(dim)
            actual = np.asarray(o(xs))
            dom = find_domain(o, tuple(_dom(s) for s in shps))
            site = "find_domain:" + fam
        elif fam == "einsum":
            _, _, eq, shps = case
            xs = tuple(_arr(s, lid=5 + i) for i, s in enumerate(shps))
            o = ops.EinsumOp(eq)
            actual = np.asarray(o(xs))
            dom = find_domain(o, tuple(_dom(s) for s in shps))
            site = "find_domain:einsum"
        else:
            return core.skip(key, "unknown-family")
    except Exception as ex:
        # the op (or find_domain) rejects these operands: nothing to compare
        return core.decline(key, fam + ":" + type(ex).__name__)
    if tuple(dom.shape) != tuple(actual.shape):
        return _catviol(key, case, site, "find_domain says %s but the op returns shape %s" % (dom, tuple(actual.shape)), {"what": "shape"})
    is_real = dom.dtype == "real"
    act_real = actual.dtype.kind == "f"
    if is_real != act_real and fam not in ("getitem",):
        if not (not is_real and actual.dtype.kind in "bi"):
            return _catviol(key, case, site, "find_domain says %s but the op returns dtype %s" % (dom, actual.dtype), {"what": "dtype"})
    if not is_real and actual.size and (actual.min() < 0 or actual.max() >= dom.dtype):
        return _catviol(key, case, site, "find_domain says %s but values in [%s,%s]" % (dom, actual.min(), actual.max()), {"what": "range"})
    return core.ok(key, True, "ok:" + fam, transitions=1)


def check(case, seed):
    if case[0] == "term":
        return check_term(lang.tuplify(case[1]), seed)
    return check_cat(case, seed)
