"""C20 -- terms and the arrays behind them are never mutated.

Immutability monitor over a mixed corpus, in ONE long-lived history per worker process: every leaf array the harness
creates and every funsor result it keeps is fingerprinted; after every program all fingerprints are re-checked (so a
write through a shared sub-term or a shared view is seen by later programs as well), and once more at the end of the
worker's history.  The same corpus is then run with every leaf array marked read-only, which turns an in-place write
into an immediate ValueError whose traceback names the writing line (the call site of a finding).
"""
import hashlib
import traceback

from .. import core, gen
from ..ref import lang

ID = "C20"
LEVEL_RULE = (
    "programs = L-terms (depth 2, coarse pool) x routes {eager, lazy+reinterpret, normalize+reinterpret, apply_optimizer, sequential} "
    "+ algorithm drivers (sampling, Gaussian algebra, adjoint, sum_product, Markov product, compile, conversions, einsum, align) "
    "over shared leaf arrays; every program is run twice (writable arrays with fingerprints; read-only arrays); "
    "non-trivial = the program completed on at least one route; distinct = program text"
)
ASSUMPTIONS = [
    "leaf arrays are shared between all programs of one worker (hash-consing then shares the Tensors as well)",
    "fingerprint = (shape, dtype, sha1(tobytes)) of arrays; (inputs items, output, fresh, bound, data fingerprints) of held funsors",
]
FAMS = ("unary", "binary", "reduce", "subs", "binders", "einsum")

# per-worker state (workers are long-lived)
ARRAYS = {}
ARRAYS_RO = {}
FPS = {}
HELD = []
MAX_HELD = 600
DRIVER_ARRAYS = {}


def bounds(tier):
    return {"corpus_depth": 2, "routes": ["eager", "lazy", "normalize", "optimizer", "sequential"], "drivers": [d[0] for d in DRIVERS], "passes": ["fingerprint", "read-only"], "held_funsors_per_worker": MAX_HELD}


def cases(tier):
    terms = gen.corpus(tier, families=FAMS, depth=2, coarse=(True if tier == "thorough" else 2))
    if tier != "thorough":
        terms = terms[:22000:2] + terms[22000::4]
    out = [["term", e] for e in terms]
    reps = 3 if tier == "thorough" else 2
    for r in range(reps):
        for name, _ in DRIVERS:
            out.append(["driver", name, r])

    return out


def describe(case):
    if case[0] == "term":
        return lang.code(lang.tuplify(case[1]))
    return str(case)


def _fp(a):
    import numpy as np

    a = np.asarray(a)
    return (a.shape, str(a.dtype), hashlib.sha1(np.ascontiguousarray(a).tobytes()).hexdigest())


def _atom(v):
    if hasattr(v, "_ast_values"):
        return ("funsor", id(v))
    if hasattr(v, "shape") and hasattr(v, "dtype"):
        return ("array", id(v))
    return repr(v)[:120]


def _struct(f, names=None):
    """Contents of the term's mutable container attributes (dict / list / set), funsors and arrays by identity.
    ``names`` restricts to the attributes present when the first snapshot was taken (lazily cached ones may appear later)."""
    out = []
    try:
        items = sorted(vars(f).items())
    except TypeError:
        return ()
    for name, val in items:
        if names is not None and name not in names:
            continue
        if isinstance(val, dict):
            out.append((name, tuple((repr(k)[:80], _atom(v)) for k, v in val.items())))
        elif isinstance(val, list):
            out.append((name, tuple(_atom(v) for v in val)))
        elif isinstance(val, tuple) and val and all(isinstance(x, tuple) and len(x) == 2 for x in val):
            out.append((name, tuple((repr(k)[:80], _atom(v)) for k, v in val)))
    return tuple(out)


def _snap(f, names=None):
    data = []
    for name in ("data", "white_vec", "prec_sqrt"):
        d = getattr(f, name, None)
        if d is not None and hasattr(d, "shape"):
            data.append((name, _fp(d)))
    return (tuple((k, str(v)) for k, v in f.inputs.items()), str(f.output), tuple(sorted(f.fresh)), tuple(sorted(f.bound)), tuple(data), _struct(f, names))


def _register_arrays():
    for k, a in ARRAYS.items():
        if k not in FPS:
            FPS[k] = _fp(a)
    for k, a in DRIVER_ARRAYS.items():
        if ("d", k) not in FPS:
            FPS[("d", k)] = _fp(a)


def _verify():
    """Return a description of the first mutated array / funsor, or None."""
    for k, a in ARRAYS.items():
        if k in FPS and FPS[k] != _fp(a):
            return "leaf array of %s changed" % (k,)
    for k, a in DRIVER_ARRAYS.items():
        if ("d", k) in FPS and FPS[("d", k)] != _fp(a):
            return "driver array %s changed" % (k,)
    for f, snap, origin in HELD:
        now = _snap(f, [n for n, _ in snap[-1]])
        if now != snap:
            return "held funsor (result of %s) changed: %s -> %s" % (origin[:200], snap, now)
    return None


def _hold(f, origin):
    from funsor.terms import Funsor

    if isinstance(f, Funsor) and len(HELD) < MAX_HELD:
        HELD.append((f, _snap(f), origin))


def _routes(e, seed, arrays):
    import funsor.interpretations as I
    from funsor import interpreter
    from funsor.optimizer import apply_optimizer

    def eager():
        return lang.build(e, seed, arrays)

    def lazy():
        with I.lazy:
            x = lang.build(e, seed, arrays)
        # every lazily built node is a term the caller could hold: its fields must survive the evaluation of the whole
        nodes = _nodes(x)
        snaps = [(n, _snap_light(n)) for n in nodes]
        r = interpreter.reinterpret(x)
        for n, sn in snaps:
            now = _snap_light(n, [a for a, _ in sn[-1]])
            if now != sn:
                LAZY_MUTATED.append("lazily built sub-term %s changed while the program was evaluated: %s -> %s" % (type(n).__name__, sn, now))
                break
        return r

    def normalize():
        with I.normalize:
            x = lang.build(e, seed, arrays)
        return interpreter.reinterpret(x)

    def optimizer():
        with I.lazy:
            x = lang.build(e, seed, arrays)
        return apply_optimizer(x)

    def sequential():
        with I.sequential:
            return lang.build(e, seed, arrays)

    return (("eager", eager), ("lazy", lazy), ("normalize", normalize), ("optimizer", optimizer), ("sequential", sequential))


LAZY_MUTATED = []


def _nodes(x, limit=200):
    from funsor.terms import Funsor

    seen, out, stack = set(), [], [x]
    while stack and len(out) < limit:
        n = stack.pop()
        if isinstance(n, (tuple, frozenset)):
            stack.extend(n)
            continue
        if not isinstance(n, Funsor) or id(n) in seen:
            continue
        seen.add(id(n))
        out.append(n)
        stack.extend(n._ast_values)
    return out


def _snap_light(f, names=None):
    """Like _snap without hashing array contents (arrays are covered by the fingerprints of the leaf arrays)."""
    return (tuple((k, str(v)) for k, v in f.inputs.items()), str(f.output), tuple(sorted(f.fresh)), tuple(sorted(f.bound)), _struct(f, names))


def _is_readonly_error(ex):
    return isinstance(ex, ValueError) and "read-only" in str(ex)


def _site_from_tb(tb):
    frames = [f for f in traceback.extract_tb(tb) if "/funsor/" in f.filename]
    if not frames:
        return "unknown", ""
    f = frames[-1]
    return "%s:%s" % (f.filename.split("/funsor/", 1)[1], f.name), "%s:%d %s" % (f.filename, f.lineno, f.line)


_LEAF_HELD = set()


def _hold_leaves(e, seed):
    """Hold every leaf Tensor of the program BEFORE it runs (hash-consing returns the shared object)."""
    for s_ in lang.subterms(e):
        if s_[0] in ("T", "G") and s_ not in _LEAF_HELD:
            _LEAF_HELD.add(s_)
            try:
                t = lang.build(s_, seed, ARRAYS)
                HELD.append((t, _snap(t), "leaf " + lang.code(s_)[:80]))
            except Exception:
                pass


def check_term(e, seed):
    key = repr(e)
    done = 0
    _hold_leaves(e, seed)
    # pass 1: writable shared arrays + fingerprints
    for name, fn in _routes(e, seed, ARRAYS):
        try:
            r = fn()
        except Exception:
            r = None
        _register_arrays()
        bad = _verify()
        if not bad and LAZY_MUTATED:
            bad = LAZY_MUTATED[0]
        del LAZY_MUTATED[:]
        if bad:
            FPS.clear()
            HELD.clear()
            return core.violation(key, "mutation:" + lang.head(e), "after running (route %s)\n  %s\n%s" % (name, lang.code(e), bad), ["term", e], {"route": name, "what": "fingerprint"}, lang.snippet(e, seed))
        if r is not None:
            done += 1
            if name == "eager":
                _hold(r, lang.code(e))
    # pass 2: read-only leaves
    for name, fn in _routes(e, seed, ARRAYS_RO):
        for a in ARRAYS_RO.values():
            if a.flags.writeable:
                a.flags.writeable = False
        try:
            fn()
        except Exception as ex:
            if _is_readonly_error(ex):
                site, line = _site_from_tb(ex.__traceback__)
                return core.violation(key, "inplace-write:" + site, "in-place write into a user array (route %s) at %s\n  %s" % (name, line, lang.code(e)), ["term", e], {"route": name, "what": "read-only", "where": site}, lang.snippet(e, seed))
    if done == 0:
        return core.decline(key, "no-route-completed")
    return core.ok(key, True, "ok:" + lang.head(e), transitions=done)


# ---------------------------------------------------------------------------
# algorithm drivers over shared arrays


def _arr(name, shape, positive=True, rep=0):
    import numpy as np

    k = (name, tuple(shape), rep)
    if k not in DRIVER_ARRAYS:
        h = sum((i + 1) * ord(c) for i, c in enumerate(name)) % 97
        a = lang.generic_fill(300 + h + 7 * rep, tuple(shape), 0)
        DRIVER_ARRAYS[k] = a if positive else a - 1.0
    return DRIVER_ARRAYS[k]


def _d_sample(rep):
    import numpy as np
    from collections import OrderedDict
    from funsor.domains import Bint
    from funsor.tensor import Tensor

    np.random.seed(rep)
    # the log-weights array itself is a tracked user array (sampling must not normalise it in place)
    k = ("loglogits", (2, 3), rep)
    if k not in DRIVER_ARRAYS:
        DRIVER_ARRAYS[k] = np.log(lang.generic_fill(330 + rep, (2, 3), 0))
    t = Tensor(DRIVER_ARRAYS[k], OrderedDict(i=Bint[2], j=Bint[3]))
    k3 = ("loglogits3", (2, 3, 2), rep)
    if k3 not in DRIVER_ARRAYS:
        DRIVER_ARRAYS[k3] = np.log(lang.generic_fill(331 + rep, (2, 3, 2), 0))
    t3 = Tensor(DRIVER_ARRAYS[k3], OrderedDict(i=Bint[2], j=Bint[3], k=Bint[2]))
    out = [t.sample(frozenset({"i"})), t.sample(frozenset({"j"})), t.sample(frozenset({"i", "j"}), OrderedDict(n=Bint[2])), t.sample(frozenset({"j"}), OrderedDict(n=Bint[3])),
           t3.sample(frozenset({"k"})), t3.sample(frozenset({"i"})), t3.sample(frozenset({"j", "k"})), t3.sample(frozenset({"i", "k"}), OrderedDict(n=Bint[2]))]
    return [t, t3] + out


def _gauss(rep, names=("x", "y")):
    import numpy as np
    from collections import OrderedDict
    from funsor.domains import Bint, Real, Reals
    from funsor.gaussian import Gaussian

    wv = _arr("wv", (2, 3), positive=False, rep=rep)
    ps = _arr("ps", (2, 3, 3), rep=rep) + 2.0 * np.eye(3)
    DRIVER_ARRAYS.setdefault(("ps2", (2, 3, 3), rep), ps)
    ps = DRIVER_ARRAYS[("ps2", (2, 3, 3), rep)]
    inputs = OrderedDict(i=Bint[2])
    inputs[names[0]] = Real
    inputs[names[1]] = Reals[2]
    return Gaussian(white_vec=wv, prec_sqrt=ps, inputs=inputs)


def _d_gaussian(rep):
    import numpy as np
    from funsor import ops
    from funsor.tensor import Tensor

    g = _gauss(rep)
    out = [g, g + g, g(i=0), g(x=Tensor(np.array(0.5))), g.reduce(ops.logaddexp, "x"), g.reduce(ops.logaddexp, frozenset({"x", "y"})),
           g.reduce(ops.logaddexp, "i") if False else g.reduce(ops.add, "i"), g(y=Tensor(_arr("yval", (2,), rep=rep))), g.align(("y", "i", "x"))]
    np.random.seed(rep)
    out.append(g.sample(frozenset({"x"})))
    out.append((g + Tensor(_arr("mix", (2,), rep=rep), g.inputs.__class__(i=g.inputs["i"]))).reduce(ops.logaddexp, "i"))
    return out


def _d_adjoint(rep):
    from collections import OrderedDict
    import funsor
    from funsor import ops
    from funsor.adjoint import adjoint
    from funsor.domains import Bint
    from funsor.tensor import Tensor

    a = Tensor(_arr("adj_a", (2, 3), rep=rep), OrderedDict(i=Bint[2], j=Bint[3]))
    b = Tensor(_arr("adj_b", (3, 2), rep=rep), OrderedDict(j=Bint[3], k=Bint[2]))
    c = Tensor(_arr("adj_c", (2,), rep=rep), OrderedDict(k=Bint[2]))
    with funsor.interpretations.lazy:
        expr = (a * b * c).reduce(ops.add, frozenset({"i", "j"}))
        expr2 = (a.log() + b.log()).reduce(ops.logaddexp, "j")
    r1 = adjoint(ops.add, ops.mul, expr)
    r2 = adjoint(ops.logaddexp, ops.add, expr2)
    return [a, b, c] + list(r1.values()) + list(r2.values())


def _d_sum_product(rep):
    from collections import OrderedDict
    from funsor import ops
    from funsor.domains import Bint
    from funsor.sum_product import sequential_sum_product, sum_product
    from funsor.tensor import Tensor
    from funsor.terms import Variable

    f1 = Tensor(_arr("sp1", (2, 3), rep=rep), OrderedDict(a=Bint[2], p=Bint[3]))
    f2 = Tensor(_arr("sp2", (2, 2, 3), rep=rep), OrderedDict(a=Bint[2], b=Bint[2], p=Bint[3]))
    f3 = Tensor(_arr("sp3", (2,), rep=rep), OrderedDict(b=Bint[2]))
    r = sum_product(ops.add, ops.mul, [f1, f2, f3], frozenset({"a", "b", "p"}), frozenset({"p"}))
    trans = Tensor(_arr("trans", (5, 2, 2), rep=rep), OrderedDict(t=Bint[5], x_prev=Bint[2], x_curr=Bint[2]))
    m = sequential_sum_product(ops.add, ops.mul, trans, Variable("t", Bint[5]), {"x_prev": "x_curr"})
    m2 = sequential_sum_product(ops.logaddexp, ops.add, trans.log(), Variable("t", Bint[5]), {"x_prev": "x_curr"})
    return [f1, f2, f3, r, trans, m, m2]


def _d_compile(rep):
    import numpy as np
    import funsor
    from funsor.compiler import compile_funsor
    from funsor.domains import Real, Reals
    from funsor.terms import Variable
    from funsor.tensor import Tensor

    c = Tensor(_arr("cconst", (2,), rep=rep))
    with funsor.interpretations.lazy:
        x, y = Variable("x", Reals[2]), Variable("y", Real)
        expr = (x * c + y).exp().sum() - y
    p = compile_funsor(expr)
    xv, yv = _arr("cx", (2,), rep=rep), _arr("cy", (), rep=rep)
    r = p(x=xv, y=yv)
    return [c, Tensor(np.asarray(r))]


def _d_convert(rep):
    from collections import OrderedDict
    import funsor
    from funsor.domains import Bint, Reals

    x = _arr("conv", (2, 1, 3, 2), rep=rep)
    f = funsor.to_funsor(x, Reals[2], {-3: "a", -1: "b"})
    back = funsor.to_data(f, {"a": -2, "b": -1})
    g = f.align(("b", "a"))
    h = f(a="b", b="a")
    return [f, g, h, funsor.tensor.Tensor(back)]


def _d_einsum(rep):
    import numpy as np
    from collections import OrderedDict
    from funsor.domains import Bint
    from funsor.einsum import einsum
    from funsor.tensor import Tensor

    a = Tensor(_arr("es_a", (2, 3), rep=rep), OrderedDict(a=Bint[2], b=Bint[3]))
    b = Tensor(_arr("es_b", (3, 2), rep=rep), OrderedDict(b=Bint[3], c=Bint[2]))
    out = [a, b]
    for backend in ("numpy", "funsor.einsum.numpy_log", "funsor.einsum.numpy_map"):
        out.append(einsum("ab,bc->ac", a, b, backend=backend))
        out.append(einsum("ab,bc->", a, b, backend=backend))
    return out


def _d_cat_scatter(rep):
    from collections import OrderedDict
    import funsor
    from funsor import ops
    from funsor.domains import Bint
    from funsor.tensor import Tensor
    from funsor.terms import Cat, Lambda, Slice, Stack, Variable

    a = Tensor(_arr("cs_a", (2, 3), rep=rep), OrderedDict(i=Bint[2], j=Bint[3]))
    b = Tensor(_arr("cs_b", (4, 3), rep=rep), OrderedDict(i=Bint[4], j=Bint[3]))
    c = Cat("i", (a, b))
    s = c(i=Slice("s", 1, 6, 2, 6))
    st = Stack("k", (a, a * 2.0))
    lam = Lambda(Variable("j", Bint[3]), a)
    idx = Tensor(__import__("numpy").array([2, 0]), OrderedDict(i=Bint[2]), 3)
    return [a, b, c, s, st, lam, lam[idx], a(j=idx), ops.cat((lam, lam), -1), ops.stack((lam, lam), 0)]


def _d_array_ops(rep):
    """ops called directly on caller-held arrays (the ops that write must do so on a private copy)."""
    import numpy as np
    from funsor import ops
    from funsor.tensor import Tensor

    d = _arr("ops_destin", (4, 3), rep=rep)
    src = _arr("ops_source", (2, 3), rep=rep)
    idx = (np.array([3, 1]),)
    out = [ops.scatter(d, idx, src), ops.scatter_add(d, idx, src)]
    x = _arr("ops_x", (3, 2), rep=rep)
    y = _arr("ops_y", (3, 2), positive=False, rep=rep)
    for f in (ops.exp, ops.log, ops.sqrt, ops.sigmoid, ops.neg, ops.abs, ops.reciprocal, ops.log1p):
        out.append(f(x))
    for f in (ops.add, ops.sub, ops.mul, ops.truediv, ops.logaddexp, ops.max, ops.min, ops.safesub, ops.safediv, ops.pow):
        out.append(f(x, y if f is not ops.pow else x))
        out.append(f(x, 2.0))
        out.append(f(0.5, x))
    out += [ops.logsumexp(y, 0), ops.logsumexp(y, -1, True), ops.sum(x, 0), ops.amax(x, 1), ops.clamp(y, -0.5, 0.5), ops.permute(x, (1, 0)), ops.expand(x[:1], (3, 2)),
            ops.cat((x, y), 0), ops.stack((x, y), 0), ops.einsum((x, y), "ab,ab->a"), ops.cholesky(x.T @ x + np.eye(2)), ops.unsqueeze(x, 0), ops.transpose(x, 0, 1)]
    m = x.T @ x + np.eye(2)
    DRIVER_ARRAYS.setdefault(("ops_m", (2, 2), rep), m)
    m = DRIVER_ARRAYS[("ops_m", (2, 2), rep)]
    out += [ops.cholesky(m), ops.cholesky_inverse(ops.cholesky(m)), ops.triangular_solve(x.T[..., None][:, :2, 0][:2], ops.cholesky(m)), ops.logsumexp(m, None)]
    return [Tensor(np.asarray(o)) for o in out if hasattr(o, "shape")]


def _g_approximate(rep):
    """A lazily built Approximate whose guide has inputs the model lacks (operands snapshotted before construction)."""
    from collections import OrderedDict
    import funsor
    from funsor import ops
    from funsor.domains import Bint, Real
    from funsor.tensor import Tensor
    from funsor.terms import Approximate, Variable

    model = Tensor(_arr("apx_m", (2,), rep=rep), OrderedDict(i=Bint[2]))
    guide = Tensor(_arr("apx_g", (2, 3), rep=rep), OrderedDict(i=Bint[2], j=Bint[3]))
    with funsor.interpretations.lazy:
        lm = model.exp()  # a lazy unary shares its argument's inputs dict
        lg = guide.log()
    yield [model, guide, lm, lg]
    out = []
    for interp in (funsor.interpretations.lazy, funsor.interpretations.reflect, funsor.interpretations.normalize):
        with interp:
            out.append(Approximate(ops.logaddexp, lm, lg, frozenset({Variable("i", Bint[2])})))
            out.append(Approximate(ops.logaddexp, model, guide, frozenset({Variable("i", Bint[2])})))
    return out


def _g_gaussian_live_tensor(rep):
    """Real substitution into a Gaussian while the caller holds a Tensor over the Gaussian's own white_vec."""
    import numpy as np
    from collections import OrderedDict
    from funsor.domains import Bint, Real
    from funsor.gaussian import Gaussian
    from funsor.tensor import Tensor

    wv = _arr("glt_wv", (2, 3), positive=False, rep=rep)
    DRIVER_ARRAYS.setdefault(("glt_ps", (2, 3, 3), rep), _arr("glt_ps0", (2, 3, 3), rep=rep) + 2.0 * np.eye(3))
    ps = DRIVER_ARRAYS[("glt_ps", (2, 3, 3), rep)]
    g = Gaussian(wv, ps, OrderedDict(i=Bint[2], x=Real, y=Real, z=Real))
    live = Tensor(g.white_vec, OrderedDict(i=Bint[2]))
    live2 = Tensor(g.prec_sqrt, OrderedDict(i=Bint[2]))
    val = Tensor(_arr("glt_v", (2,), rep=rep), OrderedDict(i=Bint[2]))
    yield [g, live, live2, val]
    return [g(x=val), g(y=val, z=val), g(x=val)(y=val), g(i=1), g(x="y", y="x")]


def _g_lazy_align(rep):
    """align() of lazy terms to a different order: the operand's own inputs must keep their order."""
    from collections import OrderedDict
    import funsor
    from funsor.domains import Bint, Real
    from funsor.tensor import Tensor
    from funsor.terms import Variable

    t = Tensor(_arr("la_t", (2, 3, 2), rep=rep), OrderedDict(i=Bint[2], j=Bint[3], k=Bint[2]))
    with funsor.interpretations.lazy:
        u = t.exp()
        b = t * Variable("x", Real)
    yield [t, u, b]
    out = []
    for interp in (funsor.interpretations.lazy, funsor.interpretations.reflect, funsor.interpretations.eager):
        with interp:
            out += [u.align(("k", "j", "i")), b.align(("x", "k", "i", "j")), u.align(("j",)), t.align(("k", "i", "j"))]
    return out


def _g_tensor_methods(rep):
    """Public Tensor methods called directly on a tensor whose array (with infinities) the caller holds."""
    import numpy as np
    from collections import OrderedDict
    from funsor.domains import Bint
    from funsor.tensor import Tensor

    k = ("tm_inf", (2, 3), rep)
    if k not in DRIVER_ARRAYS:
        a = _arr("tm_base", (2, 3), positive=False, rep=rep).copy()
        a[0, 1], a[1, 2], a[1, 0] = np.inf, -np.inf, 1e308
        DRIVER_ARRAYS[k] = a
    t = Tensor(DRIVER_ARRAYS[k], OrderedDict(i=Bint[2], j=Bint[3]))
    view = Tensor(DRIVER_ARRAYS[k][1], OrderedDict(j=Bint[3]))  # shares memory with t
    yield [t, view]
    out = [t.clamp_finite(), view.clamp_finite(), t.align(("j", "i")), t.abs(), t.exp(), -t, t.reduce(__import__("funsor").ops.max, "j"),
           t(i=1), t(j="i2"), t.clamp_finite().clamp_finite()]
    return out


def _g_lazy_subs_twice(rep):
    """Several substitutions into ONE held lazily built Subs term (its .subs / fields must not be rewritten)."""
    from collections import OrderedDict
    import funsor
    from funsor.domains import Bint, Real
    from funsor.tensor import Tensor
    from funsor.terms import Variable

    x = Tensor(_arr("ls_x", (3, 2), rep=rep), OrderedDict(i=Bint[3], k=Bint[2]))
    idx = Tensor(__import__("numpy").array([2, 0, 1]), OrderedDict(m=Bint[3]), 3)
    with funsor.interpretations.reflect:
        y = x(i=Variable("j", Bint[3]))
        z = (x * Variable("w", Real))(i=Variable("j", Bint[3]), w=Variable("v", Real))
        u = x(i=idx)
    yield [x, y, z, u]
    out = [y(j=2), y(j=1), y(j="n"), y(j=idx), y(j=0, k=1), z(j=1), z(v=Tensor(_arr("ls_v", (), rep=rep))), z(j=2, v=Variable("w", Real)), u(m=1), u(m="j"), u(k=0)]
    with funsor.interpretations.lazy:
        out += [y(j=2), z(j=1)]
    return out


GEN_DRIVERS = {"approximate-lazy": _g_approximate, "gaussian-live-tensor": _g_gaussian_live_tensor, "lazy-align": _g_lazy_align}


def _run_gen(fn, rep):
    """Run a generator-style driver: hold (snapshot) the yielded operands first, then run the operations."""
    g = fn(rep)
    operands = next(g)
    for o in operands:
        HELD.append((o, _snap(o), "operand of " + fn.__name__))  # always held (not subject to MAX_HELD)
    try:
        next(g)
    except StopIteration as stop:
        return list(operands) + list(stop.value or [])
    return list(operands)


DRIVERS = [
    ("approximate-lazy", lambda rep: _run_gen(_g_approximate, rep)),
    ("gaussian-live-tensor", lambda rep: _run_gen(_g_gaussian_live_tensor, rep)),
    ("lazy-align", lambda rep: _run_gen(_g_lazy_align, rep)),
    ("tensor-methods", lambda rep: _run_gen(_g_tensor_methods, rep)),
    ("lazy-subs-twice", lambda rep: _run_gen(_g_lazy_subs_twice, rep)),
    ("sample", _d_sample),
    ("array_ops", _d_array_ops),
    ("gaussian", _d_gaussian),
    ("adjoint", _d_adjoint),
    ("sum_product", _d_sum_product),
    ("compile", _d_compile),
    ("convert", _d_convert),
    ("einsum", _d_einsum),
    ("cat_scatter", _d_cat_scatter),
]


def check_driver(name, rep):
    key = "driver:%s:%d" % (name, rep)
    fn = dict(DRIVERS)[name]
    # pass 1: fingerprints
    try:
        results = fn(rep)
    except Exception as ex:
        results = None
        err = type(ex).__name__ + ": " + str(ex)[:200]
    _register_arrays()
    bad = _verify()
    if bad:
        FPS.clear()
        HELD.clear()
        return core.violation(key, "mutation:driver:" + name, "after driver %s: %s" % (name, bad), ["driver", name, rep], {"driver": name, "what": "fingerprint"})
    if results is None:
        return core.decline(key, "driver-raised:" + err.split(":")[0])
    for r in results:
        _hold(r, "driver " + name)
    # pass 2: read-only
    saved = {k: a.flags.writeable for k, a in DRIVER_ARRAYS.items()}
    try:
        for a in DRIVER_ARRAYS.values():
            a.flags.writeable = False
        try:
            fn(rep)
        except Exception as ex:
            if _is_readonly_error(ex):
                site, line = _site_from_tb(ex.__traceback__)
                return core.violation(key, "inplace-write:" + site, "in-place write into a user array in driver %s at %s" % (name, line), ["driver", name, rep], {"driver": name, "what": "read-only", "where": site})
    finally:
        for k, a in DRIVER_ARRAYS.items():
            a.flags.writeable = saved.get(k, True)
    return core.ok(key, True, "ok:driver:" + name, transitions=len(results))


def check(case, seed):
    if case[0] == "term":
        return check_term(lang.tuplify(case[1]), seed)
    if case[0] == "driver":
        return check_driver(case[1], case[2])
    # final re-check of everything this worker still holds
    bad = _verify()
    if bad:
        return core.violation("final", "mutation:final", "end-of-history re-check: " + bad, ["final"], {"what": "fingerprint"})
    return core.ok("final:%d" % id(FPS), False, "ok:final", transitions=len(FPS) + len(HELD))
