"""C05 -- bound variables are invisible: no capture, no leakage, renaming-invariant.

All nestings (depth <= 2 quick / 3 thorough) of binder-introducing constructors over a two-leaf body, crossed with ALL
assignments of names from a pool of three equally-sized names to every binder position and every free position
(every coincidence pattern between binders, binder and free variable, siblings, substituted values), evaluated under
eager and built under lazy / normalize / reflect then reinterpreted.  Oracles: (1) no bound / mangled name among the
inputs, (2) value table equals the reference denotation (in which binding is lexical by construction), (3) renaming
differential for binder kinds outside L (Integrate, Approximate, MarkovProduct, make_funsor Bound): the same term with
binders renamed apart has the same table.
"""
import itertools

from .. import core, gen, observe
from ..ref import lang

ID = "C05"
LEVEL_RULE = (
    "binder nestings (Reduce, Lambda, Cat part_name, Subs with variable / index-tensor / expression values, Independent) "
    "of depth <= 2 (quick) / 3 (thorough) over the body T[a,b] * T[n], plus sibling-binder and self-substitution "
    "templates, x all assignments of names {a,b,c} (all of size 2) to binder and free slots; non-trivial = some "
    "binder name coincides with another binder or free name in the assignment; distinct = term text"
)
ASSUMPTIONS = [
    "names containing '__BOUND' are excluded as the statement says",
    "reference denotation fv.ref.lang is lexically scoped by construction",
]

NAMES = ("a", "b", "c")
SZ = 2
MODES = ("eager", "lazy", "normalize", "reflect")


def _T(names, lid, shape=()):
    return ("T", tuple(names), (SZ,) * len(names), tuple(shape), "real", ("g", lid))


def _idx(name, lid):
    # an index tensor over `name` (a permutation so that capture changes the table)
    return ("T", (name,), (SZ,), (), SZ, ("c", (1, 0)))


BINDERS = ("R", "R2", "Lam", "CatIn", "CatNew", "Svar", "Sidx", "Sexp", "S2")
SLOTS = {"R": 1, "R2": 2, "Lam": 1, "CatIn": 1, "CatNew": 2, "Svar": 2, "Sidx": 2, "Sexp": 2, "S2": 4}


def apply_binder(kind, e, names):
    if kind == "R":
        return ("R", "add", e, ((names[0], SZ),))
    if kind == "R2":  # one binder with two bound names
        return ("R", "add", e, tuple((n, SZ) for n in names[:2]))
    if kind == "S2":  # one substitution binding two keys; values mention names[2], names[3]
        return ("S", e, ((names[0], ("V", names[2], SZ, ())), (names[1], _idx(names[3], 0))))
    if kind == "Lam":
        return ("Lam", names[0], SZ, e)
    if kind == "CatIn":  # part_name == name
        return ("Cat", names[0], (e, e), names[0])
    if kind == "CatNew":  # binds part_name names[0], introduces names[1]
        return ("Cat", names[1], (e, e), names[0])
    if kind == "Svar":  # binds key names[0]; the value mentions names[1]
        return ("S", e, ((names[0], ("V", names[1], SZ, ())),))
    if kind == "Sidx":
        return ("S", e, ((names[0], _idx(names[1], 0)),))
    if kind == "Sexp":  # (v + 1) % 2 over variable names[1]
        v = ("V", names[1], SZ, ())
        return ("S", e, ((names[0], ("B", "mod", ("B", "add", v, ("N", 1, 2)), ("N", 2, 3))),))
    raise ValueError(kind)


QUICK_CHAINS = [  # depth-3 chains run in the quick tier too: two binders that normalisation fuses, then a substitution
    ("R", "R", "Svar"), ("R", "R", "Sidx"), ("R", "R", "Sexp"), ("R", "Lam", "Sidx"), ("Lam", "R", "Sidx"), ("R", "CatIn", "Sidx"), ("R", "R", "Lam"),
]


def nest_cases(depth):
    out = []
    for d in range(1, 4):
        # depth 3 uses the single-name binders only (the multi-name ones are complete to depth 2)
        kinds_d = BINDERS if d <= 2 else tuple(k for k in BINDERS if k not in ("R2", "S2"))
        chains = itertools.product(kinds_d, repeat=d) if d <= depth else QUICK_CHAINS
        for kinds in chains:
            nslots = 1 + sum(SLOTS[k] for k in kinds)
            for assign in itertools.product(NAMES, repeat=nslots):
                body = ("B", "mul", _T(("a", "b"), 71), _T((assign[0],), 72))
                e = body
                pos = 1
                for k in kinds:  # innermost first
                    e = apply_binder(k, e, assign[pos : pos + SLOTS[k]])
                    pos += SLOTS[k]
                if lang.well_typed(e):
                    out.append(e)
    return out


def sibling_cases():
    out = []
    for k1, k2 in itertools.product(("R", "Lam", "Svar", "Sidx", "CatIn"), repeat=2):
        for assign in itertools.product(NAMES, repeat=SLOTS[k1] + SLOTS[k2] + 1):
            l = apply_binder(k1, _T(("a", "b"), 73), assign[: SLOTS[k1]])
            r = apply_binder(k2, _T(("a", assign[-1]), 74) if assign[-1] != "a" else _T(("a",), 75), assign[SLOTS[k1] : SLOTS[k1] + SLOTS[k2]])
            for op in ("add", "mul"):
                e = ("B", op, l, r)
                if lang.well_typed(e):
                    out.append(e)
            e = ("Stack", "c", (l, r))
            if lang.well_typed(e):
                out.append(e)
    return out


def self_subst_cases():
    """A lazy term with a bound name substituted into itself / into a sibling copy with the same binder name."""
    out = []
    for p, q in itertools.product(NAMES, repeat=2):
        y = ("V", "y", "real", ())
        f = ("R", "add", ("B", "mul", _T(("a", "b"), 76), y), ((p, SZ),))
        g = ("R", "add", ("B", "mul", _T((q, "c"), 77), y), ((q, SZ),))
        for inner in (f, g):
            e = ("S", f, (("y", inner),))
            if lang.well_typed(e):
                out.append(e)
        lam = ("Lam", p, SZ, ("B", "mul", _T(("a", "b"), 78), y))
        e = ("S", lam, (("y", ("U", "sum", (None, False), ("Lam", q, SZ, ("B", "mul", _T((q,), 79), y)))),))
        if lang.well_typed(e):
            out.append(e)
        ind = ("Ind", ("B", "mul", _T((p, "b") if p != "b" else (p,), 80), ("V", "d", "real", ())), "r", p, "d")
        if lang.well_typed(ind):
            out.append(ind)
            out.append(("R", "add", ("B", "add", ind, _T((q,), 81)), ((q, SZ),)))
        # the fresh output name spelled like one of the two names the term binds
        body = ("B", "mul", _T((p, "b") if p != "b" else (p,), 82), ("V", "d", "real", ()))
        for rv, bv, dv in (("d", p, "d"), (p, p, "d")):
            ind2 = ("Ind", body, rv, bv, dv)
            if lang.well_typed(ind2):
                out.append(ind2)
                out.append(("B", "add", ind2, _T((q,), 83)))
                t2 = lang.ty(ind2)
                out.append(("S", ind2, ((rv, ("V", "z9", t2.inputs[rv][0], t2.inputs[rv][1])),)))
    return [e for e in out if lang.well_typed(e)]


def cases(tier):
    depth = 3 if tier == "thorough" else 2
    out = [["L", e] for e in nest_cases(depth)]
    out += [["L", e] for e in sibling_cases()]
    out += [["L", e] for e in self_subst_cases()]
    seen = set()
    uniq = []
    for c in out:
        k = repr(c)
        if k not in seen:
            seen.add(k)
            uniq.append(c)
    for kind in ("integrate", "integrate-const-integrand", "integrate-delta2", "approximate", "markov", "markov-swap", "factory", "factory-bound-first"):
        for assign in itertools.product(NAMES, repeat=3):
            uniq.append(["X", kind, list(assign)])
    return uniq


def bounds(tier):
    return {"names": list(NAMES), "size": SZ, "binder_kinds": list(BINDERS) + ["Ind", "Integrate", "Approximate", "MarkovProduct", "make_funsor Bound"],
            "depth": 3 if tier == "thorough" else 2, "modes": list(MODES)}


def describe(case):
    if case[0] == "L":
        return lang.code(lang.tuplify(case[1]))
    return "%s %s" % (case[1], case[2])


def _coincidence(e):
    """Is some bound name used more than once as a name (binder/free/value) in the term text?"""
    bound = []

    def go(x):
        if x[0] == "R":
            bound.extend(n for n, _ in x[3])
        elif x[0] == "Lam":
            bound.append(x[1])
        elif x[0] == "Cat":
            bound.append(x[3])
        elif x[0] == "S":
            bound.extend(k for k, _ in x[2])
        elif x[0] == "Ind":
            bound.extend([x[3], x[4]])
        for c in lang.children(x):
            go(c)

    go(e)
    text = repr(e)
    return any(text.count("'%s'" % n) > 1 for n in bound)


def _build_eval(e, seed, mode):
    import funsor.interpretations as I
    from funsor import interpreter

    if mode == "eager":
        return lang.build(e, seed)
    with getattr(I, mode):
        L = lang.build(e, seed)
    for n in L.inputs:
        if "__BOUND" in n:
            raise LeakedBound(n)
    return interpreter.reinterpret(L)


class LeakedBound(Exception):
    pass


def check_L(e, seed):
    key = repr(e)
    t, tbl = lang.table(e, seed)
    if all(v is None for _, v in tbl):
        return core.skip(key, "reference-undefined-everywhere")
    n_ok = 0
    counters = {}
    for mode in MODES:
        try:
            r = _build_eval(e, seed, mode)
        except LeakedBound as ex:
            return _viol(e, seed, key, mode, "violation:extra-input", "lazy term has mangled bound name %s among its inputs" % ex)
        except Exception as ex:
            c = "decline:%s:%s" % (mode, type(ex).__name__)
            counters[c] = counters.get(c, 0) + 1
            continue
        kind, msg = observe.compare(r, t, tbl)
        if kind.startswith("violation"):
            return _viol(e, seed, key, mode, kind, msg)
        if kind == "ok":
            n_ok += 1
        else:
            c = "decline:%s:%s" % (mode, kind.split(":")[-1])
            counters[c] = counters.get(c, 0) + 1
    if n_ok == 0:
        return core.decline(key, "no-mode-completed", counters=counters)
    return core.ok(key, _coincidence(e), "ok:" + lang.head(e), transitions=n_ok, counters=counters)


def _viol(e, seed, key, mode, kind, msg):
    def binders(x, acc):
        if x[0] in ("R", "Lam", "Cat", "S", "Ind"):
            acc.append(lang.head(x) if x[0] != "S" else "S:" + x[2][0][1][0])
        for c in lang.children(x):
            binders(c, acc)
        return acc

    f = {"head": lang.head(e), "mode": mode, "what": kind.split(":", 1)[1], "binders": sorted(set(binders(e, [])))}
    return core.violation(key, "binder:" + lang.head(e), "%s in mode %s: %s\n  %s" % (kind, mode, msg, lang.code(e)), ["L", e], f, lang.snippet(e, seed))


# ---------------------------------------------------------------------------
# binder kinds outside L: renaming differential + no-leak


def _x_build(kind, names, seed):
    """Return a funsor built with user-chosen names `names` = (binder, free1, free2)."""
    import numpy as np
    from collections import OrderedDict
    import funsor
    from funsor import ops
    from funsor.domains import Bint, Real
    from funsor.tensor import Tensor
    from funsor.terms import Variable, Approximate

    from funsor.integrate import Integrate

    p, u, v = names
    A = lambda ns, lid: Tensor(lang.generic_fill(lid, (SZ,) * len(ns), seed), OrderedDict((n, Bint[SZ]) for n in ns))  # noqa
    if kind == "integrate":
        dims_m = tuple(dict.fromkeys((p, u)))
        dims_f = tuple(dict.fromkeys((p, v)))
        m = A(dims_m, 91).log()
        f = A(dims_f, 92)
        with funsor.interpretations.lazy:
            t = Integrate(m, f, frozenset({Variable(p, Bint[SZ])}))
        return t
    if kind == "integrate-const-integrand":  # only the measure mentions the integration variable
        dims_m = tuple(dict.fromkeys((p, u)))
        dims_f = tuple(n for n in dict.fromkeys((v,)) if n != p) or ("zz2",)
        m = A(dims_m, 97).log()
        f = A(dims_f, 98)
        with funsor.interpretations.lazy:
            t = Integrate(m, f, frozenset({Variable(p, Bint[SZ])}))
        return t
    if kind == "integrate-delta2":
        # the measure is a point mass over TWO names (p, u); only p is integrated, so u stays a free input of the result
        # whatever the integrand mentions (v may coincide with u or with p)
        from funsor.delta import Delta
        from funsor.terms import Number

        if p == u:
            raise ValueError("ill-typed")
        pt_p = Tensor(np.array(1), OrderedDict(), SZ)
        pt_u = Tensor(np.array(0), OrderedDict(), SZ)
        m = Delta(((p, (pt_p, Tensor(np.array(0.3)))), (u, (pt_u, Number(0.2)))))
        f = A(tuple(dict.fromkeys((p, v))), 101)
        with funsor.interpretations.lazy:
            t = Integrate(m, f, frozenset({Variable(p, Bint[SZ])}))
        return t
    if kind == "approximate":
        dims_m = tuple(dict.fromkeys((p, u)))
        dims_g = tuple(dict.fromkeys((p, v)))
        model, guide = A(dims_m, 93), A(dims_g, 94)
        with funsor.interpretations.lazy:
            t = Approximate(ops.logaddexp, model, guide, frozenset({Variable(p, Bint[SZ])}))
        return t
    if kind == "markov":
        from funsor.sum_product import MarkovProduct

        # time binder p; state pair (x_prev -> x_curr); free batch input u
        dims = tuple(dict.fromkeys((p, u))) + ("x_prev", "x_curr")
        if len(set(dims)) != len(dims):
            raise ValueError("ill-typed")
        trans = Tensor(lang.generic_fill(95, (SZ,) * len(dims), seed), OrderedDict((n, Bint[SZ]) for n in dims))
        with funsor.interpretations.lazy:
            t = MarkovProduct(ops.add, ops.mul, trans, Variable(p, Bint[SZ]), {"x_prev": "x_curr"})
        return t
    if kind == "markov-swap":
        from funsor.sum_product import MarkovProduct

        # a lazily built product whose visible state names are renamed simultaneously (swap / chain) in one call
        dims = tuple(dict.fromkeys((p, u))) + ("x_prev", "x_curr")
        if len(set(dims)) != len(dims):
            raise ValueError("ill-typed")
        trans = Tensor(lang.generic_fill(102, (SZ,) * len(dims), seed), OrderedDict((n, Bint[SZ]) for n in dims))
        with funsor.interpretations.lazy:
            t = MarkovProduct(ops.add, ops.mul, trans, Variable(p, Bint[SZ]), {"x_prev": "x_curr"})
            t = t(x_prev="x_curr", x_curr="x_prev") if v == u else t(x_prev="x_curr", x_curr=v if v not in (p, u) else "x_next")
        return t
    if kind == "factory":
        from funsor.factory import Bound, Fresh, Has, make_funsor
        from funsor.terms import Funsor

        @make_funsor
        def SumOut(x: Funsor, k: Bound) -> Fresh[lambda x: x]:
            return x.reduce(ops.add, k)

        dims = tuple(dict.fromkeys((p, u)))
        x = A(dims, 96) * Variable("w", Real)
        with funsor.interpretations.lazy:
            t = SumOut(x, p)
        return t
    if kind == "factory-bound-first":
        from funsor.factory import Bound, Fresh, make_funsor
        from funsor.terms import Funsor

        @make_funsor
        def SumOutB(k: Bound, x: Funsor, y: Funsor) -> Fresh[lambda x: x]:
            return (x * y).reduce(ops.add, k)

        x = A(tuple(dict.fromkeys((p, u))), 99) * Variable("w", Real)
        y = A(tuple(dict.fromkeys((p, v))), 100)
        with funsor.interpretations.lazy:
            t = SumOutB(p, x, y)
        return t
    raise ValueError(kind)


def _x_table(r, seed):
    """Ground a funsor on all assignments of its (size-2 integer / real) inputs."""
    import numpy as np

    doms = {n: (d.dtype, tuple(d.shape)) for n, d in r.inputs.items()}
    rows = []
    for rho in lang.points(doms, seed):
        rows.append((tuple(sorted((k, (v.tobytes() if hasattr(v, "tobytes") else v)) for k, v in rho.items())), observe.ground(r, rho)))
    return rows


def check_X(kind, names, seed):
    from funsor import interpreter

    key = "X:%s:%s" % (kind, ",".join(names))
    p, u, v = names
    fresh = "zz"
    try:
        t1 = _x_build(kind, (p, u, v), seed)
    except Exception as ex:
        return core.decline(key, "build:" + type(ex).__name__)
    # the same term with the binder renamed apart (when the binder name is not also a free name the user asked for,
    # renaming the binder is a no-op on the meaning)
    free_uses_p = False
    for n in t1.inputs:
        if "__BOUND" in n:
            return core.violation(key, "X:" + kind, "mangled bound name %s among inputs %s" % (n, list(t1.inputs)), ["X", kind, list(names)], {"kind": kind, "what": "extra-input"})
    if p in t1.inputs and not free_uses_p:
        return core.violation(key, "X:" + kind, "bound name %r appears among inputs %s" % (p, list(t1.inputs)), ["X", kind, list(names)], {"kind": kind, "what": "bound-name-leaked"})
    try:
        r1 = interpreter.reinterpret(t1)
        rows1 = _x_table(r1, seed)
        # renamed apart: binder -> fresh name, free names unchanged
        t2 = _x_build(kind, (fresh, u if u != p else fresh, v if v != p else fresh), seed)
        r2 = interpreter.reinterpret(t2)
        rows2 = _x_table(r2, seed)
    except (observe.Decline, Exception) as ex:
        return core.decline(key, "eval:" + type(ex).__name__)
    if kind == "integrate-delta2" and set(r1.inputs) != ({u, v} - {p}):
        return core.violation(key, "X:" + kind, "inputs %s, expected %s (the un-integrated name of the point mass stays free)" % (sorted(r1.inputs), sorted({u, v} - {p})), ["X", kind, list(names)], {"kind": kind, "what": "inputs-absolute"})
    if kind == "markov-swap" and len(r1.inputs) != len({u} - {p}) + 2:
        return core.violation(key, "X:" + kind, "inputs %s: a simultaneous renaming of the two state names must keep two state inputs" % sorted(r1.inputs), ["X", kind, list(names)], {"kind": kind, "what": "inputs-absolute"})
    if set(r1.inputs) != set(r2.inputs):
        return core.violation(key, "X:" + kind, "inputs differ after renaming the binder apart: %s vs %s" % (list(r1.inputs), list(r2.inputs)), ["X", kind, list(names)], {"kind": kind, "what": "inputs"})
    d1, d2 = dict(rows1), dict(rows2)
    for k in d1:
        if k not in d2 or not observe.values_equal(d1[k], d2[k], "real"):
            return core.violation(key, "X:" + kind, "value differs after renaming the binder apart at %s: %s vs %s" % (k, d1[k], d2.get(k)), ["X", kind, list(names)], {"kind": kind, "what": "value"})
    return core.ok(key, p in (u, v), "ok:X:" + kind, transitions=2)


def check(case, seed):
    if case[0] == "L":
        return check_L(lang.tuplify(case[1]), seed)
    return check_X(case[1], tuple(case[2]), seed)
