"""C16 -- pattern dispatch picks a most specific rule, deterministically.

Three families of cases, all exhaustive over a finite world read from the live library (fv/props/c16_world.py):

(a) ``sub`` / ``mem`` / ``subhist``: the parametric subtype relation ``deep_issubclass`` on the whole type pool
    (every type of every registered signature with its nested components, deep types of a pool of concrete
    values and of a recorded corpus of real interpretation calls, hand-made typing constructs): reflexivity,
    transitivity over ALL triples, agreement with the structural reference relation ``fv.ref.dispatch.sub``,
    agreement of ``issubclass`` on the ``typing_wrap`` forms (what multipledispatch calls) with the unwrapped
    relation, agreement of ``deep_isinstance`` with ``deep_issubclass(deep_type(v), .)`` and with the reference
    membership decided on the value itself, and independence of the lru cache fill order.
(b) ``spec``: for every dispatcher (every key of every rule registry, every op class) and every argument type
    tuple of its bounded enumeration, the function returned by ``PartialDispatcher.partial_call`` must belong to
    a registered signature that matches and has no other matching signature strictly below it.
(d) ``reg`` / ``alias`` (fv/props/c16_hist.py): histories of register / dispatch / cache-clear events on fresh
    dispatchers and keyed registries, each dispatch compared with the reference over the signatures registered so
    far and with a fresh object that never dispatched before; deep_type / deep_isinstance / dispatch on values
    that compare equal but differ in nested element types, in every first-use order.
(c) ``hist`` / ``perm`` / ``real``: the same answer after any other dispatch (every ordered pair, cold and warm
    cache), from a dispatcher rebuilt in permuted registration orders, and through the un-shimmed public entry
    points ``registry.dispatch(key, *args)`` / ``Op.dispatcher.partial_call(*args)`` on real argument values.
"""
import itertools
import json
from contextlib import contextmanager

import numpy as np

from .. import core
from ..ref import dispatch as ref
from . import c16_hist as H
from . import c16_world as W

ID = "C16"
LEVEL_RULE = (
    "cases: one per (row type of the pool) [sub], per concrete value [mem], per (dispatcher, argument type tuple) "
    "[spec], per (dispatcher, ordered pair of tuples) [hist], per (dispatcher, registration order) [perm], per "
    "(dispatcher, real argument tuple) [real]; tuples enumerated simplest first: each signature's own instantiation "
    "(union members and 0/1/2 variadic repeats expanded), recorded corpus tuples, then the position-wise product "
    "(complete when below the bound, otherwise all 1- then 2-position deviations from those tuples up to the bound); "
    "[reg] every history of register / dispatch / cache-clear events on a fresh PartialDispatcher or KeyedRegistry "
    "(chain, diamond, op-rule and two-key shapes) up to the depth bound, ending in a dispatch, non-trivial when a "
    "signature is registered after a dispatch; [alias] every ordered pair (and some triples) of equal-but-differently-"
    "typed nested values; "
    "non-trivial = at least two registered signatures match the tuple (spec/hist/perm/real), the row has a strict "
    "super- and a strict sub-type in the pool (sub), the value is a member of some but not all pool types (mem); "
    "distinct = distinct canonical text of (family, dispatcher, type tuple / order)"
)
ASSUMPTIONS = [
    "numpy backend; FUNSOR_DEBUG/PROFILE off; registries as populated by importing the modules listed in c16_world.MODULES",
    "synthesised argument type tuples are pushed through the real PartialDispatcher.partial_call by placeholder "
    "arguments whose deep type is prescribed (funsor.registry.deep_type is shimmed for the duration of a case and "
    "restored); real argument values go through the unmodified entry points in the 'real' family",
    "live dispatchers are never re-registered; their _cache is saved and restored around every case; permuted "
    "registration orders are replayed on fresh PartialDispatcher objects through PartialDispatcher.add",
    "reference relation fv.ref.dispatch (structural, unit-tested) is trusted; where it has no opinion "
    "(Any on the left of a Union containing Any, proper subclasses of tuple/frozenset against parametrised forms) "
    "the pair is skipped and counted",
    "object is read as Any (every funsor entry point normalises it); raw object on the right-hand side of "
    "deep_issubclass with a typing construct on the left raises TypeError in funsor: counted as a decline",
    "an empty tuple/frozenset has the bare deep type; funsor answering False where the vacuous reading says True "
    "(e.g. () against Tuple[int, ...]) is conservative and counted, not flagged",
    "tuples whose minimal matching signatures carry different functions (true ambiguity) are counted and excluded "
    "from the order-independence comparison, as the property only constrains the choice when a most specific pattern exists",
]

QUICK = {"tuple_bound": 4000, "hist_tuples": 24, "perm_transpositions": 1, "perm_tuple_bound": 600, "op_value_pool": 12}
THOROUGH = {"tuple_bound": 20000, "hist_tuples": 48, "perm_transpositions": 2, "perm_tuple_bound": 3000, "op_value_pool": 16}


def _cfg(tier):
    return THOROUGH if tier == "thorough" else QUICK


# ---------------------------------------------------------------------------
# placeholders, cache hygiene


class _Typed(object):
    """A placeholder argument whose deep type is prescribed."""

    __slots__ = ("tp",)

    def __init__(self, tp):
        self.tp = tp


@contextmanager
def typed_arguments():
    import funsor.registry as R

    orig = R.deep_type

    def shim(obj):
        if type(obj) is _Typed:
            return obj.tp
        return orig(obj)

    R.deep_type = shim
    try:
        yield
    finally:
        R.deep_type = orig


@contextmanager
def borrowed(d):
    """Use a live dispatcher but leave its cache exactly as found."""
    saved = dict(d._cache)
    try:
        yield d
    finally:
        d._cache.clear()
        d._cache.update(saved)


def pc(d, types):
    """The real partial_call on placeholder arguments; a missing implementation is reported as None."""
    try:
        return d.partial_call(*[_Typed(t) for t in types])
    except NotImplementedError:
        return None


# ---------------------------------------------------------------------------
# per-dispatcher derived data (cached per process)

_DCACHE = {}


def union_members(t):
    import typing

    if typing.get_origin(t) is typing.Union:
        return list(typing.get_args(t))
    return []


def _ttext(types):
    return "(" + ", ".join(ref.text(ref.describe(t)) for t in types) + ")"


SYNTH_VALUES = [
    "tuple0", "tuple_i", "tuple_TT", "tuple_TN", "tuple_DTG", "tuple_V", "subs_pairs", "fset0", "fset_i", "fset_vars",
    "fset_vars_mixed", "list", "int", "str", "Tensor_i", "Variable_real", "arr23", "odict",
]


def _op_values(n):
    from funsor.interpretations import lazy

    V = dict(W.world()["values"])
    labels = [
        "int", "float", "arr23", "np_float", "Tensor_i", "Number_f", "Variable_real", "tuple_TT", "tuple_ff", "list",
        "bool", "Gaussian", "arr_int", "np_int", "str", "tuple_iii",
    ][:n]
    extra = [("tuple_arr", (np.ones(2), np.zeros(2))), ("tuple_arr_scalar", (np.ones(2), 1.5))]
    return [(k, V[k]) for k in labels] + extra


def dinfo(dn, tier):
    """Signatures (registration order) with reference descriptions, the enumerated argument type tuples, the real
    argument tuples, for one dispatcher."""
    ck = (dn, tier)
    if ck in _DCACHE:
        return _DCACHE[ck]
    from funsor.typing import deep_type, get_origin

    cfg = _cfg(tier)
    w = W.world()
    info = w["dispatchers"][dn]
    d = info["d"]
    sigs = list(d.funcs.items())
    sref = [(W.sig_desc(s), fkey(f)) for s, f in sigs]
    arity = info.get("arity")

    seen = {}
    level0 = []

    def push(types, into):
        types = tuple(types)
        if arity is not None and len(types) != arity:
            return
        k = _ttext(types)
        if k not in seen:
            seen[k] = types
            into.append(types)

    # 1. each signature's own most specific instantiation
    for s, _ in sigs:
        fixed = [W.unwrap(e) for e in s if not W.is_variadic(e)]
        var = [W.unwrap(x) for x in s[-1].variadic_type] if s and W.is_variadic(s[-1]) else None
        tails = [()]
        if var is not None:
            tails = [()] + [(a,) for a in var] + [(a, b) for a in var for b in var]
            for a in list(var):
                for m in union_members(a):
                    tails.append((m,))
        for tail in tails:
            push(tuple(fixed) + tail, level0)
        for p, t in enumerate(fixed):
            for m in union_members(t):
                for tail in tails[:2]:
                    push(tuple(fixed[:p]) + (m,) + tuple(fixed[p + 1 :]) + tail, level0)
    n_sig_inst = len(level0)

    # 2. real argument tuples: recorded corpus (rules) / product of a value pool (ops)
    real = []
    if info["kind"] == "rule":
        for cls, args in w["corpus"]:
            if get_origin(cls) is info["key"]:
                real.append(args)
    elif info["kind"] == "synth":
        V = dict(w["values"])
        vals = [V[k] for k in SYNTH_VALUES]
        for args in itertools.product(vals, repeat=arity):
            real.append(args)
    else:
        vals = [v for _, v in _op_values(cfg["op_value_pool"])]
        for args in itertools.product(vals, repeat=arity):
            real.append(args)
    real_kept, real_seen = [], set()
    for args in real:
        try:
            types = tuple(deep_type(a) for a in args)
        except NotImplementedError:
            continue
        k = _ttext(types)
        if k in real_seen:
            continue
        real_seen.add(k)
        real_kept.append((k, args, types))
        push(types, level0)

    # 3. position-wise combinations
    positions = {}
    for types in level0:
        for p, t in enumerate(types):
            lst = positions.setdefault((len(types), p), [])
            if not any(t is x for x in lst):
                lst.append(t)
    lengths = sorted({len(t) for t in level0})
    total = sum(int(np.prod([len(positions[(n, p)]) for p in range(n)], dtype=object)) if n else 1 for n in lengths)
    tuples = list(level0)
    bound = cfg["tuple_bound"]
    complete = True
    if total <= bound:
        for n in lengths:
            for types in itertools.product(*[positions[(n, p)] for p in range(n)]):
                push(types, tuples)
        mode = "full-product"
    else:
        mode = "deviations"
        frontier = list(level0)
        for dev in (1, 2):
            nxt = []
            for types in frontier:
                n = len(types)
                for p in range(n):
                    for alt in positions[(n, p)]:
                        if alt is types[p]:
                            continue
                        if len(tuples) >= bound:
                            complete = False
                            break
                        before = len(tuples)
                        push(types[:p] + (alt,) + types[p + 1 :], tuples)
                        if len(tuples) > before:
                            nxt.append(tuples[-1])
                    if not complete:
                        break
                if not complete:
                    break
            if not complete:
                break
            mode = "deviations<=%d" % dev
            frontier = nxt
    out = {
        "d": d,
        "info": info,
        "sigs": sigs,
        "sref": sref,
        "fn_by_id": {fkey(f): f for _, f in sigs},
        "tuples": tuples,
        "texts": [_ttext(t) for t in tuples],
        "level0": len(level0),
        "n_sig_inst": n_sig_inst,
        "real": real_kept,
        "mode": mode,
        "product_size": total,
        "descs": {},
    }
    _DCACHE[ck] = out
    return out


def fkey(f):
    """Identity of a registered implementation: two WeakPartial wrappers of the same function for the same op class
    are the same implementation."""
    if type(f).__name__ == "WeakPartial" and hasattr(f, "weak_arg"):
        return ("wp", id(f.fn), id(f.weak_arg()))
    return id(f)


def same(f, g):
    return f is g or (f is not None and g is not None and fkey(f) == fkey(g))


def tdesc(di, idx):
    if idx not in di["descs"]:
        di["descs"][idx] = tuple(ref.describe(t) for t in di["tuples"][idx])
    return di["descs"][idx]


def decide(di, descs):
    """Reference decision for one argument type tuple (memoised per dispatcher: it is a pure function)."""
    memo = di.setdefault("decisions", {})
    if descs not in memo:
        matching, minimal = ref.decide(descs, di["sref"])
        memo[descs] = (matching, minimal, {di["sref"][i][1] for i in minimal})
    return memo[descs]


def hist_tuples(dn, tier):
    """A bounded set of tuples with as many different reference answers as possible, simplest first."""
    di = dinfo(dn, tier)
    n = _cfg(tier)["hist_tuples"]
    picked, by_answer = [], {}
    for idx in range(min(len(di["tuples"]), 400)):
        _, _, ok_ids = decide(di, tdesc(di, idx))
        key = tuple(sorted(map(str, ok_ids)))
        by_answer.setdefault(key, []).append(idx)
    # round-robin over the answers
    pools = list(by_answer.values())
    r = 0
    while len(picked) < n and any(pools):
        for p in pools:
            if r < len(p) and len(picked) < n:
                picked.append(p[r])
        r += 1
        if all(r >= len(p) for p in pools):
            break
    return sorted(picked)


def permutations_for(n, tier):
    ident = list(range(n))
    if n <= 5:
        return [list(p) for p in itertools.permutations(ident)]
    out = [ident, ident[::-1]]
    k = _cfg(tier)["perm_transpositions"]

    def swap(p, i):
        q = list(p)
        q[i], q[i + 1] = q[i + 1], q[i]
        return q

    ones = [swap(ident, i) for i in range(n - 1)]
    out += ones
    if k >= 2:
        seen = {tuple(p) for p in out}
        for i in range(n - 1):
            for j in range(i, n - 1):
                q = swap(swap(ident, i), j)
                if tuple(q) not in seen:
                    seen.add(tuple(q))
                    out.append(q)
    return out


# ---------------------------------------------------------------------------
# the subtype matrix

_MATRIX = None


def fsub(a, b):
    from funsor.typing import deep_issubclass

    try:
        return bool(deep_issubclass(a, b))
    except TypeError:
        return None


def wsub(a, b):
    from funsor.typing import typing_wrap

    try:
        return bool(issubclass(typing_wrap(a), typing_wrap(b)))
    except TypeError:
        return None


def matrix():
    global _MATRIX
    if _MATRIX is None:
        pool = W.world()["pool"]
        types = list(pool.values())
        n = len(types)
        T = np.zeros((n, n), dtype=bool)
        F = np.zeros((n, n), dtype=bool)
        for i, a in enumerate(types):
            for j, b in enumerate(types):
                r = fsub(a, b)
                if r is True:
                    T[i, j] = True
                elif r is False:
                    F[i, j] = True
        _MATRIX = {"T": T, "F": F, "texts": list(pool), "types": types, "descs": [ref.describe(t) for t in types]}
    return _MATRIX


def _kind(d):
    return d[0]


def pair_site(a, b):
    """Where in funsor/typing.py the answer for (a <= b) is produced."""
    if a[0] in ("union", "any"):
        return "deep_issubclass"
    if b[0] in ("tuple*", "tuple", "vtuple"):
        return "_subclasscheck_tuple"
    if b[0] in ("fset*", "fset"):
        return "_subclasscheck_frozenset"
    if b[0] == "union":
        return "_subclasscheck_union"
    if b[0] == "any":
        return "_subclasscheck_any"
    if b[0] == "gen":
        return "GenericTypeMeta.__subclasscheck__"
    return "deep_issubclass"


def _arg0(d):
    if d[0] in ("tuple", "union") and d[1]:
        return d[1][0][0]
    if d[0] in ("vtuple", "fset"):
        return d[1][0]
    if d[0] == "gen" and d[2]:
        return d[2][0][0]
    return None


def pair_features(a, b, what):
    f = {"what": what, "sub": a[0], "cls": b[0], "cls_arg0": _arg0(b), "sub_arg0": _arg0(a)}
    if a[0] == "tuple" and b[0] == "tuple":
        f["same_arity"] = len(a[1]) == len(b[1])
    return f


def _tcode(d):
    k = d[0]
    if k == "any":
        return "typing.Any"
    if k == "cls":
        if d[1] is W.TupleLike:
            return "TupleLike"
        return "_c(%r, %r)" % (d[1].__module__, d[1].__qualname__)
    if k == "union":
        return "typing.Union[" + ", ".join(_tcode(x) for x in d[1]) + "]"
    if k == "tuple*":
        return "tuple"
    if k == "tuple":
        return "typing.Tuple[" + ", ".join(_tcode(x) for x in d[1]) + "]"
    if k == "vtuple":
        return "typing.Tuple[" + _tcode(d[1]) + ", ...]"
    if k == "fset*":
        return "frozenset"
    if k == "fset":
        return "typing.FrozenSet[" + _tcode(d[1]) + "]"
    if k == "gen":
        base = "_c(%r, %r)" % (d[1].__module__, d[1].__qualname__)
        if d[2] is None:
            return base
        return base + "[" + ", ".join(_tcode(x) for x in d[2]) + "]"
    raise ValueError(d)


_SNIPPET_HEAD = """import abc, importlib, typing
import funsor
funsor.set_backend("numpy")
import funsor.optimizer, funsor.adjoint, funsor.approximations, funsor.montecarlo, funsor.precondition, funsor.elbo, funsor.adam
from funsor.typing import deep_issubclass, deep_isinstance, deep_type, typing_wrap

class TupleLike(abc.ABC):  # a user ABC that tuple is registered for
    pass

TupleLike.register(tuple)

def _c(module, qualname):
    if module == "funsor.ops" and not hasattr(importlib.import_module(module), qualname):
        module = "funsor.ops.op"
    obj = importlib.import_module(module)
    for part in qualname.split("."):
        obj = getattr(obj, part)
    return obj

"""


def sub_snippet(facts, wrapped=False):
    """facts: list of (a, b, expected) descriptions."""
    lines = [_SNIPPET_HEAD]
    lines.append("def show(label, thunk, expected):")
    lines.append("    try:")
    lines.append("        got = thunk()")
    lines.append("    except Exception as e:")
    lines.append("        got = 'raises %s: %s' % (type(e).__name__, e)")
    lines.append("    print(label, '=', got, '  expected', expected)")
    lines.append("")
    for n, (a, b, exp) in enumerate(facts):
        lines.append("A%d = %s" % (n, _tcode(a)))
        lines.append("B%d = %s" % (n, _tcode(b)))
        lines.append("show('deep_issubclass(A%d, B%d)', lambda: deep_issubclass(A%d, B%d), %r)" % (n, n, n, n, exp))
        if wrapped:
            lines.append(
                "show('issubclass(typing_wrap(A%d), typing_wrap(B%d))', lambda: issubclass(typing_wrap(A%d), typing_wrap(B%d)), %r)"
                % (n, n, n, n, exp)
            )
    return "\n".join(lines) + "\n"


# ---------------------------------------------------------------------------
# bounds / cases


def bounds(tier):
    cfg = dict(_cfg(tier))
    W.set_tier(tier)
    w = W.world()
    cfg.update(
        {
            "type_pool": len(w["pool"]),
            "type_pool_parts": w["pool_stats"],
            "values": len(w["values"]),
            "corpus_calls_recorded": len(w["corpus"]),
            "rule_registries": len(w["registries"]),
            "dispatchers": len(w["dispatchers"]),
            "registered_signatures": sum(len(i["d"].funcs) for i in w["dispatchers"].values()),
            "registration_histories": {
                "shapes": {k: {"signatures": len(v["adds"]), "argument_tuples": len(v["values"]), "entry_points": v["vias"]} for k, v in H.shapes().items()},
                "depth": H.DEPTH["thorough" if tier == "thorough" else "quick"],
                "events": "register(signature k) at most once each, dispatch(argument tuple j) through each entry point, "
                "Dispatcher._cache.clear(); every sequence up to the depth whose last event is a dispatch",
            },
            "equal_value_groups": {"groups": len(H.groups()), "members_per_group": 5, "orders": "all ordered pairs, first %d ordered triples" % (60 if tier == "thorough" else 6)},
            "permutations": "all when <= 5 signatures, else identity, reversal and every order within "
            "%d adjacent transposition(s) of the registration order" % cfg["perm_transpositions"],
        }
    )
    return cfg


def cases(tier):
    _TIER["t"] = tier
    W.set_tier(tier)
    w = W.world()
    out = [["subhist"]]
    for text in w["pool"]:
        out.append(["sub", text])
    for label, _ in w["values"]:
        out.append(["mem", label])
    cfg = _cfg(tier)
    for dn in w["dispatchers"]:
        di = dinfo(dn, tier)
        for idx in range(len(di["tuples"])):
            out.append(["spec", dn, idx, di["texts"][idx]])
    for dn in w["dispatchers"]:
        di = dinfo(dn, tier)
        for k, _, _ in di["real"]:
            out.append(["real", dn, k])
    for dn in w["dispatchers"]:
        h = hist_tuples(dn, tier)
        out.append(["warm", dn])
        for i in h:
            for j in h:
                if i != j:
                    out.append(["hist", dn, i, j])
    for dn in w["dispatchers"]:
        di = dinfo(dn, tier)
        for p in permutations_for(len(di["sigs"]), tier):
            out.append(["perm", dn, p])
    out.extend(H.alias_cases(tier))
    out.extend(H.reg_cases(tier))
    return out


def describe(case):
    return " ".join(str(x) for x in case)[:300]


# ---------------------------------------------------------------------------
# checks


def _pick(key, vios, case, transitions):
    """Among the violations found in one case, prefer one that no known finding covers."""
    findings = core.load_findings(ID)
    chosen = None
    for v in vios:
        if core.match_finding(findings, {"site": v["site"], "features": v["features"]}) is None:
            chosen = v
            break
    if chosen is None:
        chosen = vios[0]
    return core.violation(
        key, chosen["site"], chosen["message"], case, chosen["features"], chosen["snippet"], transitions=transitions
    )


def check_sub(case):
    m = matrix()
    text = case[1]
    key = "sub|" + text
    i = m["texts"].index(text)
    a, da = m["types"][i], m["descs"][i]
    T, F = m["T"], m["F"]
    n = len(m["types"])
    vios = []
    counters = {"pairs": 0, "declined_TypeError": 0, "ref_no_opinion": 0, "triples": 0, "wrapped_pairs": 0, "wrapped_conservative_nested_TypeError": 0, "python_abc_relation_not_transitive": 0}
    # reflexivity
    if not T[i, i]:
        vios.append(
            {
                "site": pair_site(da, da),
                "features": pair_features(da, da, "reflexivity"),
                "message": "reflexivity: deep_issubclass(%s, %s) is %s" % (text, text, fsub(a, a)),
                "snippet": sub_snippet([(da, da, True)]),
            }
        )
    for j in range(n):
        b, db = m["types"][j], m["descs"][j]
        counters["pairs"] += 1
        f = fsub(a, b)
        # the answer must not have changed since the matrix was filled (cache coherence)
        stored = True if T[i, j] else (False if F[i, j] else None)
        if f != stored:
            vios.append(
                {
                    "site": "deep_issubclass",
                    "features": {"what": "unstable-answer"},
                    "message": "deep_issubclass(%s, %s) answered %s then %s" % (text, m["texts"][j], stored, f),
                    "snippet": sub_snippet([(da, db, stored)]),
                }
            )
        r = ref.sub(da, db)
        if f is None:
            counters["declined_TypeError"] += 1
        elif r is None:
            counters["ref_no_opinion"] += 1
        elif f != r:
            vios.append(
                {
                    "site": pair_site(da, db),
                    "features": pair_features(da, db, "differs-from-structural-rule"),
                    "message": "deep_issubclass(%s, %s) = %s, structural rule says %s" % (text, m["texts"][j], f, r),
                    "snippet": sub_snippet([(da, db, r)]),
                }
            )
        wv = wsub(a, b)
        if wv is not None:
            counters["wrapped_pairs"] += 1
            if f is not None:
                if wv != f:
                    vios.append(
                        {
                            "site": "GenericTypeMeta.__subclasscheck__" if db[0] == "gen" else "typing_wrap.__subclasscheck__",
                            "features": pair_features(da, db, "wrapped-differs-from-unwrapped"),
                            "message": "issubclass(typing_wrap(%s), typing_wrap(%s)) = %s but deep_issubclass on the "
                            "unwrapped types = %s (structural rule %s)" % (text, m["texts"][j], wv, f, r),
                            "snippet": sub_snippet([(da, db, r)], wrapped=True),
                        }
                    )
            elif r is True and wv is False and db[0] != "cls" and da[0] in ("tuple", "vtuple", "fset"):
                # the TypeError came from a NESTED typing construct met by a plain class inside the pattern; the
                # wrapper then only knows the bare origin of the left type: a conservative False (rule not fired)
                counters["wrapped_conservative_nested_TypeError"] += 1
            elif r is not None and wv != r:
                # the unwrapped question raised TypeError; the wrapper retried with the origin of the left type
                eff = {"tuple": ("tuple*",), "vtuple": ("tuple*",), "fset": ("fset*",)}.get(da[0])
                if eff is not None and ref.sub(eff, db) is not None and ref.sub(eff, db) != wv:
                    site, feats = pair_site(eff, db), pair_features(eff, db, "wrapped-origin-fallback")
                else:
                    site = "deep_issubclass"
                    feats = {"what": "wrapped-origin-fallback", "sub": da[0], "cls": db[0], "cls_arg0": _arg0(db), "sub_arg0": _arg0(da)}
                vios.append(
                    {
                        "site": site,
                        "features": feats,
                        "message": "issubclass(typing_wrap(%s), typing_wrap(%s)) = %s (deep_issubclass on the unwrapped "
                        "types raises TypeError, the wrapper retries with the origin of the left type); structural rule "
                        "says %s" % (text, m["texts"][j], wv, r),
                        "snippet": sub_snippet([(da, db, r)], wrapped=True),
                    }
                )
    # transitivity: a <= b and b <= c  must not give  a <= c False
    js = np.nonzero(T[i])[0]
    counters["triples"] += int(T[js].sum()) if len(js) else 0
    if len(js):
        reach = T[js].any(axis=0)
        bad = np.nonzero(reach & F[i])[0]
        for k in bad:
            j = int(js[np.nonzero(T[js, k])[0][0]])
            db, dc = m["descs"][j], m["descs"][int(k)]
            # localise with the reference: which of the three facts is not the structural one
            facts = [(da, db, True), (db, dc, True), (da, dc, False)]
            culprit = None
            for (x, y, got) in facts:
                r = ref.sub(x, y)
                if r is not None and r != got:
                    culprit = (x, y, got, r)
                    break
            if culprit is None:
                # all three facts are the structural ones: the ground-truth class relation of Python's ABC hooks is
                # itself not transitive here (Sized <= Hashable, list <= Sized, list is not Hashable): not funsor's
                counters["python_abc_relation_not_transitive"] += 1
                continue
            x, y, got, r = culprit
            vios.append(
                {
                    "site": pair_site(x, y),
                    "features": pair_features(x, y, "transitivity"),
                    "message": "transitivity: %s <= %s and %s <= %s but not %s <= %s; the fact that departs from the "
                    "structural rule: deep_issubclass(%s, %s) = %s"
                    % (text, m["texts"][j], m["texts"][j], m["texts"][int(k)], text, m["texts"][int(k)], ref.text(x), ref.text(y), got),
                    "snippet": sub_snippet([(p, q, ref.sub(p, q)) for p, q in ((da, db), (db, dc), (da, dc))]),
                }
            )
    transitions = counters["pairs"] + counters["triples"]
    if vios:
        return _pick(key, vios, case, transitions)
    strict_sup = bool((T[i] & ~T[:, i]).any())
    strict_sub = bool((T[:, i] & ~T[i]).any())
    cls = "sub:%s:%s%s" % (da[0], "^" if strict_sup else "-", "v" if strict_sub else "-")
    return core.ok(key, strict_sup and strict_sub, cls, transitions, counters)


def _subterms(v, path="", depth=0):
    """v and every funsor nested in its arguments (through tuples), with a readable path."""
    vals = ref.ast_values(v)
    if vals is not None:
        yield path, v
        if depth < 12:
            for n, a in enumerate(vals):
                for x in _subterms(a, "%s.%d" % (path, n), depth + 1):
                    yield x
    elif isinstance(v, tuple):
        for n, a in enumerate(v):
            for x in _subterms(a, "%s.%d" % (path, n), depth + 1):
                yield x


def _precise_type_error(u):
    """The class of a term must be its origin class parametrised by the deep types of its ACTUAL arguments, and the
    term must be a member of that class as decided on the argument values."""
    from funsor.typing import deep_type, get_origin

    tu = type(u)
    try:
        expected = get_origin(tu)[tuple(map(deep_type, u._ast_values))]
    except NotImplementedError:
        return None
    if tu is not expected:
        return "type(t) = %s but its arguments have deep types %s" % (
            ref.text(ref.describe(tu))[:400],
            ref.text(ref.describe(expected))[:400],
        )
    if ref.member(u, ref.describe(tu)) is False:
        return "type(t) = %s does not contain t (decided on its argument values)" % ref.text(ref.describe(tu))[:400]
    return None


def check_mem(case):
    from funsor.typing import deep_isinstance, deep_type

    w = W.world()
    label = case[1]
    key = "mem|" + label
    v = dict(w["values"])[label]
    m = matrix()
    vios = []
    counters = {"memberships": 0, "conservative_imprecise_deep_type": 0, "ref_no_opinion": 0, "isinstance_fallback_TypeError": 0, "precise_types_recomputed": 0}
    try:
        tv = deep_type(v)
    except NotImplementedError:
        return core.decline(key, "deep_type:NotImplementedError(inhomogeneous frozenset)")
    for path, u in _subterms(v):
        counters["precise_types_recomputed"] += 1
        bad = _precise_type_error(u)
        if bad is not None:
            vios.append(
                {
                    "site": "reflect",
                    "features": {"what": "stale-precise-type", "cls": type(u).__mro__[1].__name__ if False else ref._cname(ref._origin_class(u))},
                    "message": "value %s%s: %s" % (label, path, bad),
                    "snippet": _SNIPPET_HEAD + "# value %s of fv/props/c16_world.py (sub-term %s)\n" % (label, path or "root"),
                }
            )
            break
    dtv = ref.describe(tv)
    own = ref.member(v, dtv)
    lib_own = deep_isinstance(v, tv)
    if lib_own is not True or own is False:
        vios.append(
            {
                "site": "deep_type",
                "features": {"what": "not-instance-of-own-type", "type": dtv[0]},
                "message": "value %s: deep_type = %s; deep_isinstance(v, deep_type(v)) = %s; membership decided on the "
                "value = %s" % (label, ref.text(dtv), lib_own, own),
                "snippet": _SNIPPET_HEAD + "# value %s of fv/props/c16_world.py\n" % label,
            }
        )
    n_true = 0
    for j, b in enumerate(m["types"]):
        db = m["descs"][j]
        counters["memberships"] += 1
        try:
            li = bool(deep_isinstance(v, b))
        except TypeError:
            counters["isinstance_fallback_TypeError"] += 1
            continue
        ls = fsub(tv, b)
        rm = ref.member(v, db)
        n_true += bool(li)
        if ls is not None and li != ls:
            vios.append(
                {
                    "site": "deep_isinstance",
                    "features": {"what": "isinstance-differs-from-issubclass-of-deep-type", "cls": db[0]},
                    "message": "value %s: deep_isinstance(v, %s) = %s but deep_issubclass(deep_type(v), .) = %s"
                    % (label, m["texts"][j], li, ls),
                    "snippet": sub_snippet([(dtv, db, li)]),
                }
            )
        if rm is None:
            counters["ref_no_opinion"] += 1
            continue
        if li != rm:
            if rm is True and li is False and ref.member(v, db, conservative=True) is not True:
                # an empty container / a frozenset of mixed classes is recorded less precisely than it is
                counters["conservative_imprecise_deep_type"] += 1
                continue
            vios.append(
                {
                    "site": pair_site(dtv, db),
                    "features": pair_features(dtv, db, "membership"),
                    "message": "value %s (deep type %s): deep_isinstance(v, %s) = %s but the value %s a member"
                    % (label, ref.text(dtv), m["texts"][j], li, "is" if rm else "is not"),
                    "snippet": sub_snippet([(dtv, db, rm)]),
                }
            )
    if vios:
        return _pick(key, vios, case, counters["memberships"])
    return core.ok(key, 0 < n_true < len(m["types"]), "mem:%s" % dtv[0], counters["memberships"], counters)


def check_subhist(case):
    """The relation does not depend on the order in which the lru cache was filled."""
    from funsor.typing import deep_issubclass

    m = matrix()
    types = m["types"]
    n = len(types)
    deep_issubclass.cache_clear()
    diffs = []
    for i in reversed(range(n)):
        for j in reversed(range(n)):
            f = fsub(types[i], types[j])
            stored = True if m["T"][i, j] else (False if m["F"][i, j] else None)
            if f != stored:
                diffs.append((i, j, stored, f))
    if diffs:
        i, j, stored, f = diffs[0]
        return core.violation(
            "subhist",
            "deep_issubclass",
            "answer depends on evaluation order: deep_issubclass(%s, %s) = %s in pool order, %s in reverse order after "
            "cache_clear (%d pairs differ)" % (m["texts"][i], m["texts"][j], stored, f, len(diffs)),
            case,
            {"what": "order-dependent-answer"},
            sub_snippet([(m["descs"][i], m["descs"][j], stored)]),
            transitions=n * n,
        )
    return core.ok("subhist", True, "subhist:stable", n * n, {"pairs_reevaluated": n * n})


def _names(di, ids):
    return sorted(W.fname(di["fn_by_id"][i]) for i in ids)


def dispatch_snippet(dn, di, types):
    info = di["info"]
    lines = [_SNIPPET_HEAD]
    if info["kind"] == "rule":
        rn = dn.split("|")[0]
        mod, attr = rn.rsplit(".", 1)
        lines.append("owner = getattr(importlib.import_module(%r), %r)" % (mod, attr))
        lines.append("registry = owner if hasattr(owner, 'registry') is False else owner.registry")
        lines.append("key = _c(%r, %r)" % (info["key"].__module__, info["key"].__qualname__))
        lines.append("d = registry[key]")
    elif info["kind"] == "synth":
        lines.append("from funsor.registry import PartialDispatcher")
        lines.append("def impl(name):")
        lines.append("    def f(*args): return name")
        lines.append("    f.__name__ = name")
        lines.append("    return f")
        lines.append("d = PartialDispatcher(impl('default'), 'synthetic')")
        for (sd, _), (_, fn) in zip(di["sref"], di["sigs"]):
            if sd[1] is None:
                lines.append("d.add((%s,), impl(%r))" % (", ".join(_tcode(x) for x in sd[0]), getattr(fn, "__name__", "f")))
    else:
        lines.append("d = _c(%r, %r).dispatcher" % (info["opcls"].__module__, info["opcls"].__qualname__))
    lines.append("types = [%s]" % ", ".join(_tcode(ref.describe(t)) for t in types))
    lines.append("f = d.dispatch(*map(typing_wrap, types))")
    lines.append("print('chosen:', getattr(f, '__name__', f), getattr(getattr(f, '__code__', None), 'co_firstlineno', ''))")
    lines.append("for sig, fn in d.funcs.items():")
    lines.append("    print('  registered', sig, getattr(fn, '__name__', fn))")
    return "\n".join(lines) + "\n"


def judge(dn, di, descs, f, what, types):
    """Compare one answer of a dispatcher with the reference decision.  Returns (violation dict | None, info)."""
    matching, minimal, ok_ids = decide(di, descs)
    ambiguous = len(ok_ids) > 1
    if not matching:
        if f is None:
            return None, (matching, minimal, ok_ids, ambiguous)
        reason = "no-signature-matches"
    elif f is None:
        reason = "nothing-chosen"
    elif fkey(f) in ok_ids:
        return None, (matching, minimal, ok_ids, ambiguous)
    elif fkey(f) in {di["sref"][i][1] for i in matching}:
        reason = "not-most-specific"
    elif fkey(f) in di["fn_by_id"]:
        reason = "chosen-signature-does-not-match"
    else:
        reason = "unregistered-function"
    tt = "(" + ", ".join(ref.text(x) for x in descs) + ")"
    v = {
        "site": "dispatch:" + dn,
        "features": {"what": what, "reason": reason, "dispatcher": dn, "kind": di["info"]["kind"]},
        "message": "%s %s: chose %s; matching signatures %s; most specific %s"
        % (
            dn,
            tt,
            W.fname(f),
            [W.sig_text(di["sref"][i][0]) for i in matching][:8],
            ["%s -> %s" % (W.sig_text(di["sref"][i][0]), W.fname(di["fn_by_id"][di["sref"][i][1]])) for i in minimal][:6],
        ),
        "snippet": dispatch_snippet(dn, di, types),
    }
    return v, (matching, minimal, ok_ids, ambiguous)


def check_spec(case, tier):
    from funsor.typing import typing_wrap

    dn, idx = case[1], case[2]
    di = dinfo(dn, tier)
    types = di["tuples"][idx]
    key = "spec|%s|%s" % (dn, di["texts"][idx])
    descs = tdesc(di, idx)
    d = di["d"]
    with borrowed(d), typed_arguments():
        d._cache.clear()
        f = pc(d, types)
        again = pc(d, types)  # served from the cache
        try:
            direct = d.dispatch(*map(typing_wrap, types))
        except NotImplementedError:
            direct = None
    v, (matching, minimal, ok_ids, ambiguous) = judge(dn, di, descs, f, "spec", types)
    if v is None and not (same(again, f) and same(direct, f)):
        v = {
            "site": "PartialDispatcher.partial_call",
            "features": {"what": "cache-or-direct-differs", "dispatcher": dn},
            "message": "%s %s: first call %s, cached call %s, Dispatcher.dispatch on the wrapped types %s"
            % (dn, di["texts"][idx], W.fname(f), W.fname(again), W.fname(direct)),
            "snippet": dispatch_snippet(dn, di, types),
        }
    if v is not None:
        return core.violation(key, v["site"], v["message"], case, v["features"], v["snippet"], transitions=len(di["sigs"]))
    counters = {"spec_ambiguous_no_unique_most_specific": int(ambiguous), "spec_no_match": int(not matching)}
    cls = "spec:%s:match%d:min%d" % (di["info"]["kind"], min(len(matching), 4), min(len(ok_ids), 3))
    return core.ok(key, len(matching) >= 2, cls, len(di["sigs"]), counters)


def _values_match(args, sd):
    fixed, var = sd
    if var is None:
        if len(args) != len(fixed):
            return False
    elif len(args) < len(fixed):
        return False
    for a, s in zip(args, fixed):
        if ref.member(a, s, conservative=True) is not True:
            return False
    for a in args[len(fixed):]:
        if not any(ref.member(a, alt, conservative=True) is True for alt in var):
            return False
    return True


def check_real(case, tier):
    """Un-shimmed public entry points on real argument values."""
    dn, k = case[1], case[2]
    di = dinfo(dn, tier)
    key = "real|%s|%s" % (dn, k)
    hit = [r for r in di["real"] if r[0] == k]
    if not hit:
        return core.skip(key, "real-tuple-not-reproduced")
    _, args, types = hit[0]
    info, d = di["info"], di["d"]
    descs = tuple(ref.describe(t) for t in types)
    with borrowed(d):
        d._cache.clear()
        try:
            if info["kind"] == "rule":
                f = info["registry"].dispatch(info["key"], *args)
                g = info["registry"].dispatch(info["key"], *args)
            else:
                f = d.partial_call(*args)
                g = d.partial_call(*args)
        except NotImplementedError:
            f = g = None
    v, (matching, minimal, ok_ids, ambiguous) = judge(dn, di, descs, f, "real", types)
    if v is None and not same(g, f):
        v = {
            "site": "PartialDispatcher.partial_call",
            "features": {"what": "cache-or-direct-differs", "dispatcher": dn},
            "message": "%s %s: first call %s, second (cached) call %s" % (dn, k, W.fname(f), W.fname(g)),
            "snippet": dispatch_snippet(dn, di, types),
        }
    # the decision re-made from the argument VALUES (conservative membership) instead of their recorded types
    if v is None:
        vmatching = [n for n, (sd, _) in enumerate(di["sref"]) if _values_match(args, sd)]
        vminimal = [
            a for a in vmatching
            if not any(b != a and ref.sig_leq(di["sref"][b][0], di["sref"][a][0]) and not ref.sig_leq(di["sref"][a][0], di["sref"][b][0]) for b in vmatching)
        ]
        vok = {di["sref"][n][1] for n in vminimal}
        if vmatching != matching:
            counters_extra = {"real_value_and_type_matching_differ": 1}
        else:
            counters_extra = {}
        if (f is None) != (not vmatching) or (f is not None and fkey(f) not in vok):
            v = {
                "site": "dispatch:" + dn,
                "features": {"what": "real", "reason": "not-the-rule-for-the-actual-arguments", "dispatcher": dn, "kind": info["kind"]},
                "message": "%s %s: chose %s; deciding on the argument values the most specific matching signatures are %s"
                % (dn, k[:300], W.fname(f), ["%s -> %s" % (W.sig_text(di["sref"][n][0]), W.fname(di["fn_by_id"][di["sref"][n][1]])) for n in vminimal][:6]),
                "snippet": dispatch_snippet(dn, di, types),
            }
    else:
        counters_extra = {}
    # membership of the real values in the chosen pattern, decided on the values themselves
    if v is None and f is not None:
        chosen_sigs = [di["sref"][i][0] for i in minimal if di["sref"][i][1] == fkey(f)]
        okm = False
        for fixed, var in chosen_sigs:
            rs = [ref.member(a, s) for a, s in zip(args, fixed)]
            rest = args[len(fixed) :]
            rs += [any(ref.member(a, alt) is not False for alt in (var or ())) for a in rest]
            if all(r is not False for r in rs):
                okm = True
        if not okm:
            v = {
                "site": "dispatch:" + dn,
                "features": {"what": "real", "reason": "argument-not-a-member-of-chosen-pattern", "dispatcher": dn, "kind": info["kind"]},
                "message": "%s %s: chose %s but an argument value is not a member of that pattern" % (dn, k, W.fname(f)),
                "snippet": dispatch_snippet(dn, di, types),
            }
    if v is not None:
        return core.violation(key, v["site"], v["message"], case, v["features"], v["snippet"], transitions=len(di["sigs"]))
    cls = "real:%s:match%d:min%d" % (info["kind"], min(len(matching), 4), min(len(ok_ids), 3))
    return core.ok(key, len(matching) >= 2, cls, len(di["sigs"]), dict(counters_extra, real_ambiguous=int(ambiguous)))


def check_hist(case, tier):
    dn, i, j = case[1], case[2], case[3]
    di = dinfo(dn, tier)
    d = di["d"]
    t1, t2 = di["tuples"][i], di["tuples"][j]
    key = "hist|%s|%s|%s" % (dn, di["texts"][i], di["texts"][j])
    with borrowed(d), typed_arguments():
        d._cache.clear()
        fresh1 = pc(d, t1)
        d._cache.clear()
        fresh2 = pc(d, t2)
        d._cache.clear()
        a1 = pc(d, t1)
        a2 = pc(d, t2)
        a1b = pc(d, t1)
    if not (same(a1, fresh1) and same(a2, fresh2) and same(a1b, fresh1)):
        return core.violation(
            key,
            "PartialDispatcher.partial_call",
            "%s: dispatching %s after %s gives %s, on a cleared cache %s (first: %s / fresh %s / repeated %s)"
            % (dn, di["texts"][j], di["texts"][i], W.fname(a2), W.fname(fresh2), W.fname(a1), W.fname(fresh1), W.fname(a1b)),
            case,
            {"what": "history-dependent", "dispatcher": dn, "same_length": len(t1) == len(t2), "same_first": bool(t1 and t2 and t1[0] is t2[0])},
            dispatch_snippet(dn, di, t2),
            transitions=5,
        )
    return core.ok(key, fresh1 is not fresh2, "hist:%s" % ("different" if fresh1 is not fresh2 else "same"), 5)


def check_warm(case, tier):
    """All tuples on one warm cache, forwards then backwards, against the cleared-cache answers."""
    dn = case[1]
    di = dinfo(dn, tier)
    d = di["d"]
    key = "warm|" + dn
    n = len(di["tuples"])
    with borrowed(d), typed_arguments():
        fresh = []
        for t in di["tuples"]:
            d._cache.clear()
            fresh.append(pc(d, t))
        d._cache.clear()
        fwd = [pc(d, t) for t in di["tuples"]]
        bwd = [pc(d, t) for t in reversed(di["tuples"])][::-1]
        d._cache.clear()
        bwd2 = [pc(d, t) for t in reversed(di["tuples"])][::-1]
    for idx in range(n):
        if not (same(fresh[idx], fwd[idx]) and same(fresh[idx], bwd[idx]) and same(fresh[idx], bwd2[idx])):
            return core.violation(
                key,
                "PartialDispatcher.partial_call",
                "%s %s: cleared cache %s, warm forwards %s, warm backwards %s, cold backwards %s"
                % (dn, di["texts"][idx], W.fname(fresh[idx]), W.fname(fwd[idx]), W.fname(bwd[idx]), W.fname(bwd2[idx])),
                case,
                {"what": "history-dependent", "dispatcher": dn, "same_length": True, "same_first": True},
                dispatch_snippet(dn, di, di["tuples"][idx]),
                transitions=4 * n,
            )
    return core.ok(key, len({id(f) for f in fresh}) > 1, "warm:%d-functions" % min(len({id(f) for f in fresh}), 9), 4 * n)


def check_perm(case, tier):
    from funsor.registry import PartialDispatcher

    dn, perm = case[1], list(case[2])
    di = dinfo(dn, tier)
    key = "perm|%s|%s" % (dn, ",".join(map(str, perm)))
    sigs = di["sigs"]
    nd = PartialDispatcher(None, di["d"].name)
    for p in perm:
        s, f = sigs[p]
        nd.add(s, f)
    if set(nd.funcs) != set(di["d"].funcs) or any(not same(nd.funcs[s], f) for s, f in sigs):
        return core.violation(
            key,
            "PartialDispatcher.add",
            "%s: re-registering the stored (signature, function) pairs does not reproduce the table (%d vs %d entries)"
            % (dn, len(nd.funcs), len(sigs)),
            case,
            {"what": "re-registration", "dispatcher": dn},
            "",
        )
    live = di["d"]
    nb = min(len(di["tuples"]), _cfg(tier)["perm_tuple_bound"])
    counters = {"perm_ambiguous_excluded": 0, "perm_ambiguous_order_dependent": 0, "perm_tuples": 0}
    nontrivial = False
    with borrowed(live), typed_arguments():
        for idx in range(nb):
            types = di["tuples"][idx]
            descs = tdesc(di, idx)
            f = pc(nd, types)
            v, (matching, minimal, ok_ids, ambiguous) = judge(dn, di, descs, f, "perm", types)
            counters["perm_tuples"] += 1
            if v is not None:
                v["features"]["identity_order"] = perm == sorted(perm)
                v["message"] = "registration order %s: %s" % (perm, v["message"])
                return core.violation(key, v["site"], v["message"], case, v["features"], v["snippet"], transitions=idx + 1)
            g = pc(live, types)
            if ambiguous:
                counters["perm_ambiguous_excluded"] += 1
                if not same(g, f):
                    counters["perm_ambiguous_order_dependent"] += 1
                continue
            if len(matching) >= 2:
                nontrivial = True
            if not same(g, f):
                return core.violation(
                    key,
                    "dispatch-order:" + dn,
                    "registration order %s: %s dispatches to %s, the repository's order to %s"
                    % (perm, di["texts"][idx], W.fname(f), W.fname(g)),
                    case,
                    {"what": "order-dependent", "dispatcher": dn},
                    dispatch_snippet(dn, di, types),
                    transitions=idx + 1,
                )
    return core.ok(key, nontrivial and perm != sorted(perm), "perm:ok", nb, counters)


_TIER = {"t": None}


def _tier_of(case):
    # the tier only changes the bounds of the enumeration; indices in a case refer to the tier that produced it.
    # cases(tier) records it before the workers are forked; replay(body) records it from the artefact.
    return _TIER["t"] or "quick"


def replay(body):
    _TIER["t"] = body.get("tier", "quick")
    W.set_tier(_TIER["t"])
    return check(body["case"], body.get("seed", 0))


def check(case, seed):
    fam = case[0]
    tier = _tier_of(case)
    if fam == "sub":
        return check_sub(case)
    if fam == "mem":
        return check_mem(case)
    if fam == "subhist":
        return check_subhist(case)
    if fam == "spec":
        di = dinfo(case[1], tier)
        if case[2] >= len(di["texts"]) or di["texts"][case[2]] != case[3]:
            # replay under another tier: find the tuple by text
            other = "thorough" if tier == "quick" else "quick"
            di2 = dinfo(case[1], other)
            if case[3] in di2["texts"]:
                return check_spec([case[0], case[1], di2["texts"].index(case[3]), case[3]], other)
            return core.skip(json.dumps(case), "tuple-not-in-enumeration")
        return check_spec(case, tier)
    if fam == "real":
        return check_real(case, tier)
    if fam == "hist":
        return check_hist(case, tier)
    if fam == "warm":
        return check_warm(case, tier)
    if fam == "perm":
        return check_perm(case, tier)
    if fam == "reg":
        import warnings

        with warnings.catch_warnings():
            warnings.simplefilter("ignore")  # multipledispatch announces the (intended) ambiguity of a half-built diamond
            return H.check_reg(case)
    if fam == "alias":
        return H.check_alias(case)
    return core.skip(json.dumps(case), "unknown-family")


def finalize(report, tier, seed):
    w = W.world()
    modes = {}
    groups = {}
    for dn in w["dispatchers"]:
        di = dinfo(dn, tier)
        modes[di["mode"]] = modes.get(di["mode"], 0) + 1
        for idx in range(len(di["tuples"])):
            matching, minimal, ok_ids = decide(di, tdesc(di, idx))
            if len(ok_ids) > 1:
                g = " || ".join(sorted("%s -> %s" % (W.sig_text(di["sref"][i][0]), W.fname(di["fn_by_id"][di["sref"][i][1]])) for i in minimal))
                groups.setdefault(dn, {}).setdefault(g, 0)
                groups[dn][g] += 1
    return {
        "tuple_enumeration_modes": modes,
        "tuples_total": sum(len(dinfo(dn, tier)["tuples"]) for dn in w["dispatchers"]),
        "registries": list(w["registries"]),
        "true_ambiguities_reported_not_flagged": {dn: [{"minimal_signatures": g, "tuples": n} for g, n in sorted(gs.items())][:6] for dn, gs in sorted(groups.items())},
    }
