"""C17 -- interpretation contexts nest and unwind like a stack.

Explorer E-hist (+ E-env for the position of an exception).  A state is the event history that reaches it;
``run(history)`` replays the history on the real library from the clean slate ``_STACK == [reflect, eager]`` using real
``with`` statements / real ``ContextDecorator`` calls (nesting is driven by recursion over the remaining events) and,
in lockstep, on the boring reference ``fv.ref.stack`` (a Python list).  After every event the real stack is compared
with the list.  Three phases:

  A  BFS over canonical states (= tuple of the interpretations on the stack), every event from every state;
  B  un-merged enumeration of all well-nested event sequences of a fixed length over a reduced alphabet, checked
     against the merged search over the same alphabet: the transition relation observed on *real* canonical forms
     must be a function (same canonical state + same event => same successor and same observation), both must
     reach the same canonical states and report the same verdicts;
  C  chains of partial interpretations long enough to trip PrioritizedInterpretation's overflow assertion inside
     ``__enter__`` (a failed entry must leave the stack exactly as it was), followed by every event.
"""
import multiprocessing as mp
import os
from collections import Counter, deque

from .. import core
from ..ref import stack as ref

ID = "C17"
LEVEL_RULE = (
    "phase A: breadth-first over canonical states (tuple of interpretation symbols on the stack above the base "
    "[reflect, eager]); from every state every enabled event (enter as with-block / as decorator defined at the base "
    "and called here, for each of 11 interpretations; exit; exception raised here and caught k blocks up for every k; "
    "probe; substitution raising inside substitute() and adjoint forward pass raising inside AdjointTape, each caught "
    "k blocks up for every k>=0) is executed by replaying representative-history+event from a clean slate; "
    "phase B: every well-nested event sequence of the stated length over the reduced alphabet, un-merged; "
    "phase C: overflow chains; phase D: one tape instance entered, left and entered again under another stack; phase E: a rule-less "
    "DispatchedInterpretation whose first rule is registered before/while/after it is active. A case is non-trivial when its last event changes the stack, probes under >=1 open "
    "block, or makes the library raise through its own temporary pushes; distinct = distinct event sequence"
)
ASSUMPTIONS = [
    "numpy backend; FUNSOR_DEBUG/PROFILE/TYPECHECK off; single thread",
    "memoize() and the symbol `tape` are created fresh per entry; the symbol `T0` is ONE AdjointTape instance per "
    "history that is re-entered sequentially (phases B and D); re-entering a tape object while it is still active "
    "is outside the alphabet (it overwrites its own saved outer interpretation); the user-defined partial "
    "interpretations A, B (DispatchedInterpretation) and C (a plain function wrapped in CallableInterpretation, "
    "returning None for what it declines) are single objects re-entered freely, also nested in themselves",
    "a decorator entry means: decorator object created and function decorated at the base state before the history "
    "starts, function called at the event's position",
    "the reference fv.ref.stack (list + documented composition of eager/lazy/normalize/sequential/moment_matching) "
    "is trusted; it is unit-tested in /verif/tests/test_c17.py",
    "probe classes: Tensor+Tensor and Tensor.reduce under eager/sequential/moment_matching (Tensor) and lazy/reflect "
    "(Binary/Reduce) are fixed by the reference; what normalize builds and what a sum of two free Variables becomes "
    "are rewrite-rule details outside C17 and are taken from a single `with K:` block (on the pinned tree they equal "
    "the reference table); under nesting the reference decides WHICH context answers",
    "an entry that raises although the reference predicts a push (or vice versa) is accepted provided the stack is "
    "exactly as the reference says afterwards: the overflow threshold itself is not part of the property",
    "canonicalisation by stack contents is tested, not assumed, by phase B",
]

REDUCED = ("lazy", "A", "memo", "T0")  # T0 while inactive, a fresh tape in its place while T0 is active
_CHAIN_BASES = (None, "lazy", "reflect", "normalize", "sequential", "moment_matching", "memo", "tape")
_CHAIN_PATTERNS = ("A", "B", "C", "AB", "tape-first", "tape-last")


def bounds(tier):
    thorough = tier == "thorough"
    return {
        "interpretations": list(ref.SYMBOLS),
        "bfs_depth": 5 if thorough else 4,
        "events": "with(I), deco(I), exit, raise(k) 1<=k<=depth, probe, subst(k) 0<=k<=depth, tapefwd(k) 0<=k<=depth",
        "unmerged_alphabet": list(REDUCED),
        "unmerged_length": 6 if thorough else 5,
        "unmerged_internal_k": [0],
        "tape_reentry": "one AdjointTape instance T0 per history: entered under every stack X of depth <= %d, left "
        "(normally / by exception), entered again (with / deco) under every stack Y of depth <= 2, then probe, "
        "subst, exit, probe; T0 is also a symbol of the un-merged alphabet (enabled while inactive; a fresh tape "
        "takes its place while T0 is active)" % (2 if thorough else 1),
        "late_registration_alphabet": list(late_alphabet(tier)),
        "late_registration_length": 6 if thorough else 5,
        "late_registration": "D = DispatchedInterpretation created per history without rules; all well-nested sequences "
        "of that length over with/deco of that alphabet, exit, raise(k), probe and reg (= D's first rule is registered "
        "here: before entry, while active, after exit); un-merged, every step compared with the list",
        "overflow_chain_bases": [b or "(default eager)" for b in _CHAIN_BASES],
        "overflow_chain_patterns": list(_CHAIN_PATTERNS),
        "overflow_followups": "every enabled event after the failed entry (failed entry as with and as decorator)"
        if thorough
        else "probe, exit, raise(k) for every k, second failed entry, enter eager (failed entry as with and as decorator)",
    }


# ---------------------------------------------------------------------------------------------------------------
# the real library, set up once per process


class G:
    ready = False


class _Fail(BaseException):
    """An oracle mismatch.  BaseException so that no ``except Exception`` of the driver or the library eats it."""

    def __init__(self, site, what, message, extra=None):
        super().__init__(message)
        self.site, self.what, self.message, self.extra = site, what, message, extra or {}


class _Boom(Exception):
    """The injected user exception."""


def _setup(seed=0):
    if G.ready:
        return
    from collections import OrderedDict

    import numpy as np

    import funsor
    import funsor.interpretations as fi
    from funsor import interpreter, ops
    from funsor.adjoint import AdjointTape, forward_backward
    from funsor.domains import Bint, Real
    from funsor.tensor import Tensor
    from funsor.terms import Funsor, Number, Subs, SubstituteInterpretation, Variable

    from ..ref import lang

    assert funsor.get_backend() == "numpy"
    G.interpreter = interpreter
    G.STACK = interpreter._STACK
    G.get_interpretation = interpreter.get_interpretation
    G.fi = fi
    G.ops = ops
    G.reflect, G.eager = fi.reflect, fi.eager
    G.Memoize, G.Prio, G.AdjointTape, G.SubstInterp = (
        fi.Memoize,
        fi.PrioritizedInterpretation,
        AdjointTape,
        SubstituteInterpretation,
    )
    G.forward_backward = forward_backward
    G.base_ok = len(G.STACK) == 2 and G.STACK[0] is fi.reflect and G.STACK[1] is fi.eager
    G.base_seen = [repr(s) for s in G.STACK]
    G.STACK[:] = [fi.reflect, fi.eager]

    class ProbeTerm(Funsor):
        """A term class only the user-defined interpretations have rules for."""

        def __init__(self, arg):
            super().__init__(arg.inputs, arg.output)
            self.arg = arg

    class Bomb(Funsor):
        """Renaming its variable works (alpha-conversion needs it); substituting a value raises."""

        def __init__(self, name):
            super().__init__(OrderedDict([(name, Real)]), Real, fresh=frozenset([name]))
            self.name = name

        def eager_subs(self, subs):
            if all(isinstance(v, Variable) for _, v in subs):
                return Bomb(dict(subs)[self.name].name)
            raise RuntimeError("boom")

    A = fi.DispatchedInterpretation("userA")
    B = fi.DispatchedInterpretation("userB")
    sent = Number(17.0)
    A.register(ProbeTerm, Funsor)(lambda arg: sent)
    B.register(ProbeTerm, Funsor)(lambda arg: None)
    sent_c = Number(23.0)
    G.SENT_D = Number(29.0)
    G.Funsor = Funsor

    def userC(cls, *args):
        """A function-style partial interpretation: answers the sentinel probe, declines everything else."""
        if cls is ProbeTerm:
            return sent_c
        return None

    C = fi.CallableInterpretation(userC)
    G.A, G.B, G.C, G.SENT, G.SENT_C, G.ProbeTerm, G.Bomb = A, B, C, sent, sent_c, ProbeTerm, Bomb
    G.OBJ = {
        "eager": fi.eager,
        "lazy": fi.lazy,
        "reflect": fi.reflect,
        "normalize": fi.normalize,
        "sequential": fi.sequential,
        "moment_matching": fi.moment_matching,
        "A": A,
        "B": B,
        "C": C,
    }
    named = dict(G.OBJ)
    named.update(
        eager_base=fi.eager_base,
        normalize_base=fi.normalize_base,
        lazy_base=fi.lazy_base,
        sequential_base=fi.sequential_base,
        moment_matching_base=fi.moment_matching_base,
    )
    G.NAMES = {id(o): n for n, o in named.items()}
    G._keep = named
    t1 = Tensor(lang.generic_fill(1, (3,), seed), OrderedDict(i=Bint[3]))
    t2 = Tensor(lang.generic_fill(2, (3,), seed), OrderedDict(i=Bint[3]))
    x, y = Variable("x", Real), Variable("y", Real)
    G.PROBE_FNS = (lambda: t1 + t2, lambda: t1.reduce(ops.add), lambda: x + y, lambda: ProbeTerm(t1))
    G.bomb = Bomb("z")
    G.one = Number(1.0)
    G.STACK.append(fi.reflect)
    try:
        G.lazy_sub = Subs(G.bomb, (("z", G.one),))
    finally:
        G.STACK[:] = [fi.reflect, fi.eager]
    # calibration of the entries of the class table that are not C17's business (see ref.calibrated)
    seen, sub, fwd = {}, {}, {}
    for k in ref.TOTALS:
        G.STACK.append(G.OBJ[k])
        try:
            seen[k] = dict(zip(ref.PROBES[:3], [_label(f) for f in G.PROBE_FNS[:3]]))
            for table, call in ((sub, _call_subst), (fwd, _call_tapefwd)):
                try:
                    call()
                    table[k] = False
                except Exception:
                    table[k] = True
        finally:
            G.STACK[:] = [fi.reflect, fi.eager]
    G.CAL, G.cal_bad = ref.calibrated(seen)
    G.CAL_SUBST, G.CAL_FWD = sub, fwd
    if not sub["eager"]:
        G.cal_bad.append(("eager", "subst", "raise", "return"))
    G.cal_diff = sum(G.CAL[k][p] != ref.CLASSES[k][p] for k in G.CAL for p in G.CAL[k]) + sum(
        t[k] != ref.SUBST_RAISES[k] for t in (sub, fwd) for k in t
    )
    G.ready = True


def _call_subst():
    return G.bomb(z=G.one)


def _call_tapefwd():
    return G.forward_backward(G.ops.add, G.ops.mul, G.lazy_sub)


def worker_init():
    _setup(core.seed_from_env())


def real_desc(obj, _depth=0):
    """Descriptor of a real interpretation object, in the vocabulary of fv.ref.stack."""
    n = G.NAMES.get(id(obj))
    if n is not None:
        return n
    n = getattr(obj, "_fv_name", None)  # the per-history rule-less DispatchedInterpretation
    if n is not None:
        return n
    if _depth > 40:
        return ("cyclic",)
    t = type(obj)
    if t is G.Prio:
        return ("prio", tuple(real_desc(s, _depth + 1) for s in obj.subinterpretations))
    if t is G.Memoize:
        return ("memo", real_desc(obj.base_interpretation, _depth + 1))
    if t is G.AdjointTape:
        return ("tape", real_desc(obj._old_interpretation, _depth + 1))
    if t is G.SubstInterp:
        return ("subs", real_desc(obj.base_interpretation, _depth + 1))
    return ("unknown", t.__name__, repr(obj))


def enc(d):
    """Compact text of a descriptor (injective on the descriptors that occur)."""
    if isinstance(d, str):
        return d
    if d[0] == "prio":
        return "P[" + ",".join(enc(x) for x in d[1]) + "]"
    if d[0] == "memo":
        return "M(" + enc(d[1]) + ")"
    if d[0] == "tape":
        return "T(" + enc(d[1]) + ")"
    return "?" + repr(d)


def real_canon():
    """Canonical form of the *real* stack, recomputed from the live objects."""
    return ";".join(enc(real_desc(s)) for s in G.STACK)


def _label(fn):
    try:
        r = fn()
    except Exception as ex:  # a probe that raises is an observation, compared like a class
        return "raised:" + type(ex).__name__
    if r is G.SENT:
        return "SENT"
    if r is G.SENT_C:
        return "SENTC"
    if r is G.SENT_D:
        return "SENTD"
    return type(r).__name__.split("[")[0]


def restore_base():
    S = G.STACK
    if G.interpreter._STACK is not S:
        G.interpreter._STACK = S
    if len(S) == 2 and S[0] is G.reflect and S[1] is G.eager:
        return False
    S[:] = [G.reflect, G.eager]
    return True


def _site(e):
    k = e[0]
    if k in ("with", "deco"):
        sk = ref.sym_kind(e[1])
        return {"memo": "memoize", "tape": "AdjointTape.__enter__"}.get(sk, "Interpretation.__enter__")
    return {
        "exit": "Interpretation.__exit__",
        "raise": "Interpretation.__exit__",
        "subst": "substitute",
        "tapefwd": "forward_backward",
        "probe": "interpret",
        "reg": "DispatchedInterpretation.register",
        "end": "base-stack",
        "setup": "base-stack",
    }[k]


class Exec:
    """One execution: the history run on the real library and on the reference list in lockstep."""

    def __init__(self, events, record=False):
        self.ev = events
        self.record = record
        self.model = ref.StackModel()
        self.handles = [G.reflect, G.eager]  # the real object expected at each stack position
        self.trace = []
        self.obs = []
        self.cur = (-1, ("setup",))
        self.pending = None
        self.mirrored = 0
        self.internal_raises = 0
        self.declined_entries = 0
        self.failure = None
        self.polluted = False
        self.frames = {}
        self.pre = {}
        self.final = None
        self.T0 = G.AdjointTape()  # the persistent tape instance of this history
        self.D = G.fi.DispatchedInterpretation("userD")  # created per history, no rules until a ("reg",) event
        self.D._fv_name = "D"
        self.d_reg = False

    # -- helpers ------------------------------------------------------------------------------------------------

    def fail(self, what, message, site=None, **extra):
        pos, e = self.cur
        raise _Fail(site or _site(e), what, "event #%d %s: %s" % (pos, list(e), message), extra)

    def make_cm(self, sym):
        if sym == "memo":
            return G.fi.memoize()
        if sym == "tape":
            return G.AdjointTape()
        if sym == ref.PERSISTENT_TAPE:
            assert not any(s is self.T0 for h in G.STACK for s in h.subinterpretations), "ill-formed: T0 is active"
            return self.T0
        return self.obj(sym)

    def obj(self, sym):
        return self.D if sym == ref.LATE else G.OBJ[sym]

    def prepare(self):
        # decorators are created, and the functions decorated, before the history starts (at the base state)
        for p, e in enumerate(self.ev):
            if e[0] == "deco":
                cm = self.make_cm(e[1])
                self.pre[p] = (cm, cm(self._rest(p)))

    def _rest(self, p):
        def rest():
            return self._inner(p)

        rest.__name__ = "rest_%d" % p
        return rest

    def complete(self, obs):
        self.obs.append(obs)
        if self.record:
            self.trace.append((real_canon(), obs))

    def check_stack(self, what="", site=None, **extra):
        S, h = G.STACK, self.handles
        extra["site"] = site
        if G.interpreter._STACK is not S:
            self.fail(what + "stack-rebound", "interpreter._STACK was rebound to another list", **extra)
        if len(S) != len(h):
            self.fail(
                what + "length",
                "len(_STACK) == %d but the reference stack has %d entries\n  real      %r\n  reference %r"
                % (len(S), len(h), list(S), [ref.name(d) for d in self.model.items]),
                **extra
            )
        for i in range(len(h)):
            if S[i] is not h[i]:
                self.fail(
                    what + "identity",
                    "_STACK[%d] is %r, not the object that was there when the enclosing block was entered (%r)"
                    % (i, S[i], h[i]),
                    **extra
                )
        if G.get_interpretation() is not h[-1]:
            self.fail(what + "get_interpretation", "get_interpretation() is not the top of the stack", **extra)
        self.mirrored += 1

    # -- events -------------------------------------------------------------------------------------------------

    def body(self, pos, level):
        """Run events[pos:] inside ``level`` open user blocks; return (next position, left by an 'exit' event)."""
        ev = self.ev
        n = len(ev)
        while pos < n:
            e = ev[pos]
            self.cur = (pos, e)
            k0 = e[0]
            if k0 == "probe":
                self.do_probe()
                pos += 1
            elif k0 == "reg":
                if not self.d_reg:
                    sent = G.SENT_D
                    self.D.register(G.ProbeTerm, G.Funsor)(lambda arg: sent)
                    self.d_reg = True
                self.check_stack("register-", active=ref.LATE in self.model.symbols)
                self.complete("reg")
                pos += 1
            elif k0 == "exit":
                assert level > 0, "ill-formed history: exit at the base"
                return pos + 1, True
            elif k0 == "raise":
                assert 1 <= e[1] <= level, "ill-formed history: raise caught below the base"
                ex = _Boom("injected at event #%d" % pos)
                ex._fv_target, ex._fv_resume = level - e[1], pos + 1
                self.pending = "raise"
                raise ex
            elif k0 in ("subst", "tapefwd"):
                self.do_internal(k0, e[1], pos, level)
                pos += 1
            elif k0 in ("with", "deco"):
                pos = self.do_enter(pos, level)
            else:
                raise ValueError(e)
        if self.final is None:  # the state reached by the whole history, before the implicit unwinding
            self.final = (tuple(self.model.symbols), self.model.top)
        return n, False

    def do_enter(self, pos, level):
        e = self.ev[pos]
        sym = e[1]
        st = {"entered": False, "result": None, "with": e[0] == "with"}
        self.frames[pos] = (level, st)
        try:
            if e[0] == "with":
                cm = st["cm"] = self.make_cm(sym)
                with cm as val:
                    st["val"] = val
                    self._inner(pos)
            else:
                cm, fn = self.pre[pos]
                st["cm"] = cm
                fn()
        except Exception as ex:
            tgt = getattr(ex, "_fv_target", None)
            if not st["entered"]:
                # __enter__ itself failed: a with-statement does not call __exit__; nothing may stay pushed
                self.cur = (pos, e)
                self.failed_entry(ex, sym, e[0])
                return pos + 1
            self.model.leave(1)
            self.handles.pop()
            self.check_stack(site="Interpretation.__exit__", by_exception=True, left=ref.sym_kind(sym))
            if tgt is None:
                self.fail("unexpected-exception", "%s: %s" % (type(ex).__name__, ex), site="unexpected-exception")
            if tgt < level:
                raise
            self.complete(self.pending)
            return ex._fv_resume
        if not st["entered"]:
            self.fail("body-not-run", "the block body did not run and no exception was raised")
        if st["result"] is None:
            self.fail(
                "exception-swallowed",
                "an exception raised inside the block did not propagate out of it (__exit__ returned truthy?)",
                site="Interpretation.__exit__",
                by_exception=True,
                left=ref.sym_kind(sym),
            )
        self.model.leave(1)
        self.handles.pop()
        self.check_stack(site="Interpretation.__exit__", by_exception=False, left=ref.sym_kind(sym))
        newpos, by_exit = st["result"]
        if by_exit:
            self.complete("exit")
        return newpos

    def _inner(self, pos):
        level, st = self.frames[pos]
        st["entered"] = True
        self.cur = (pos, self.ev[pos])
        self.after_enter(self.ev[pos], st)
        self.complete("enter")
        st["result"] = self.body(pos + 1, level + 1)

    def after_enter(self, e, st):
        sym = e[1]
        m = self.model
        prev_d = m.top
        how = m.enter(sym)
        if how == "overflow":
            # the reference says this entry is refused; the library accepted it.  Follow the library (the
            # threshold is not part of the property) and keep checking the stack discipline.
            leaf = sym if sym in ref.PARTIALS else ("tape", prev_d)
            m.force_push(("prio", (leaf,) + ref.flat(prev_d)), sym)
            self.declined_entries += 1
        S, h = G.STACK, self.handles
        sk = ref.sym_kind(sym)
        feat = dict(entered=sk, entered_as=e[0])
        if len(S) != len(h) + 1:
            self.fail(
                "length",
                "after entering %s len(_STACK) == %d, expected %d\n  real %r" % (sym, len(S), len(h) + 1, list(S)),
                **feat
            )
        for i in range(len(h)):
            if S[i] is not h[i]:
                self.fail("identity-below", "entering %s replaced _STACK[%d]: %r -> %r" % (sym, i, h[i], S[i]), **feat)
        top, prev = S[-1], h[-1]
        if sk == "total":
            if top is not G.OBJ[sym]:
                self.fail("top-identity", "after entering %s the active interpretation is %r" % (sym, top), **feat)
        elif sk == "memo":
            if type(top) is not G.Memoize:
                self.fail("top-type", "after entering memoize() the active interpretation is %r" % (top,), **feat)
            if top.base_interpretation is not prev:
                self.fail(
                    "memo-base",
                    "memoize() wraps %r but the interpretation active at entry was %r" % (top.base_interpretation, prev),
                    **feat
                )
            if st["with"] and st["val"] is not top.cache:
                self.fail("with-value", "memoize() did not yield the cache of the pushed Memoize", **feat)
        else:
            obj = self.obj(sym) if sk == "partial" else st["cm"]
            if type(top) is not G.Prio:
                self.fail("top-type", "after entering partial %s the active interpretation is %r" % (sym, top), **feat)
            subs = tuple(top.subinterpretations)
            want = (obj,) + tuple(prev.subinterpretations)
            if len(subs) != len(want) or any(a is not b for a, b in zip(subs, want)):
                self.fail(
                    "layering",
                    "partial %s is layered as %r; expected it over the interpretation active at entry: %r"
                    % (sym, list(subs), list(want)),
                    **feat
                )
            if sk == "tape" and obj._old_interpretation is not prev:
                self.fail(
                    "tape-old",
                    "AdjointTape saved %r as outer interpretation; active at entry was %r"
                    % (obj._old_interpretation, prev),
                    **feat
                )
        if sk != "memo" and st["with"] and st["val"] is not st["cm"]:
            self.fail("with-value", "`with I as v`: v is not I", **feat)
        d = real_desc(top)
        if d != m.top:
            self.fail("descriptor", "active interpretation %r; the reference predicts %s" % (top, ref.name(m.top)), **feat)
        if G.get_interpretation() is not top:
            self.fail("get_interpretation", "get_interpretation() is not _STACK[-1]", **feat)
        h.append(top)
        self.mirrored += 1

    def failed_entry(self, ex, sym, entered_as):
        predicted = ref.enter(tuple(self.model.items), sym)[1]
        self.check_stack(
            "failed-entry-",
            entered=ref.sym_kind(sym),
            entered_as=entered_as,
            exception=type(ex).__name__,
        )
        if predicted != "overflow":
            self.declined_entries += 1
        self.complete("enter-failed:" + type(ex).__name__)

    def do_probe(self):
        top = self.model.top
        exp = ref.predict(top, G.CAL, self.d_reg)
        act = tuple(_label(f) for f in G.PROBE_FNS)
        self.check_stack("probe-")
        if act != exp:
            i = [a == b for a, b in zip(act, exp)].index(False)
            self.fail(
                "probe-class",
                "under %s the probe %r gave %s; the innermost context (falling through partial ones) gives %s"
                % (ref.name(top), ref.PROBES[i], act[i], exp[i]),
                probe=ref.PROBES[i],
                expected=exp[i],
                actual=act[i],
                semantics=ref.kind(top),
            )
        self.complete("probe:" + ",".join(act))

    def do_internal(self, kind, k, pos, level):
        top = self.model.top
        raised = None
        try:
            if kind == "subst":
                _call_subst()
            else:
                _call_tapefwd()
        except Exception as ex:
            raised = ex
        self.check_stack("leak-", raised=type(raised).__name__ if raised is not None else None)
        exp = ref.subst_raises(top, G.CAL_SUBST) if kind == "subst" else ref.tapefwd_raises(top, G.CAL_FWD)
        if (raised is not None) != exp:
            self.fail(
                "outcome",
                "under %s the booby-trapped substitution %s; the innermost context %s perform it"
                % (
                    ref.name(top),
                    "raised %r" % (raised,) if raised is not None else "returned",
                    "does" if exp else "does not",
                ),
                semantics=ref.kind(top),
                expected="raise" if exp else "return",
            )
        obs = kind + (":raised:" + type(raised).__name__ if raised is not None else ":returned")
        if raised is not None:
            self.internal_raises += 1
        if k == 0:
            self.complete(obs)
            return
        ex = raised if raised is not None else _Boom("after %s at event #%d" % (kind, pos))
        ex._fv_target, ex._fv_resume = level - k, pos + 1
        self.pending = obs
        raise ex


def run(events, record=False):
    """Replay one history from a clean slate.  Always leaves funsor's stack at [reflect, eager]."""
    events = tuple(tuple(e) for e in events)
    if restore_base():
        raise RuntimeError("harness invariant broken: the stack was not at its base before a history")
    x = Exec(events, record)
    try:
        if not G.base_ok:
            x.fail("import", "after `import funsor` _STACK is %r, expected [reflect, eager]" % (G.base_seen,))
        if G.cal_bad and not events:
            k, p, want, got = G.cal_bad[0]
            x.fail(
                "probe-class",
                "inside a single `with %s:` block the probe %r gave %s; the documented semantics of %s gives %s"
                % (k, p, got, k, want),
                site="interpret",
                probe=p,
                expected=want,
                actual=got,
                semantics=k,
            )
        x.prepare()
        x.body(0, 0)
        x.cur = (len(events), ("end",))
        x.check_stack("unwound-")
        if len(G.STACK) != 2 or G.STACK[0] is not G.reflect or G.STACK[1] is not G.eager:
            x.fail("unwound-base", "after full unwinding _STACK is %r" % (list(G.STACK),))
    except _Fail as f:
        x.failure = f
    except Exception as ex:  # an exception nobody was meant to see: report, never crash the search
        x.failure = _Fail(
            "unexpected-exception",
            "unexpected-exception",
            "event #%d %s: %s: %s" % (x.cur[0], list(x.cur[1]), type(ex).__name__, ex),
        )
    finally:
        x.polluted = restore_base()
    assert len(G.STACK) == 2 and G.STACK[0] is G.reflect and G.STACK[1] is G.eager
    return x


# ---------------------------------------------------------------------------------------------------------------
# outcomes, snippets


def hist_text(events):
    return " | ".join(" ".join(str(a) for a in e) for e in events)


def describe(case):
    return hist_text(case)


def _features(x):
    f = x.failure
    feats = {"what": f.what}
    feats.update({k: v for k, v in f.extra.items() if isinstance(v, (str, int, bool, type(None)))})
    return feats


def outcome(x, events, phase):
    key = phase + ":" + hist_text(events)
    if x.failure is not None:
        f = x.failure
        last = x.cur[1]
        feats = _features(x)
        if f.site != "Interpretation.__exit__":
            feats["event"] = last[0]
        return core.violation(
            key,
            f.site,
            f.message + "\n  history: " + hist_text(events),
            [list(e) for e in events],
            feats,
            snippet(events),
            extra={"phase": phase, "stack_left_polluted": bool(x.polluted)},
            transitions=1,
        )
    last = events[-1] if events else ("none",)
    k = last[0]
    nontrivial = (
        k in ("with", "deco", "exit", "raise")
        or (k in ("subst", "tapefwd") and x.obs and ":raised" in x.obs[-1])
        or (k == "probe" and len(x.final[0]) >= 1)
        or (k == "reg" and ref.LATE in x.final[0])
    )
    cls = "%s%s -> %s @%s" % (
        k,
        "" if len(last) < 2 or k in ("with", "deco") else str(last[1]) if k == "raise" else ("+" if last[1] else "0"),
        x.obs[-1] if x.obs else "-",
        ref.kind(x.final[1]),
    )
    if k in ("with", "deco"):
        cls = "%s %s -> %s @%s" % (k, ref.sym_kind(last[1]), x.obs[-1] if x.obs else "-", ref.kind(x.final[1]))
    return core.ok(
        key,
        nontrivial,
        cls,
        transitions=1,
        counters={
            "stack_comparisons": x.mirrored,
            "library_internal_raises": x.internal_raises,
            "entries_refused_or_accepted_against_reference": x.declined_entries,
        },
    )


_PRELUDE = '''\
from collections import OrderedDict
import numpy as np
import funsor
from funsor import ops, interpreter
from funsor.interpretations import (CallableInterpretation, DispatchedInterpretation, eager, lazy, reflect,
                                    normalize, sequential, moment_matching, memoize)
from funsor.adjoint import AdjointTape, forward_backward
from funsor.domains import Bint, Real
from funsor.tensor import Tensor
from funsor.terms import Funsor, Number, Subs, Variable

funsor.set_backend("numpy")

class ProbeTerm(Funsor):
    def __init__(self, arg):
        super().__init__(arg.inputs, arg.output)
        self.arg = arg

class Bomb(Funsor):  # renaming works, substituting a value raises
    def __init__(self, name):
        super().__init__(OrderedDict([(name, Real)]), Real, fresh=frozenset([name]))
        self.name = name
    def eager_subs(self, subs):
        if all(isinstance(v, Variable) for _, v in subs):
            return Bomb(dict(subs)[self.name].name)
        raise RuntimeError("boom")

class Boom(Exception):
    pass

A = DispatchedInterpretation("userA")
B = DispatchedInterpretation("userB")
SENT = Number(17.0)
A.register(ProbeTerm, Funsor)(lambda arg: SENT)
B.register(ProbeTerm, Funsor)(lambda arg: None)
SENTC = Number(23.0)

@CallableInterpretation
def userC(cls, *args):  # a function-style PARTIAL interpretation: None = decline
    return SENTC if cls is ProbeTerm else None

C = userC
D = DispatchedInterpretation("userD")  # no rules yet
SENTD = Number(29.0)
t1 = Tensor(np.array([1.0, 2.0, 3.0]), OrderedDict(i=Bint[3]))
t2 = Tensor(np.array([4.0, 5.0, 6.0]), OrderedDict(i=Bint[3]))
x, y = Variable("x", Real), Variable("y", Real)
bomb, one = Bomb("z"), Number(1.0)
T0 = AdjointTape()  # one tape instance, re-entered sequentially
with reflect:
    lazy_sub = Subs(bomb, (("z", one),))

def check(where, expected):
    actual = [repr(s) for s in interpreter._STACK]
    print(where, "stack:", actual)
    if actual != expected:  # SystemExit: not swallowed by the except clauses below
        raise SystemExit("VIOLATED at %s: expected stack %s" % (where, expected))

def probe(where, expected):
    actual = []
    for f in (lambda: t1 + t2, lambda: t1.reduce(ops.add), lambda: x + y, lambda: ProbeTerm(t1)):
        r = f()
        actual.append("SENT" if r is SENT else "SENTC" if r is SENTC else "SENTD" if r is SENTD else type(r).__name__.split("[")[0])
    print(where, "probes:", actual)
    if actual != expected:
        raise SystemExit("VIOLATED at %s: expected probe classes %s" % (where, expected))

assert interpreter._STACK[0] is reflect and interpreter._STACK[1] is eager and len(interpreter._STACK) == 2
'''

_CM_SRC = {"memo": "memoize()", "tape": "AdjointTape()", "T0": "T0", "D": "D"}


def snippet(events):
    """A stand-alone program that runs the history with real with-blocks / decorators and asserts the stack
    (by repr) and the probe classes the reference predicts after every event."""
    events = tuple(tuple(e) for e in events)
    defs = []
    main = []

    def names(stack):
        return repr([ref.name(d) for d in stack])

    def gen(pos, level, stack, ind, out):
        """-> (next pos, stack, target level of an escaping exception or None)"""
        pad = "    " * ind
        while pos < len(events):
            e = events[pos]
            k = e[0]
            tag = "'#%d %s'" % (pos, " ".join(str(a) for a in e))
            if k == "probe":
                out.append(pad + "check(%s, %s)" % (tag, names(stack)))
                reg = any(x[0] == "reg" for x in events[:pos])  # events run in history order
                out.append(pad + "probe(%s, %r)" % (tag, list(ref.predict(stack[-1], None, reg))))
                pos += 1
            elif k == "reg":
                if not any(x[0] == "reg" for x in events[:pos]):
                    out.append(pad + "D.register(ProbeTerm, Funsor)(lambda arg: SENTD)  # first rule of D")
                out.append(pad + "check(%s, %s)" % (tag, names(stack)))
                pos += 1
            elif k == "exit":
                return pos + 1, stack, None
            elif k == "raise":
                out.append(pad + "raise Boom(%s)" % tag)
                return pos + 1, stack, level - e[1]
            elif k in ("subst", "tapefwd"):
                call = "bomb(z=one)" if k == "subst" else "forward_backward(ops.add, ops.mul, lazy_sub)"
                if e[1] == 0:
                    out.append(pad + "try:")
                    out.append(pad + "    " + call)
                    out.append(pad + "except (RuntimeError, AssertionError) as e:")
                    out.append(pad + "    print(%s, 'raised', repr(e))" % tag)
                    out.append(pad + "check(%s, %s)" % (tag, names(stack)))
                    pos += 1
                else:
                    out.append(pad + call + "  # raises unless the active interpretation is reflect")
                    out.append(pad + "raise Boom(%s)" % tag)
                    return pos + 1, stack, level - e[1]
            else:
                sym = e[1]
                new, how = ref.enter(stack, sym)
                src = _CM_SRC.get(sym, sym)
                inner = []
                if how == "overflow":
                    block = [pad + "try:"]
                    if k == "with":
                        block += [pad + "    with %s:" % src, pad + "        pass"]
                    else:
                        defs.append("@%s\ndef rest_%d():\n    pass\n" % (src, pos))
                        block += [pad + "    rest_%d()" % pos]
                    block += [
                        pad + "except AssertionError as e:",
                        pad + "    print(%s, 'entry refused:', e)" % tag,
                        pad + "check(%s, %s)" % (tag + " + ' (refused)'", names(stack)),
                    ]
                    out.extend(block)
                    pos += 1
                    continue
                if k == "with":
                    head = [pad + "with %s:" % src]
                    inner.append(pad + "    check(%s, %s)" % (tag, names(new)))
                    npos, _, tgt = gen(pos + 1, level + 1, new, ind + 1, inner)
                else:
                    body = ["    check(%s, %s)" % (tag, names(new))]
                    npos, _, tgt = gen(pos + 1, level + 1, new, 1, body)
                    defs.append("@%s\ndef rest_%d():\n%s\n" % (src, pos, "\n".join(body)))
                    head = []
                    inner.append(pad + "rest_%d()" % pos)
                lines = head + inner
                if tgt is not None and tgt == level:
                    lines = (
                        [pad + "try:"]
                        + ["    " + ln for ln in lines]
                        + [
                            pad + "except (Boom, RuntimeError, AssertionError):",
                            pad + "    pass",
                            pad + "else:",
                            pad + "    raise SystemExit('VIOLATED: the exception raised inside the block did not propagate')",
                        ]
                    )
                    tgt = None
                out.extend(lines)
                if tgt is not None:
                    return npos, stack, tgt
                out.append(pad + "check(%s, %s)" % ("'after the block of #%d'" % pos, names(stack)))
                pos = npos
        return pos, stack, None

    gen(0, 0, ref.BASE, 0, main)
    main.append("check('end', %s)" % names(ref.BASE))
    main.append("assert interpreter._STACK[0] is reflect and interpreter._STACK[1] is eager")
    main.append("print('stack discipline held')")
    return _PRELUDE + "\n" + "\n".join(defs) + "\n" + "\n".join(main) + "\n"


def check(case, seed):
    """Replay entry point (fv.replay): one history."""
    _setup(seed)
    events = tuple(tuple(e) for e in case)
    return outcome(run(events), events, "R")


# ---------------------------------------------------------------------------------------------------------------
# phase A / merged search


def rep_history(canon):
    """Representative history of a canonical state: its interpretations entered in order, the style (with-block or
    decorator) alternating by position and symbol so that replayed prefixes mix both."""
    return tuple(
        ("with" if (i + ref.ALL_SYMBOLS.index(s)) % 2 == 0 else "deco", s) for i, s in enumerate(canon)
    )


BASE_RC = "reflect;eager"


class Stats:
    def __init__(self):
        self.states = set()
        self.transitions = 0
        self.max_depth = 0
        self.frontier = []
        self.table = {}
        self.conflicts = []
        self.missing = 0
        self.differ = 0
        self.examples = []
        self.executions = 0

    def payload(self):
        return dict(self.__dict__)


def steps(x, events):
    """[(real canonical state before, event, real canonical state after, observation)] of one recorded execution.
    Every event appends exactly one trace entry when it completes, and events complete in history order."""
    before = BASE_RC
    out = []
    for e, (after, obs) in zip(events, x.trace):
        out.append((before, e, after, obs))
        before = after
    return out


def record_table(stats, x, events):
    for before, e, after, obs in steps(x, events):
        key, val = (before, e), (after, obs)
        old = stats.table.get(key)
        if old is None:
            stats.table[key] = val
        elif old != val and len(stats.conflicts) < 5:
            stats.conflicts.append((key, old, val, events))


def _sample(report, events, out):
    if len(report.samples) < report.MAX_SAMPLES:
        return {"case": hist_text(events), "status": out["status"], "observed": out.get("outcome")}
    return None


def bfs(symbols, max_depth, roots, stop_depth, internal_ks, report, stats, phase, want_table, samples=False):
    """Breadth-first search from ``roots`` (canonical states).  States of depth ``stop_depth`` are returned as
    frontier instead of being expanded (they are expanded by another worker)."""
    seen = set(roots)
    queue = deque(roots)
    while queue:
        canon = queue.popleft()
        depth = len(canon)
        if stop_depth is not None and depth >= stop_depth:
            stats.frontier.append(canon)
            continue
        stats.states.add(canon)
        stats.max_depth = max(stats.max_depth, depth)
        hist = rep_history(canon)
        for e in ref.menu(depth, symbols, max_depth, internal_ks, canon):
            events = hist + (e,)
            x = run(events, record=want_table)
            stats.transitions += 1
            stats.executions += 1
            out = outcome(x, events, phase)
            report.add(out, _sample(report, events, out) if samples and depth == 1 and e[0] != "with" else None)
            if x.failure is not None:
                continue
            if want_table:
                record_table(stats, x, events)
            succ = x.final[0]
            if len(succ) > depth:
                if succ not in seen:
                    seen.add(succ)
                    queue.append(succ)
            else:
                # exits/raises lead to a prefix of this state: owned by this search or by the one that spawned it
                assert succ == canon[: len(succ)], (succ, canon)


# ---------------------------------------------------------------------------------------------------------------
# phase B / un-merged sequences


def _depth_step(d, e):
    k = e[0]
    if k in ("with", "deco"):
        return d + 1
    if k == "exit":
        return d - 1
    if k in ("probe", "reg"):
        return d
    return d - e[1]


def sequences(symbols, length, prefix, internal_ks):
    """All well-nested event sequences of exactly ``length`` events that start with ``prefix`` (depth-first,
    menu order).  Well-nestedness needs only the number of open blocks; overflow cannot occur at these lengths."""

    def step(stack, e):
        if e[0] in ("with", "deco"):
            return stack + (e[1],)
        return stack[: _depth_step(len(stack), e)]

    def rec(seq, stack):
        if len(seq) == length:
            yield seq
            return
        for e in ref.menu(len(stack), symbols, length, internal_ks, stack):
            yield from rec(seq + (e,), step(stack, e))

    st0 = ()
    for e in prefix:
        st0 = step(st0, e)
    yield from rec(tuple(prefix), st0)


_MTABLE = {}  # transition table of the merged search over the reduced alphabet; inherited by the phase-B workers


def unmerged_unit(symbols, length, prefix, internal_ks, report, stats):
    """Every sequence is run from a clean slate; each of its steps must be exactly the step the merged search
    recorded for (same real canonical state, same event)."""
    for seq in sequences(symbols, length, prefix, internal_ks):
        x = run(seq, record=True)
        stats.executions += 1
        report.add(outcome(x, seq, "U"))
        if x.failure is not None:
            continue
        for before, e, after, obs in steps(x, seq):
            stats.states.add(after)
            stats.transitions += 1
            want = _MTABLE.get((before, e))
            if want is None:
                stats.missing += 1
                if len(stats.examples) < 3:
                    stats.examples.append(("unmerged-transition-not-in-merged", before, e, None, (after, obs), seq))
            elif want != (after, obs):
                stats.differ += 1
                if len(stats.examples) < 3:
                    stats.examples.append(("merged-vs-unmerged", before, e, want, (after, obs), seq))
            else:
                stats.table[(before, e)] = 1


# ---------------------------------------------------------------------------------------------------------------
# phase C / overflow chains


def chain_histories(tier):
    out = []
    for base in _CHAIN_BASES:
        start = ref.BASE if base is None else ref.enter(ref.BASE, base)[0]
        need = ref.OVERFLOW - len(ref.flat(start[-1]))  # this many partial entries: the last one is refused
        for pat in _CHAIN_PATTERNS:
            if pat == "A":
                syms = ["A"] * need
            elif pat == "B":
                syms = ["B"] * need
            elif pat == "C":
                syms = ["C"] * need
            elif pat == "AB":
                syms = [("A", "B")[i % 2] for i in range(need)]
            elif pat == "tape-first":
                syms = ["tape"] + ["A"] * (need - 1)
            else:
                syms = ["B"] * (need - 1) + ["tape"]
            for style in ("with", "deco"):
                pre = [("with", base)] if base else []
                pre += [("with" if i % 2 == 0 else "deco", s) for i, s in enumerate(syms[:-1])]
                pre.append((style, syms[-1]))
                # sanity: the reference refuses exactly the last entry
                st = ref.BASE
                hows = []
                for e in pre:
                    st, how = ref.enter(st, e[1])
                    hows.append(how)
                assert hows[-1] == "overflow" and all(h == "push" for h in hows[:-1]), (pre, hows)
                depth = len(st) - 2
                if tier == "thorough":
                    follow = list(ref.menu(depth, ref.SYMBOLS, depth + 1, "all"))
                else:
                    follow = [("probe",), ("exit",)] + [("raise", k) for k in range(1, depth + 1)]
                    follow += [("with", syms[-1]), ("deco", "A"), ("with", "eager"), ("subst", 0), ("tapefwd", depth)]
                out.append(tuple(pre))
                for e in follow:
                    out.append(tuple(pre) + (e,))
    return out


# ---------------------------------------------------------------------------------------------------------------
# phase D / sequential re-entry of one tape instance under a different enclosing interpretation


def _stacks(symbols, max_depth):
    out = [()]
    level = [()]
    for _ in range(max_depth):
        level = [s + (x,) for s in level for x in symbols]
        out += level
    return out


def reentry_histories(tier):
    """enter X..., with T0, probe, leave everything (normally / by one exception caught at the base),
    enter Y..., enter T0 again (with / deco), probe, subst: T0 must now sit over Y, not over X."""
    first = _stacks(ref.SYMBOLS, 2 if tier == "thorough" else 1)
    second = _stacks(ref.SYMBOLS, 2)
    out = []
    for X in first:
        for leave in ("exit", "raise"):
            pre = tuple(("with" if i % 2 == 0 else "deco", x) for i, x in enumerate(X))
            pre += (("with", "T0"), ("probe",))
            pre += (("exit",),) * (len(X) + 1) if leave == "exit" else (("raise", len(X) + 1),)
            for Y in second:
                mid = tuple(("deco" if i % 2 == 0 else "with", y) for i, y in enumerate(Y))
                for style in ("with", "deco"):
                    out.append(pre + mid + ((style, "T0"), ("probe",), ("subst", 0), ("exit",), ("probe",)))
    return out


# ---------------------------------------------------------------------------------------------------------------
# phase E / a rule-less DispatchedInterpretation whose first rule is registered before / during / after its block

LATE_ALPHABET = ("lazy", "A", "D")  # thorough; quick uses ("lazy", "D")


def late_alphabet(tier):
    return LATE_ALPHABET if tier == "thorough" else ("lazy", "D")


def late_sequences(length, prefix, symbols=LATE_ALPHABET):
    """All well-nested sequences of exactly ``length`` events over LATE_ALPHABET (with / deco / exit / raise k /
    probe) plus the event ("reg",) at every position."""

    def step(stack, e):
        if e[0] in ("with", "deco"):
            return stack + (e[1],)
        return stack[: _depth_step(len(stack), e)]

    def rec(seq, stack):
        if len(seq) == length:
            yield seq
            return
        for e in ref.menu(len(stack), symbols, length, ()) + [("reg",)]:
            yield from rec(seq + (e,), step(stack, e))

    st0 = ()
    for e in prefix:
        st0 = step(st0, e)
    yield from rec(tuple(prefix), st0)


# ---------------------------------------------------------------------------------------------------------------
# orchestration


def _work(job):
    kind, tier, seed = job[0], job[1], job[2]
    _setup(seed)
    rep = core.Report(ID, tier, seed)
    stats = Stats()
    try:
        if kind == "bfs":
            _, _, _, symbols, max_depth, root, internal_ks, phase, want_table = job
            bfs(symbols, max_depth, [tuple(root)], None, internal_ks, rep, stats, phase, want_table)
        elif kind == "unmerged":
            _, _, _, symbols, length, prefix, internal_ks = job
            unmerged_unit(symbols, length, prefix, internal_ks, rep, stats)
            stats.table = set(stats.table)
        elif kind == "late":
            _, _, _, length, prefix = job
            for h in late_sequences(length, prefix, late_alphabet(tier)):
                x = run(h)
                stats.executions += 1
                rep.add(outcome(x, h, "E"))
        elif kind in ("chains", "reentry"):
            _, _, _, hists = job
            for h in hists:
                x = run(h)
                stats.executions += 1
                stats.transitions += 1
                if x.failure is None:
                    stats.states.add(x.final[0])
                    stats.max_depth = max(stats.max_depth, len(x.final[0]))
                rep.add(outcome(x, h, "C" if kind == "chains" else "D"))
    finally:
        restore_base()
    return rep, stats.payload()


_STATS = {}


def _map(pool, jobs):
    if pool is None:
        return map(_work, jobs)
    return pool.imap(_work, jobs, chunksize=1)


def _pool():
    return mp.get_context("fork").Pool(core.NPROC) if core.NPROC > 1 else None


def _close(pool):
    if pool is not None:
        pool.close()
        pool.join()


def parallel_bfs(pool, tier, seed, symbols, max_depth, internal_ks, phase, want_table, report):
    """Top two levels in this process, then one job per depth-2 state."""
    top = Stats()
    split = 2 if max_depth > 2 else None
    bfs(symbols, max_depth, [()], split, internal_ks, report, top, phase, want_table, samples=phase == "A")
    res = top.payload()
    jobs = [("bfs", tier, seed, symbols, max_depth, root, internal_ks, phase, want_table) for root in top.frontier]
    for rep, pay in _map(pool, jobs):
        report.merge(rep)
        res["states"] |= pay["states"]
        res["transitions"] += pay["transitions"]
        res["executions"] += pay["executions"]
        res["max_depth"] = max(res["max_depth"], pay["max_depth"])
        res["conflicts"].extend(pay["conflicts"])
        for key, val in pay["table"].items():
            old = res["table"].get(key)
            if old is None:
                res["table"][key] = val
            elif old != val:
                res["conflicts"].append((key, old, val, None))
    return res


def _canon_violation(report, what, message, events=()):
    events = tuple(events or ())
    report.add(
        core.violation(
            "X:" + what + ":" + hist_text(events),
            "canonical-state",
            message,
            [list(e) for e in events],
            {"what": what},
            snippet(events) if events else "",
        )
    )


def explore(tier, seed, report):
    _setup(seed)
    b = bounds(tier)
    report.add(outcome(run(()), (), "A"))  # the empty history: base stack after import, calibration sanity
    if not G.base_ok:
        return
    if G.cal_diff:
        report.notes.append(
            "%d entries of the reference class table outside its documented core were re-calibrated under a single "
            "with-block" % G.cal_diff
        )
    L = b["unmerged_length"]
    ks = tuple(b["unmerged_internal_k"])
    pool = _pool()
    try:
        # phase A: the full alphabet, merged
        a = parallel_bfs(pool, tier, seed, ref.SYMBOLS, b["bfs_depth"], "all", "A", False, report)
        # phase B, first half: merged search over the reduced alphabet, keeping its transition table
        m = parallel_bfs(pool, tier, seed, REDUCED, L, ks, "M", True, report)
    finally:
        _close(pool)
    _MTABLE.clear()
    _MTABLE.update(m["table"])
    pool = _pool()  # forked now: the workers see _MTABLE
    try:
        # phase B, second half: all sequences, un-merged
        jobs = [("unmerged", tier, seed, REDUCED, L, p, ks) for p in sequences(REDUCED, 2, (), ks)]
        u = Stats()
        u_keys = set()
        for rep, pay in _map(pool, jobs):
            report.merge(rep)
            u.executions += pay["executions"]
            u.transitions += pay["transitions"]
            u.states |= pay["states"]
            u.missing += pay["missing"]
            u.differ += pay["differ"]
            u.examples.extend(pay["examples"])
            u_keys |= pay["table"]
        crosscheck = report.status["violation"] == 0
        if not crosscheck:
            report.notes.append(
                "phase B comparison of merged and un-merged searches not evaluated: executions already violate the "
                "stack discipline (a failed execution is not expanded, so the two searches are not comparable)"
            )
        for c in m["conflicts"][:3] if crosscheck else ():
            _canon_violation(
                report,
                "nondeterministic-successor",
                "same canonical stack %r and same event %r, different successor/observation: %r vs %r"
                % (c[0][0], list(c[0][1]), c[1], c[2]),
                c[3],
            )
        for what, before, e, want, got, seq in u.examples[:4] if crosscheck else ():
            _canon_violation(
                report,
                what,
                "from canonical stack %r event %r: merged search recorded %r, un-merged sequence observed %r"
                % (before, list(e), want, got),
                seq,
            )
        m_states = {BASE_RC} | {v[0] for v in m["table"].values()}
        u_states = {BASE_RC} | u.states
        # the un-merged sequences stop at length L: they cannot take events from the states first reached by
        # their last event, so compare reachability, and transitions from states reached within L-1 events
        if crosscheck and m_states != u_states:
            _canon_violation(
                report,
                "reachable-sets-differ",
                "merged search reaches %d canonical stacks, un-merged enumeration %d; only merged: %r; only un-merged: %r"
                % (
                    len(m_states),
                    len(u_states),
                    sorted(m_states - u_states)[:3],
                    sorted(u_states - m_states)[:3],
                ),
            )
        # phase C
        hists = chain_histories(tier)
        n = max(1, core.NPROC)
        c = Stats()
        for rep, pay in _map(pool, [("chains", tier, seed, hists[i::n]) for i in range(n) if hists[i::n]]):
            report.merge(rep)
            c.states |= pay["states"]
            c.max_depth = max(c.max_depth, pay["max_depth"])
            c.executions += pay["executions"]
        # phase D
        hists = reentry_histories(tier)
        d = Stats()
        for rep, pay in _map(pool, [("reentry", tier, seed, hists[i::n]) for i in range(n) if hists[i::n]]):
            report.merge(rep)
            d.executions += pay["executions"]
        # phase E
        LE = b["late_registration_length"]
        e_exec = 0
        for rep, pay in _map(pool, [("late", tier, seed, LE, p) for p in late_sequences(2, (), late_alphabet(tier))]):
            report.merge(rep)
            e_exec += pay["executions"]
    finally:
        _close(pool)
        restore_base()
    _STATS.update(
        {
            "states": len(a["states"] | c.states),
            "transitions": a["transitions"] + c.executions + d.executions + e_exec,
            "max_depth": max(a["max_depth"], c.max_depth),
            "bfs": {
                "canonical_states": len(a["states"]),
                "transitions": a["transitions"],
                "max_depth": a["max_depth"],
                "states_by_depth": {str(k): v for k, v in sorted(Counter(len(s) for s in a["states"]).items())},
            },
            "unmerged_crosscheck": {
                "alphabet": list(REDUCED),
                "length": L,
                "sequences_executed": u.executions,
                "steps_compared": u.transitions,
                "distinct_transitions_unmerged": len(u_keys),
                "distinct_transitions_merged": len(m["table"]),
                "canonical_states_unmerged": len(u_states),
                "canonical_states_merged": len(m_states),
                "merged_executions": m["executions"],
                "merged_conflicts": len(m["conflicts"]),
                "steps_missing_in_merged": u.missing,
                "steps_differing": u.differ,
                "reachable_sets_equal": m_states == u_states,
            },
            "overflow_chains": {"histories": c.executions, "end_states": len(c.states), "max_depth": c.max_depth},
            "tape_reentry": {"histories": d.executions},
            "late_registration": {"alphabet": list(late_alphabet(tier)) + ["reg"], "length": LE, "sequences_executed": e_exec},
        }
    )


def finalize(report, tier, seed):
    return dict(_STATS)
