"""C02 -- every rewrite step of an exact interpretation preserves value.

The *transitions* of every execution of a corpus are checked: the rule monitor reports each firing
(interpretation, rule function, cls, args, result) of eager / normalize / lazy / sequential / unfold / optimize, and
the firing is decided by comparing the reference denotation of the un-built pair (cls, args) with that of the result
at EVERY point of the joint finite input space (real inputs at the fixed sample points), plus
inputs(result) <= inputs(cls, args).  Corpus: L-terms (C01/C04/C05 generators) and the semiring expressions of C08,
run under eager, lazy+reinterpret, normalize+reinterpret, sequential and apply_optimizer.
"""
import numpy as np

from .. import core, gen, observe
from ..monitors import rules
from ..ref import lang, term
from . import c08

ID = "C02"
LEVEL_RULE = (
    "programs = L-terms (depth 2, coarse pool) and C08's semiring expressions (stride-free subset: S1 pairs, nested, "
    "distribution shapes) x 5 routes; each distinct firing (rule id, identity of args) is decided once on its whole "
    "input space; non-trivial firing = the result is not the reflected term itself; evidence lists rule functions "
    "that fired non-trivially vs registered"
)
ASSUMPTIONS = [
    "reference denotation of term graphs fv.ref.term (reads fields, applies raw ops on single event values) trusted",
    "carriers: corpus data are positive reals / booleans, so (max|min, mul) and (or, and) rules are exercised on their declared carrier",
    "firings whose terms contain classes outside fv.ref.term (Gaussian, Delta, Integrate, MarkovProduct, Scatter, distributions) or reductions over real variables are counted as undecidable, not decided",
]
FAMS = ("unary", "binary", "reduce", "subs", "binders", "einsum")
MAX_POINTS = 600

# per-worker
_MON = None
_SEEN = {}
_KEEP = []
_STATE = {"viol": None, "counters": None, "n": 0, "seed": 0, "program": None}


def bounds(tier):
    return {"corpus_depth": 2, "routes": ["eager", "lazy+reinterpret", "normalize+reinterpret", "sequential", "apply_optimizer"],
            "max_points_per_firing": MAX_POINTS, "interpretations_monitored": ["eager", "normalize", "lazy", "sequential", "unfold", "optimize"]}


def extras():
    """Terms aimed at rules the generic corpus does not reach (lazy Lambda indexing, Align, Independent, chained Subs)."""
    T, N, V = gen.T, gen.N, gen.V
    x, y = V("x", "real"), V("y", "real", (2,))
    ti, tij, tj, tji2 = T("i", lid=401), T("ij", lid=402), T("j", lid=403), T("ji", (2,), lid=404)
    idx = T("i", dtype=3, contents=[2, 0])
    idx2 = T("k", dtype=2, contents=[1, 0])
    lam1 = ("Lam", "j", 3, ("B", "mul", tij, x))
    lam2 = ("Lam", "j", 3, ("B", "add", tji2, y))
    lazy_terms = [("B", "mul", tij, x), ("B", "add", ("B", "mul", ti, x), tj), ("U", "exp", (), ("B", "mul", tij, x)), ("R", "add", ("B", "mul", tij, x), (("j", 3),))]
    out = []
    for lam in (lam1, lam2):
        out += [("B", ("getitem", 0), lam, idx), ("B", ("getitem", 0), lam, N(1, 3)), ("B", ("getitem", 0), lam, V("f", 3)),
                ("U", "getslice", ((0,),), lam), ("U", "getslice", ((("s", 1, None, None),),), lam), ("U", "getslice", (("...", 0),), lam),
                ("U", "sum", (0, False), lam)]
    out += [("B", ("getitem", 1), lam2, idx2), ("U", "getslice", ((("s", None, None, None), 1),), lam2)]
    for f in lazy_terms:
        t = lang.ty(f)
        names = [n for n in t.inputs]
        for perm in ((names[-1],), tuple(reversed(names)), tuple(names[1:] + names[:1])):
            al = ("Al", f, perm)
            out += [al, ("B", "add", al, ti), ("B", "mul", tj, al), ("B", "sub", al, ("Al", f, tuple(names))), ("R", "add", al, (("i", 2),)),
                    ("B", "sub", tj, al), ("B", "truediv", ti, al), ("B", "sub", al, tj), ("B", "lt", tj, al), ("B", "pow", ti, al)]
    ind = ("Ind", ("B", "mul", T("k", lid=405), ("B", "mul", x, ti)), "r", "k", "x")
    out += [ind, ("S", ind, (("r", T((), (2,), lid=406)),)), ("S", ind, (("r", V("q", "real", (2,))),))]
    # substitution into a lazily built substitution (fusion rules)
    inner = [("S", ("B", "mul", tij, x), (("i", V("f", 2)),)), ("S", ("B", "mul", tij, x), (("x", ("B", "add", V("w", "real"), N(1.0))),)),
             ("S", tij, (("j", idx),))]
    for f in inner:
        tf = lang.ty(f)
        for n in tf.inputs:
            for v in gen.subst_values(n, tf.inputs[n], "quick")[:8]:
                out.append(("S", f, ((n, v),)))
    return [e for e in out if lang.well_typed(e)]


def drivers():
    """Programs outside L (Gaussian, Delta, Constant, Integrate) run under the monitor; returns [(name, thunk)]."""
    import numpy as np
    from collections import OrderedDict
    import funsor
    from funsor import ops
    from funsor.constant import Constant
    from funsor.delta import Delta
    from funsor.domains import Bint, Real, Reals
    from funsor.gaussian import Gaussian
    from funsor.integrate import Integrate
    from funsor.tensor import Tensor
    from funsor.terms import Independent, Number, Variable

    def A(lid, shape):
        return lang.generic_fill(500 + lid, shape, 0)

    def G(lid, inputs):
        nb = [d.size for d in inputs.values() if d.dtype != "real"]
        dim = sum(d.num_elements for d in inputs.values() if d.dtype == "real")
        ps = A(lid, tuple(nb) + (dim, dim)) + 2.0 * np.eye(dim)
        return Gaussian(A(lid + 1, tuple(nb) + (dim,)) - 1.0, ps, inputs)

    ti = Tensor(A(1, (2,)), OrderedDict(i=Bint[2]))
    tij = Tensor(A(2, (2, 3)), OrderedDict(i=Bint[2], j=Bint[3]))
    tj = Tensor(A(3, (3,)), OrderedDict(j=Bint[3]))
    x, y = Variable("x", Real), Variable("y", Reals[2])
    g1 = lambda: G(10, OrderedDict(i=Bint[2], x=Real, y=Reals[2]))  # noqa
    g2 = lambda: G(20, OrderedDict(x=Real, i=Bint[2]))  # noqa
    g3 = lambda: G(30, OrderedDict(y=Reals[2], j=Bint[3], x=Real))  # noqa
    dx = lambda: Delta("x", Tensor(A(40, (2,)), OrderedDict(i=Bint[2])), ti)  # noqa
    dy = lambda: Delta("y", Tensor(A(41, (2,))), Number(0.5))  # noqa
    db = lambda: Delta("b", Tensor(np.array([1, 0]), OrderedDict(i=Bint[2]), 2), Number(0.0))  # noqa
    out = [
        ("gauss+gauss", lambda: g1() + g2()),
        ("gauss+gauss-disjoint", lambda: g2() + g3()),
        ("gauss+gauss+tensor", lambda: g1() + g2() + ti),
        ("gauss-gauss", lambda: g1() - g2()),
        ("gauss-subs-int", lambda: g1()(i=1)),
        ("gauss-subs-real", lambda: g1()(x=Tensor(A(50, ())))),
        ("gauss-subs-var", lambda: g1()(x="z", i="k")),
        ("delta+delta", lambda: dx() + dy()),
        ("delta+tensor", lambda: dx() + tij),
        ("tensor+delta", lambda: tij + dx()),
        ("delta+lazy", lambda: dx() + (tj * x)),
        ("lazy+delta", lambda: (ti * x * x) + dx()),
        ("delta-bint+tensor", lambda: db() + Tensor(A(51, (2, 2)), OrderedDict(i=Bint[2], b=Bint[2]))),
        ("delta-subs", lambda: dx()(x=Tensor(A(40, (2,)), OrderedDict(i=Bint[2])))),
        ("delta-subs-miss", lambda: dy()(y=Tensor(A(52, (2,))))),
        ("delta+gauss", lambda: dx() + g2()),
        ("const+const", lambda: Constant(OrderedDict(c=Bint[2]), ti) + Constant(OrderedDict(d=Real), tj)),
        ("const+tensor", lambda: Constant(OrderedDict(c=Bint[2]), ti) * tij),
        ("tensor+const", lambda: tij - Constant(OrderedDict(d=Real), tj)),
        ("const-reduce", lambda: Constant(OrderedDict(c=Bint[2], d=Bint[3]), ti).reduce(ops.add, "c")),
        ("const-unary", lambda: Constant(OrderedDict(c=Bint[2]), ti).exp()),
        ("const-subs", lambda: Constant(OrderedDict(c=Bint[2], d=Real), ti)(c=1)),
        ("integrate-discrete", lambda: Integrate(tij.log(), tj * x, frozenset({Variable("j", Bint[3])}))),
        ("integrate-discrete2", lambda: Integrate(tij.log(), ti + tj, frozenset({Variable("i", Bint[2]), Variable("j", Bint[3])}))),
        ("exp-reduce", lambda: (tij.log() + x).exp().reduce(ops.add, "j")),
        ("contraction-to-integrate", lambda: ((tij.log() + x).exp() * tj).reduce(ops.add, "j")),
        ("independent-delta", lambda: Independent(Delta("x_i", Tensor(A(53, (2,)), OrderedDict(i=Bint[2])), Number(0.0)), "x", "i", "x_i")),
        # substitutions mixing the Delta's own (fresh) name with a batch input of its point / log-density
        ("delta-subs-fresh+batch", lambda: dx()(x=Tensor(A(40, (2,)), OrderedDict(i=Bint[2])), i=1)),
        ("delta-subs-rename+batch", lambda: dx()(x="z", i=1)),
        ("delta-subs-batch", lambda: dx()(i=0)),
        ("delta-subs-fresh+batch-var", lambda: dx()(x=Tensor(A(54, ())), i="k")),
    ]
    return out


def cases(tier):
    return [["t", e] for e in extras() + gen.spines()] + [["g", i] for i in range(len(drivers()))] + _corpus_cases(tier)


def _corpus_cases(tier):
    terms = gen.corpus(tier, families=FAMS, depth=2, coarse=(True if tier == "thorough" else 2))
    sem = c08.expr_cases(tier)
    if tier != "thorough":
        terms = terms[:21000] + terms[21000::3]
        sem = sem[::3]
    return [["t", e] for e in terms] + [["t", e] for e in sem]


def describe(case):
    if case[0] == "g":
        return "driver " + drivers()[case[1]][0]
    return lang.code(lang.tuplify(case[1]))


def _points(inputs, seed):
    doms = {}
    total = 1
    for n, d in inputs.items():
        dt, shp = getattr(d, "dtype", None), tuple(getattr(d, "shape", ()))
        if dt is None:
            raise term.Undecidable("non-array-input")
        doms[n] = (dt, shp)
        total *= 2 if dt == "real" or shp else dt
    if total > MAX_POINTS:
        raise term.Undecidable("input-space-too-large")
    return list(lang.points(doms, seed))


def _is_reflected(cls, args, result):
    try:
        if getattr(type(result), "__origin__", type(result)) is not getattr(cls, "__origin__", cls):
            return False
        av = result._ast_values
        if len(av) != len(args):
            # variadic re-packing
            av = tuple(av[: len(av) - 1]) + tuple(av[-1]) if isinstance(av[-1], tuple) else av
        return len(av) == len(args) and all(a is b or (not hasattr(a, "inputs") and a == b) for a, b in zip(av, args))
    except Exception:
        return False


def _has_argreduce(a, depth=0):
    """True when the funsor argument ``a`` contains a Unary argmax/argmin anywhere (read from fields only)."""
    if isinstance(a, (tuple, frozenset)):
        return depth < 12 and any(_has_argreduce(x, depth + 1) for x in a)
    if not hasattr(a, "_ast_values"):
        return False
    if term._name(type(a)) == "Unary" and type(a.op).__name__ in ("ArgmaxOp", "ArgminOp"):
        return True
    return depth < 12 and any(_has_argreduce(x, depth + 1) for x in a._ast_values)


def _features(cls, args, what):
    name = term._name(cls)
    f = {"cls": name, "what": what, "arg_classes": [term._name(type(a)) if hasattr(a, "inputs") else type(a).__name__ for a in args][:6]}
    ops_ = [getattr(a, "__name__", None) or getattr(a, "name", None) for a in args if type(a).__module__.startswith("funsor.ops")]
    f["ops"] = [str(o) for o in ops_][:3]
    f["op0"] = f["ops"][0] if f["ops"] else None
    f["has_boolean_data_tensor_arg"] = any(getattr(getattr(a, "data", None), "dtype", None) == bool for a in args)
    f["contains_argreduce"] = any(_has_argreduce(a) for a in args)
    return f


def _on_firing(interp, fn, cls, args, result):
    st = _STATE
    counters = st["counters"]
    rid = rules.rule_id(fn)
    keyid = (rid,) + tuple(id(a) for a in args)
    if keyid in _SEEN:
        counters["firing-cached"] = counters.get("firing-cached", 0) + 1
        return
    _SEEN[keyid] = True
    _KEEP.append(args)  # keep ids alive
    if len(_KEEP) > 200000:
        _KEEP.clear()
        _SEEN.clear()
    from funsor.terms import Funsor

    if not isinstance(result, Funsor):
        counters["undecidable:non-funsor-result"] = counters.get("undecidable:non-funsor-result", 0) + 1
        return
    if st.get("taint"):
        counters["undecidable:encloses-outside-carrier-rewrite"] = counters.get("undecidable:encloses-outside-carrier-rewrite", 0) + 1
        _SEEN.pop(keyid, None)
        return
    if _is_reflected(cls, args, result):
        counters["trivial:" + interp + ":" + rid] = counters.get("trivial:" + interp + ":" + rid, 0) + 1
        return
    try:
        in_lhs = term.app_inputs(cls, args)
        extra = [n for n in result.inputs if n not in in_lhs]
        if extra:
            st["viol"] = (interp, rid, cls, args, result, "extra-input", "result depends on inputs %s that %s(...) does not have (%s)" % (extra, term._name(cls), list(in_lhs)))
            return
        for n, d in result.inputs.items():
            if in_lhs[n] != d:
                st["viol"] = (interp, rid, cls, args, result, "input-domain", "input %s: %s vs %s" % (n, d, in_lhs[n]))
                return
        pts = _points(in_lhs, st["seed"])
        # carrier clause of the statement: (max|min, mul) rules are only claimed on non-negative data
        if term._name(cls) == "Contraction":
            r_op, b_op, r_vars, c_terms = term._contraction_parts(args)
            if getattr(r_op, "__name__", "") in ("max", "min") and getattr(b_op, "__name__", "") == "mul":
                for t_ in c_terms:
                    t_in = {n: d for n, d in t_.inputs.items()}
                    for rho in _points(t_in, st["seed"]):
                        try:
                            if np.any(np.asarray(term.tden(t_, rho)) < 0):
                                counters["outside-carrier:negative-factor-under-(max|min,mul)"] = counters.get("outside-carrier:negative-factor-under-(max|min,mul)", 0) + 1
                                # enclosing firings embed this (unclaimed) rewrite in their results: not decidable either
                                st["taint"] = True
                                return
                        except term.UndefinedPoint:
                            continue
        ncmp = 0
        for rho in pts:
            try:
                with np.errstate(all="ignore"):
                    lhs = term.tden_app(cls, args, rho)
                if np.any(np.isnan(np.asarray(lhs, dtype=float))) if np.asarray(lhs).dtype.kind in "fc" else False:
                    continue
                with np.errstate(all="ignore"):
                    rhs = term.tden(result, rho)
            except term.UndefinedPoint:
                continue
            ncmp += 1
            dt = "real" if (np.asarray(lhs).dtype.kind == "f" or np.asarray(rhs).dtype.kind == "f") else "int"
            if np.asarray(lhs).shape != np.asarray(rhs).shape:
                try:
                    rhs = np.broadcast_to(rhs, np.asarray(lhs).shape)
                except ValueError:
                    st["viol"] = (interp, rid, cls, args, result, "shape", "value shapes %s vs %s" % (np.asarray(lhs).shape, np.asarray(rhs).shape))
                    return
            if not observe.values_equal(rhs, lhs, dt):
                pt = {k: (v.tolist() if isinstance(v, np.ndarray) else v) for k, v in rho.items()}
                st["viol"] = (interp, rid, cls, args, result, "value", "at %s: %s(args) = %s but the rule's result = %s" % (pt, term._name(cls), np.asarray(lhs).tolist(), np.asarray(rhs).tolist()))
                return
        counters["fired:" + interp + ":" + rid] = counters.get("fired:" + interp + ":" + rid, 0) + 1
        st["n"] += 1
    except term.Undecidable as u:
        k = "undecidable:" + str(u)
        counters[k] = counters.get(k, 0) + 1
    except (IndexError, KeyError, TypeError, ValueError, AttributeError, OverflowError, ZeroDivisionError) as ex:
        k = "undecidable:reference-error:" + type(ex).__name__
        counters[k] = counters.get(k, 0) + 1


def worker_init():
    global _MON
    _MON = rules.Monitor(_on_firing)
    _MON.install()


def _routes(e, seed):
    import funsor.interpretations as I
    from funsor import interpreter
    from funsor.optimizer import apply_optimizer

    arrays = {}

    def eager():
        lang.build(e, seed, arrays)

    def lazy():
        with I.lazy:
            x = lang.build(e, seed, arrays)
        interpreter.reinterpret(x)

    def normalize():
        with I.normalize:
            x = lang.build(e, seed, arrays)
        interpreter.reinterpret(x)

    def sequential():
        with I.sequential:
            lang.build(e, seed, arrays)

    def optimizer():
        with I.lazy:
            x = lang.build(e, seed, arrays)
        apply_optimizer(x)

    def reflect_inner():
        # the operand of a top-level substitution is built fully lazily, the substitution itself eagerly and lazily
        if e[0] != "S":
            return
        with I.reflect:
            f = lang.build(e[1], seed, arrays)
        vals = {k: lang.build(v, seed, arrays) for k, v in e[2]}
        f(**vals)
        with I.lazy:
            f(**vals)
        with I.reflect:
            r = f(**vals)
        interpreter.reinterpret(r)

    return (("eager", eager), ("lazy", lazy), ("normalize", normalize), ("sequential", sequential), ("optimizer", optimizer), ("reflect-inner", reflect_inner))


def _driver_routes(i):
    import funsor.interpretations as I
    from funsor import interpreter

    name, thunk = drivers()[i]

    def eager():
        thunk()

    def lazy():
        with I.lazy:
            x = thunk()
        interpreter.reinterpret(x)

    def normalize():
        with I.normalize:
            x = thunk()
        interpreter.reinterpret(x)

    return (("eager", eager), ("lazy", lazy), ("normalize", normalize))


def check(case, seed):
    if case[0] == "g":
        e = ("N", 0.0, "real")
        key = "driver:" + drivers()[case[1]][0]
        routes = _driver_routes(case[1])
    else:
        e = lang.tuplify(case[1])
        key = repr(e)
        routes = None
    if _MON is None:
        worker_init()
    st = _STATE
    st.update(viol=None, counters={}, n=0, seed=seed, program=e)
    for name, fn in routes or _routes(e, seed):
        st["taint"] = False
        try:
            with _MON:
                fn()
        except Exception as ex:
            c = "route-raised:%s:%s" % (name, type(ex).__name__)
            st["counters"][c] = st["counters"].get(c, 0) + 1
        if st["viol"]:
            interp, rid, cls, args, result, what, msg = st["viol"]
            f = _features(cls, args, what)
            f["interpretation"] = interp
            text = "rule %s (%s) fired on %s(%s)\n  -> %s\n  %s: %s\n  while running (route %s): %s" % (
                rid, interp, term._name(cls), ", ".join(str(a)[:120] for a in args), str(result)[:300], what, msg, name, key if case[0] == "g" else lang.code(e))
            return core.violation(key, "rule:" + rid, text, list(case), f, "" if case[0] == "g" else lang.snippet(e, seed))
    if st["n"] == 0:
        return core.ok(key, False, "ok:no-new-firing", transitions=0, counters=st["counters"])
    return core.ok(key, True, "ok:firings", transitions=st["n"], counters=st["counters"])


def finalize(rep, tier, seed):
    reg = rules.registered_rules()
    fired = {}
    for k, n in rep.counters.items():
        if k.startswith("fired:"):
            _, interp, rid = k.split(":", 2)
            fired.setdefault(interp, set()).add(rid)
    cov = {}
    never = {}
    for interp, ids in reg.items():
        f = fired.get(interp, set()) & ids
        cov[interp] = "%d/%d" % (len(f), len(ids))
        never[interp] = sorted(ids - f)
    und = {k: v for k, v in rep.counters.items() if k.startswith("undecidable")}
    # keep the evidence small: drop the per-rule counters from the generic counter table
    for k in list(rep.counters):
        if k.startswith(("fired:", "trivial:")):
            del rep.counters[k]
    return {"rules_fired_nontrivial_over_registered": cov, "rules_never_fired_nontrivially": never, "undecidable_firings": und,
            "firings_decided": rep.transitions}
