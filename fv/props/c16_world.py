"""The finite world C16 quantifies over: every live dispatcher of funsor (rule registries and op dispatchers), a pool
of concrete values, a recorded corpus of real ``(cls, args)`` interpretation calls, and the pool of types.

Everything is built once per process, in a deterministic order, and only *reads* funsor's registries."""
import abc
import gc
import importlib
import sys
import typing
from collections import OrderedDict

import numpy as np

from ..ref import dispatch as ref

MODULES = [
    "funsor",
    "funsor.terms",
    "funsor.tensor",
    "funsor.cnf",
    "funsor.delta",
    "funsor.gaussian",
    "funsor.integrate",
    "funsor.constant",
    "funsor.affine",
    "funsor.joint",
    "funsor.sum_product",
    "funsor.optimizer",
    "funsor.adjoint",
    "funsor.approximations",
    "funsor.montecarlo",
    "funsor.precondition",
    "funsor.elbo",
    "funsor.adam",
    "funsor.factory",
    "funsor.einsum",
    "funsor.recipes",
    "funsor.compiler",
    "funsor.distribution",
    "funsor.testing",
]

_WORLD = {}
TIER = {"t": "quick"}
CORPUS_TYPE_BOUND = 80  # distinct argument types of the recorded corpus added to the type pool (first come)


def set_tier(tier):
    TIER["t"] = "thorough" if tier == "thorough" else "quick"


class TupleLike(abc.ABC):
    """A user ABC that tuple is registered for (a plain class that tuple 'subclasses' only virtually)."""


TupleLike.register(tuple)


def _synthetic_dispatchers():
    """Fresh PartialDispatcher objects (never part of funsor's registries) whose signatures put plain classes and
    ABCs at positions that receive tuples / frozensets, next to parametrised Tuple / FrozenSet patterns."""
    import collections.abc as cabc
    import typing

    from funsor.registry import PartialDispatcher
    from funsor.tensor import Tensor
    from funsor.terms import Funsor, Variable

    def impl(name):
        def f(*args):
            return name

        f.__name__ = f.__qualname__ = "synth_" + name
        return f

    out = OrderedDict()
    specs = {
        "containers1": (
            1,
            [
                ((cabc.Iterable,), "iterable"),
                ((cabc.Collection,), "collection"),
                ((cabc.Sequence,), "sequence"),
                ((cabc.Set,), "set"),
                ((tuple,), "tuple"),
                ((typing.Tuple[Funsor, ...],), "tuple_of_funsors"),
                ((typing.Tuple[Tensor, ...],), "tuple_of_tensors"),
                ((typing.Tuple[Tensor, Tensor],), "pair_of_tensors"),
                ((frozenset,), "frozenset"),
                ((typing.FrozenSet[Variable],), "frozenset_of_variables"),
                ((Funsor,), "funsor"),
            ],
        ),
        "userabc1": (
            1,
            [
                ((TupleLike,), "tuplelike"),
                ((typing.Tuple[Tensor, ...],), "tuple_of_tensors"),
                ((cabc.Sized,), "sized"),
            ],
        ),
        "containers2": (
            2,
            [
                ((cabc.Sized, cabc.Collection), "sized_collection"),
                ((cabc.Sequence, cabc.Collection), "sequence_collection"),
                ((cabc.Sequence, cabc.Set), "sequence_set"),
                ((typing.Tuple[Funsor, ...], cabc.Set), "funsors_set"),
                ((typing.Tuple[Funsor, ...], typing.FrozenSet[Variable]), "funsors_variables"),
                ((TupleLike, frozenset), "tuplelike_frozenset"),
                ((Funsor, cabc.Sequence), "funsor_sequence"),
                ((Funsor, typing.Tuple[Tensor, ...]), "funsor_tensors"),
            ],
        ),
    }
    for name, (arity, table) in specs.items():
        d = PartialDispatcher(impl("default_" + name), "synth_" + name)
        for sig, fn in table:
            d.add(sig, impl(name + "_" + fn))
        out["synth|" + name] = {"kind": "synth", "d": d, "arity": arity}
    return out


def unwrap(t):
    """typing_wrap[T] -> T ; anything else unchanged."""
    from funsor.typing import _RuntimeSubclassCheckMeta

    if isinstance(t, _RuntimeSubclassCheckMeta) and getattr(t, "__args__", ()):
        return t.__args__[0]
    return t


def is_variadic(t):
    return hasattr(t, "variadic_type") and isinstance(t, type)


def sig_desc(sig):
    """Stored multipledispatch signature -> reference signature (fixed descriptions, variadic alternatives)."""
    fixed, var = [], None
    for e in sig:
        if is_variadic(e):
            var = tuple(ref.describe(unwrap(x)) for x in e.variadic_type)
        else:
            assert var is None
            fixed.append(ref.describe(unwrap(e)))
    return (tuple(fixed), var)


def sig_text(sd):
    fixed, var = sd
    parts = [ref.text(d) for d in fixed]
    if var is not None:
        parts.append("*[" + " | ".join(ref.text(d) for d in var) + "]")
    return "(" + ", ".join(parts) + ")"


def fname(f):
    """Stable text naming a registered function (never an address)."""
    if f is None:
        return "None"
    inner = getattr(f, "default", None)
    if inner is not None and type(f).__name__ == "PartialDefault":
        return "default:" + fname(inner)
    fn = getattr(f, "fn", None)
    if fn is not None and type(f).__name__ == "WeakPartial":
        return "weakpartial:" + fname(fn)
    code = getattr(f, "__code__", None)
    name = getattr(f, "__qualname__", getattr(f, "__name__", type(f).__name__))
    mod = getattr(f, "__module__", "?")
    if code is not None:
        return "%s.%s@%d" % (mod, name, code.co_firstlineno)
    return "%s.%s" % (mod, name)


# ---------------------------------------------------------------------------
# dispatchers


def _find_dispatchers():
    for m in MODULES:
        importlib.import_module(m)
    from funsor.interpretations import DispatchedInterpretation, StatefulInterpretation
    from funsor.ops.op import Op
    from funsor.registry import KeyedRegistry

    names = {}
    for mn in sorted(sys.modules):
        m = sys.modules[mn]
        if not (mn == "funsor" or mn.startswith("funsor.")) or m is None:
            continue
        for an in sorted(vars(m)):
            a = vars(m)[an]
            reg = None
            if isinstance(a, DispatchedInterpretation):
                reg = a.registry
            elif isinstance(a, type) and issubclass(a, StatefulInterpretation) and a is not StatefulInterpretation:
                reg = a.__dict__.get("registry")
            elif isinstance(a, KeyedRegistry):
                reg = a
            if isinstance(reg, KeyedRegistry):
                names.setdefault(id(reg), (mn + "." + an, reg))
    # anything reachable only through the garbage collector (anonymous interpretations)
    gc.collect()
    anonymous = []
    for o in gc.get_objects():
        if isinstance(o, KeyedRegistry) and id(o) not in names and len(o.registry):
            anonymous.append(o)
    anonymous.sort(key=lambda r: sorted(k.__name__ for k in r.registry))
    regs = OrderedDict()
    for _, (n, r) in sorted(names.items(), key=lambda kv: kv[1][0]):
        if len(r.registry):
            regs[n] = r
    for i, r in enumerate(anonymous):
        regs["anonymous%d" % i] = r

    disp = OrderedDict()
    for rn, r in regs.items():
        for key in sorted(r.registry, key=lambda k: k.__name__):
            disp["%s|%s" % (rn, key.__name__)] = {"kind": "rule", "registry": r, "key": key, "d": r.registry[key]}

    def subs(c, seen):
        for s in c.__subclasses__():
            if s not in seen:
                seen.append(s)
                subs(s, seen)
        return seen

    for oc in sorted(subs(Op, []), key=lambda c: (c.__module__, c.__name__)):
        d = oc.__dict__.get("dispatcher")
        if d is not None and isinstance(oc.arity, int):
            disp["op|%s" % oc.__name__] = {"kind": "op", "opcls": oc, "d": d, "arity": oc.arity}
    disp.update(_synthetic_dispatchers())
    return regs, disp


# ---------------------------------------------------------------------------
# concrete values


def _values():
    import funsor
    from funsor import Bint, Real, Reals, ops
    from funsor.cnf import Contraction
    from funsor.delta import Delta
    from funsor.gaussian import Gaussian
    from funsor.interpretations import lazy, reflect
    from funsor.tensor import Tensor
    from funsor.terms import Binary, Cat, Independent, Lambda, Number, Reduce, Stack, Subs, Unary, Variable

    assert funsor.get_backend() == "numpy"
    out = []

    def add(label, v):
        out.append((label, v))

    # plain python / numpy
    add("int", 1)
    add("float", 2.5)
    add("bool", True)
    add("str", "a")
    add("none", None)
    add("tuple0", ())
    add("tuple_i", (1,))
    add("tuple_is", (1, "a"))
    add("tuple_iii", (1, 2, 3))
    add("tuple_ff", (1.5, 2.5))
    add("tuple_b", (True,))
    add("tuple_nested", ((1,), "a"))
    add("tuple_nested2", (1.0, (2, "b")))
    add("tuple_empty_inside", ((), 1))
    add("fset0", frozenset())
    add("fset_i", frozenset([1, 2]))
    add("fset_s", frozenset(["a", "b"]))
    add("fset_t", frozenset([(1,), (2,)]))
    add("tuple_fset", (frozenset(["a"]), 1))
    add("arr0", np.array(0.5))
    add("arr23", np.ones((2, 3)))
    add("arr_int", np.array([1, 2]))
    add("np_float", np.float64(1.5))
    add("np_int", np.int64(3))
    add("list", [1, 2])
    add("odict", OrderedDict(i=Bint[2]))
    # ops and domains
    add("op_add", ops.add)
    add("op_mul", ops.mul)
    add("op_logaddexp", ops.logaddexp)
    add("op_sub", ops.sub)
    add("op_exp", ops.exp)
    add("op_log", ops.log)
    add("op_neg", ops.neg)
    add("op_null", ops.null)
    add("op_getitem", ops.getitem)
    add("op_max", ops.max)
    add("dom_bint", Bint[2])
    add("dom_real", Real)
    add("dom_reals", Reals[2])
    # funsors
    t_i = Tensor(np.array([0.5, 1.5]), OrderedDict(i=Bint[2]))
    t_ij = Tensor(np.ones((2, 3)), OrderedDict(i=Bint[2], j=Bint[3]))
    t_0 = Tensor(np.array(0.25))
    t_ev = Tensor(np.ones((2, 3)), OrderedDict(i=Bint[2]))
    t_int = Tensor(np.array([1, 0]), OrderedDict(i=Bint[2]), 2)
    x = Variable("x", Real)
    i = Variable("i", Bint[2])
    y = Variable("y", Reals[2])
    add("Number_f", Number(1.5))
    add("Number_i", Number(1, 3))
    add("Tensor_0", t_0)
    add("Tensor_i", t_i)
    add("Tensor_ij", t_ij)
    add("Tensor_ev", t_ev)
    add("Tensor_int", t_int)
    add("Variable_real", x)
    add("Variable_bint", i)
    add("Variable_reals", y)
    with lazy:
        b_tv = Binary(ops.add, t_i, x)
        b_tt = Binary(ops.mul, t_i, t_ij)
        u_v = Unary(ops.exp, x)
        u_t = Unary(ops.neg, t_i)
        r_b = Reduce(ops.add, b_tv, frozenset([i]))
        r_t = Reduce(ops.logaddexp, t_ij, frozenset([Variable("j", Bint[3])]))
    add("Binary_tv", b_tv)
    add("Binary_tt", b_tt)
    add("Unary_v", u_v)
    add("Unary_t", u_t)
    add("Reduce_b", r_b)
    add("Reduce_t", r_t)
    delta = Delta("x", t_i, t_0)
    gauss = Gaussian(
        white_vec=np.array([0.5]), prec_sqrt=np.array([[2.0]]), inputs=OrderedDict(x=Real)
    )
    gauss_i = Gaussian(
        white_vec=np.array([[0.5], [0.25]]), prec_sqrt=np.array([[[2.0]], [[1.0]]]), inputs=OrderedDict(i=Bint[2], x=Real)
    )
    add("Delta", delta)
    add("Gaussian", gauss)
    add("Gaussian_i", gauss_i)
    with reflect:
        c_tt = Contraction(ops.add, ops.mul, frozenset([i]), (t_i, t_ij))
        c_tg = Contraction(ops.null, ops.add, frozenset(), (t_i, gauss))
        c_dtg = Contraction(ops.null, ops.add, frozenset(), (delta, t_i, gauss_i))
        c_gg = Contraction(ops.logaddexp, ops.add, frozenset([x]), (gauss, gauss_i))
        s_v = Subs(b_tv, (("x", t_0),))
        s_g = Subs(gauss, (("x", u_v),))
        lam = Lambda(i, t_i)
        stk = Stack("k", (t_i, t_0))
        cat = Cat("i", (t_i, t_i), "i")
        ind = Independent(b_tv, "x", "i", "x_i") if False else None
    add("Contraction_tt", c_tt)
    add("Contraction_tg", c_tg)
    add("Contraction_dtg", c_dtg)
    add("Contraction_gg", c_gg)
    add("Subs_v", s_v)
    add("Subs_g", s_g)
    add("Lambda", lam)
    add("Stack", stk)
    add("Cat", cat)
    # containers of funsors
    add("tuple_TT", (t_i, t_ij))
    add("tuple_TN", (t_i, Number(1.5)))
    add("tuple_NT", (Number(1.5), t_i))
    add("tuple_TG", (t_i, gauss))
    add("tuple_DTG", (delta, t_i, gauss))
    add("tuple_DG", (delta, gauss))
    add("tuple_GU", (gauss, u_v))
    add("tuple_GGG", (gauss, gauss_i, gauss))
    add("tuple_V", (x,))
    add("fset_vars", frozenset([i]))
    add("fset_vars2", frozenset([x, Variable("z", Real)]))
    add("fset_vars_mixed", frozenset([x, i]))
    add("subs_pairs", (("x", t_0),))
    add("inputs_tuple", (("i", Bint[2]), ("x", Real)))
    try:
        rebuilt = _rebuilt(locals())
    except Exception:  # a library too broken to rebuild terms is reported by the other families
        rebuilt = []
    for label, v in rebuilt:
        add(label, v)
    return out


def _rebuilt(env):
    """Terms obtained by REBUILDING existing terms (reinterpretation under another interpretation, substitution into
    lazy terms, binders over bodies that evaluate to another class, pickle round trips): their class parameters
    must describe the arguments they were rebuilt with, not the arguments of the term they were rebuilt from."""
    import pickle

    from funsor import Bint, Real, ops
    from funsor.interpretations import eager, lazy, normalize, reflect
    from funsor.interpreter import reinterpret
    from funsor.terms import Binary, Independent, Lambda, Reduce, Stack, Subs, Unary, Variable

    t_i, t_ij, t_0, x, i, y = (env[k] for k in ("t_i", "t_ij", "t_0", "x", "i", "y"))
    gauss = env["gauss"]
    j = Variable("j", Bint[3])
    z = Variable("z", Real)
    with lazy:
        inner_tt = Binary(ops.add, t_i, t_i)  # evaluates to a Tensor
        inner_sub = Binary(ops.mul, t_ij, t_i)
        z_lazy = Binary(ops.mul, z, t_0)
        progs = OrderedDict(
            parent_keeps_variable=Binary(ops.add, inner_tt, x),
            parent_unary_over_var=Unary(ops.exp, Binary(ops.add, Unary(ops.neg, t_i), x)),
            nested_parents=Binary(ops.mul, Binary(ops.add, inner_tt, x), Binary(ops.sub, inner_sub, z)),
            lambda_over_lazy=Lambda(i, inner_tt),
            lambda_over_lazy_free=Lambda(i, Binary(ops.add, inner_tt, x)),
            unary_of_lambda=Unary(ops.neg, Lambda(i, inner_tt)),
            reduce_over_lazy=Reduce(ops.add, Binary(ops.add, inner_sub, x), frozenset([j])),
            reduce_logaddexp_gauss=Reduce(ops.logaddexp, Binary(ops.add, Binary(ops.add, gauss, inner_tt), z), frozenset([i])),
            subs_lazy=Subs(Binary(ops.add, inner_tt, x), (("x", Binary(ops.mul, z, t_0)),)),
            stack_of_lazy=Stack("k", (inner_tt, Binary(ops.add, t_i, x))),
            getitem_lazy=Binary(ops.getitem, Lambda(i, inner_tt), Variable("m", Bint[2])),
        )
    out = []
    for name, e in progs.items():
        for iname, interp in (("eager", eager), ("normalize", normalize), ("lazy", lazy), ("reflect", reflect)):
            try:
                with interp:
                    r = reinterpret(e)
            except Exception:
                continue
            out.append(("rebuilt_%s_%s" % (name, iname), r))
        # substitution into the lazy term (a rebuilding traversal of its own), under lazy and under eager
        for iname, interp in (("lazy", lazy), ("eager", eager)):
            for sname, subs in (("x_tensor", {"x": t_0}), ("x_var", {"x": z}), ("i_int", {"i": 1}), ("x_lazy", {"x": z_lazy})):
                try:
                    with interp:
                        r = e(**{k: v for k, v in subs.items() if k in e.inputs})
                except Exception:
                    continue
                out.append(("rebuilt_%s_subs_%s_%s" % (name, sname, iname), r))
        # binder built under eager directly over the lazily built sub-term
        try:
            with eager:
                r = Lambda(Variable("n", Bint[2]), e) if "n" not in e.inputs else None
            if r is not None:
                out.append(("rebuilt_%s_under_lambda" % name, r))
        except Exception:
            pass
        try:
            with reflect:
                r = pickle.loads(pickle.dumps(e))
            out.append(("rebuilt_%s_pickled" % name, r))
            with eager:
                r = pickle.loads(pickle.dumps(e))
            out.append(("rebuilt_%s_pickled_eager" % name, r))
        except Exception:
            pass
    # keep one value per distinct object (cons hashing returns the same object for equal rebuilds)
    seen, kept = set(), []
    for label, v in out:
        if id(v) in seen or not hasattr(v, "_ast_values"):
            continue
        seen.add(id(v))
        kept.append((label, v))
    return kept


# ---------------------------------------------------------------------------
# corpus of real interpretation calls


def _corpus(values, tier):
    """Run small programs under several interpretations with a recording interpretation on top of the stack.

    Returns a list of (key class, args) in execution order, de-duplicated on (key class, deep types of the args).
    The thorough tier additionally records every interpretation call made while building the complete depth-1
    level of the C01 program space (fv.gen) under eager, lazy and normalize."""
    import funsor
    from funsor import Bint, Real, ops
    from funsor.adjoint import adjoint
    from funsor.approximations import argmax_approximate, laplace_approximate, mean_approximate
    from funsor.integrate import Integrate
    from funsor.interpretations import Interpretation, eager, lazy, moment_matching, normalize, reflect, sequential
    from funsor.interpreter import get_interpretation, reinterpret
    from funsor.optimizer import apply_optimizer
    from funsor.terms import Approximate, Variable

    from funsor.typing import deep_type, get_origin

    V = dict(values)
    log = []
    seen = set()

    class Recorder(Interpretation):
        is_total = True

        def __init__(self, base):
            super().__init__("c16_recorder")
            self.base = base

        def interpret(self, cls, *args):
            try:
                k = (get_origin(cls), tuple(map(deep_type, args)))
                if k not in seen:
                    seen.add(k)
                    log.append((cls, args))
            except (NotImplementedError, TypeError):
                pass
            return self.base.interpret(cls, *args)

    def run(interp, thunk):
        with interp:
            base = get_interpretation()
            with Recorder(base):
                try:
                    thunk()
                except Exception:  # a declined program still contributes the calls made before it stopped
                    pass

    t_i, t_ij, t_0, t_ev, t_int = V["Tensor_i"], V["Tensor_ij"], V["Tensor_0"], V["Tensor_ev"], V["Tensor_int"]
    x, i, y = V["Variable_real"], V["Variable_bint"], V["Variable_reals"]
    g, g_i, delta = V["Gaussian"], V["Gaussian_i"], V["Delta"]
    n_f, n_i = V["Number_f"], V["Number_i"]

    programs = [
        lambda: t_i + t_ij,
        lambda: t_i * n_f,
        lambda: n_f + n_f,
        lambda: (t_i + x).reduce(ops.add, "i"),
        lambda: t_ij.reduce(ops.logaddexp, "j"),
        lambda: t_ij.reduce(ops.add),
        lambda: (t_i + x)(x=t_0),
        lambda: t_ij(i=t_int),
        lambda: t_ij(i=1),
        lambda: (-t_i).exp(),
        lambda: x.exp().log(),
        lambda: t_ev[0],
        lambda: t_ev.sum(),
        lambda: (t_i * t_ij).reduce(ops.add, frozenset(["i", "j"])),
        lambda: g + t_i,
        lambda: g + g_i,
        lambda: (g + g_i).reduce(ops.logaddexp, "x"),
        lambda: (g_i + t_i).reduce(ops.logaddexp, "i"),
        lambda: delta + g,
        lambda: (delta + g).reduce(ops.logaddexp, "x"),
        lambda: g(x=t_i),
        lambda: g(x=x * 2.0),
        lambda: -g,
        lambda: g - g_i,
        lambda: Integrate(g, x * x, frozenset([x])),
        lambda: Integrate(delta, x + 1.0, frozenset([x])),
        lambda: Integrate(t_i, t_ij, frozenset([i])),
        lambda: funsor.terms.Lambda(i, t_i),
        lambda: funsor.terms.Stack("k", (t_i, t_0)),
        lambda: funsor.terms.Cat("i", (t_i, t_i)),
        lambda: funsor.terms.Independent(funsor.Tensor(np.ones((2, 2)), OrderedDict(i=Bint[2], x_i=Bint[2])), "x", "i", "x_i"),
        lambda: ops.einsum([t_ev, t_ev], "ab,ab->a"),
        lambda: ops.stack([t_i, t_i]),
        lambda: Approximate(ops.logaddexp, g, g, frozenset([x])),
        lambda: (t_i + x + g).reduce(ops.logaddexp, "x").reduce(ops.add, "i"),
        lambda: (t_i * x).reduce(ops.add, "i").exp(),
        lambda: (x + y[0]) * t_i,
        lambda: (t_i == t_i) | (t_i < t_ij),
        lambda: t_i.align(("i",)),
    ]
    interps = [eager, lazy, normalize, reflect, moment_matching, sequential]
    for interp in interps:
        for p in programs:
            run(interp, p)
    # second-stage programs: optimiser, adjoint, approximations on lazily built terms
    with lazy:
        e1 = (t_i * t_ij).reduce(ops.add, frozenset(["i", "j"]))
        e2 = (t_i + t_ij + t_0).reduce(ops.logaddexp, frozenset(["i"]))
        e3 = (g + g_i + t_i).reduce(ops.logaddexp, frozenset(["x"]))
    for e in (e1, e2, e3):
        run(reflect, lambda: apply_optimizer(e))
        run(eager, lambda: reinterpret(e))
        run(eager, lambda: adjoint(ops.logaddexp, ops.add, e))
        run(eager, lambda: adjoint(ops.add, ops.mul, e))
    for ap in (argmax_approximate, mean_approximate, laplace_approximate):
        run(ap, lambda: Approximate(ops.logaddexp, g + t_i, g, frozenset([x])))
        run(ap, lambda: (g + t_i).approximate(ops.logaddexp, g, "x"))
    # rebuilt terms as arguments of new terms, under every interpretation
    j3 = Variable("j", Bint[3])
    for label, r in values:
        if not label.startswith("rebuilt_"):
            continue
        for interp in (eager, lazy, normalize):
            run(interp, lambda: funsor.terms.Unary(ops.neg, r))
            run(interp, lambda: funsor.terms.Unary(ops.exp, r))
            run(interp, lambda: funsor.terms.Binary(ops.add, r, t_i))
            run(interp, lambda: funsor.terms.Binary(ops.getitem, r, Variable("q", Bint[2])))
            run(interp, lambda: funsor.terms.Reduce(ops.add, r, frozenset([v for v in (i, j3) if v.name in r.inputs])))
            run(interp, lambda: r(x=t_0))
            run(interp, lambda: reinterpret(r))
    if tier == "thorough":
        from .. import gen
        from ..ref import lang

        for e in gen.corpus("quick", depth=1):
            e = lang.tuplify(e)
            for interp in (eager, lazy, normalize):
                run(interp, lambda: lang.build(e, 0))
    return log


# ---------------------------------------------------------------------------
# type pool


def _components(t, acc):
    """t and every type nested in its parameters."""
    try:
        d = ref.describe(t)
    except ref.Unsupported:
        return
    acc.append(t)
    if isinstance(t, type):
        args = getattr(t, "__args__", ()) if ref._is_param_meta(t) else ()
    else:
        args = typing.get_args(t)
    for a in args or ():
        if a is Ellipsis:
            continue
        _components(a, acc)


def _handmade():
    from funsor.cnf import Contraction
    from funsor.delta import Delta
    from funsor.gaussian import Gaussian
    from funsor.ops import AddOp, AssociativeOp, LogaddexpOp, NullOp, Op
    from funsor.tensor import Tensor
    from funsor.terms import Binary, Funsor, Number, Reduce, Unary, Variable

    import collections.abc as cabc

    T, U, F, A = typing.Tuple, typing.Union, typing.FrozenSet, typing.Any
    return [
        A,
        object,
        int,
        bool,
        float,
        str,
        tuple,
        frozenset,
        T,
        F,
        T[int],
        T[bool],
        T[float],
        T[str],
        T[A],
        T[int, int],
        T[int, str],
        T[bool, str],
        T[A, A],
        T[A, int],
        T[int, A],
        T[int, int, int],
        T[int, ...],
        T[bool, ...],
        T[str, ...],
        T[A, ...],
        T[object, ...],
        T[U[int, str], ...],
        T[U[int, str]],
        T[U[int, str], str],
        U[int, str],
        U[str, int],
        U[bool, str],
        U[int, str, float],
        U[T[int], T[str]],
        U[T[int, ...], F[int]],
        F[int],
        F[bool],
        F[str],
        F[A],
        F[U[int, str]],
        F[T[int]],
        F[T[int, ...]],
        F[T[A, ...]],
        T[T[int], str],
        T[T[int, ...], str],
        T[T[A, ...], A],
        T[T[int], ...],
        T[T[int, ...], ...],
        T[F[int], int],
        T[F[str], ...],
        T[tuple, ...],
        T[tuple, str],
        T[frozenset, int],
        # plain classes / ABCs that tuple and frozenset subclass (really or virtually).  collections.abc.Hashable is
        # left out on purpose: its hook accepts every class object with the default __hash__, including other ABCs
        # and multipledispatch's variadic marker, so Python's own relation is not transitive there (Sized <= Hashable,
        # list <= Sized, list is not Hashable) and a (Hashable,) signature ties with the variadic default by hash().
        cabc.Iterable,
        cabc.Collection,
        cabc.Sequence,
        cabc.Set,
        cabc.Sized,
        cabc.Mapping,
        TupleLike,
        U[cabc.Sequence, cabc.Set],
        T[cabc.Sequence, cabc.Sized],
        T[cabc.Sized, ...],
        F[cabc.Sized],
        F[cabc.Sequence],
        # funsor families
        Funsor,
        Tensor,
        Number,
        Variable,
        Number[int, int],
        Number[float, str],
        Number[A, A],
        Number[U[int, float], A],
        Variable[str, A],
        Binary[Op, Funsor, Funsor],
        Binary[AddOp, Tensor, Funsor],
        Binary[AddOp, Tensor, Tensor],
        Binary[AssociativeOp, Funsor, Tensor],
        Binary[AddOp, U[Tensor, Number], Funsor],
        Unary[Op, Funsor],
        Unary[Op, Tensor],
        Reduce[AssociativeOp, Funsor, frozenset],
        Reduce[AddOp, Tensor, F[Variable]],
        Reduce[AddOp, Binary, F],
        Contraction[AssociativeOp, AssociativeOp, frozenset, tuple],
        Contraction[NullOp, AddOp, frozenset, T[Funsor, ...]],
        Contraction[NullOp, AddOp, frozenset, T[Tensor, ...]],
        Contraction[NullOp, AddOp, frozenset, T[Tensor, Gaussian]],
        Contraction[NullOp, AddOp, frozenset, T[Funsor, Funsor]],
        Contraction[U[NullOp, LogaddexpOp], AddOp, frozenset, T[U[Tensor, Number], Gaussian]],
        Contraction[LogaddexpOp, AddOp, F[Variable], T[Gaussian, ...]],
        T[Funsor, ...],
        T[Tensor, ...],
        T[Tensor, Tensor],
        T[Tensor, Number],
        T[Tensor, Gaussian],
        T[Delta, Tensor, Gaussian],
        T[Funsor, Funsor],
        T[U[Tensor, Number], ...],
        T[U[Tensor, Number], Gaussian],
        T[Delta, U[Number, Tensor, Gaussian]],
        T[U[Gaussian, Unary], ...],
        U[Tensor, Number],
        U[Number, Tensor, Gaussian],
        U[Funsor, int],
        F[Variable],
        F[Funsor],
        F[Variable[str, A]],
    ]


def _pool(disp, values, corpus):
    from funsor.typing import deep_type

    acc = []
    for dn, info in disp.items():
        for sig in info["d"].funcs:
            for e in sig:
                if is_variadic(e):
                    for x in e.variadic_type:
                        _components(unwrap(x), acc)
                else:
                    _components(unwrap(e), acc)
    n_sig = len(acc)
    for label, v in values:
        if label.startswith("rebuilt_"):
            continue  # checked in the mem family; their (large) precise types are not added to the pool
        try:
            _components(deep_type(v), acc)
        except NotImplementedError:
            pass
    for t in _handmade():
        _components(t, acc)
    # a bounded number of corpus argument types (distinct, first come)
    extra = []
    for cls, args in corpus:
        for a in args:
            try:
                extra.append(deep_type(a))
            except NotImplementedError:
                pass
    pool = OrderedDict()
    for t in acc:
        pool.setdefault(ref.text(ref.describe(t)), t)
    n_main = len(pool)
    for t in extra:
        if len(pool) >= n_main + CORPUS_TYPE_BOUND:
            break
        try:
            pool.setdefault(ref.text(ref.describe(t)), t)
        except ref.Unsupported:
            pass
    # stable order: simplest (shortest text) first, then alphabetical
    items = sorted(pool.items(), key=lambda kv: (len(kv[0]), kv[0]))
    return OrderedDict(items), {"from_signatures_with_components": n_sig, "before_corpus": n_main}


def world():
    tier = TIER["t"]
    if tier not in _WORLD:
        regs, disp = _find_dispatchers()
        values = _values()
        with np.errstate(all="ignore"):
            corpus = _corpus(values, tier)
        pool, stats = _pool(disp, values, corpus)
        _WORLD[tier] = {"registries": regs, "dispatchers": disp, "values": values, "corpus": corpus, "pool": pool, "pool_stats": stats}
    return _WORLD[tier]
