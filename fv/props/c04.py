"""C04 -- substitution is simultaneous, capture-avoiding function application.

f ranges over a pool with 1-3 representatives of every term kind of L (tensors, lazy binary/unary over real
variables, lazy and eager reductions, Stack, Cat, Slice, Lambda, Independent, Contraction (built under normalize),
Subs (chaining)); the substitution map ranges over ALL maps that give each input of f one of: absent, a number, an
index tensor over {} / a fresh name / a name f already has / the key itself, a fresh variable, a variable named like
another input of f (collision, swap, diagonal), a Slice (step 1 and 2), an integer / real expression; plus keys that
are not inputs of f.  Every case is decided on its whole finite input space against den(f, rho[x -> den(v, rho)]).
"""
import itertools

from .. import core, gen, observe
from ..ref import lang
from .c01 import features as c01_features

ID = "C04"
LEVEL_RULE = (
    "f from a fixed pool of term kinds x all substitution maps from the per-input value menu (quick: all single-key "
    "maps, all pairs over the first 9 menu entries, all triples over the first 4; thorough: all maps) x 5 (build, apply) "
    "interpretation modes; plus chained pairs f(a)(b) vs the fused map; non-trivial = the substitution changed the reference "
    "table or the inputs and at least one mode completed; distinct = (f, map) text"
)
ASSUMPTIONS = [
    "numpy backend; reference denotation fv.ref.lang trusted (simultaneity is literal there: values are evaluated in the caller's environment, then the body in the extended one)",
    "a mode that raises or leaves a result that cannot be grounded is a decline",
]

MODES = (
    ("eager", "eager"),  # f built eagerly, substituted eagerly
    ("lazy", "eager"),  # f kept lazy (built under lazy), substituted under eager
    ("lazy", "lazy"),  # substituted under lazy, then reinterpreted eagerly
    ("reflect", "reflect"),  # a lazily built Subs term: inputs must be EXACTLY the predicted ones
    ("normalize", "normalize"),
    ("reflect", "eager"),  # f is a fully lazy term (e.g. a Subs object): substitution into it under eager
    ("reflect", "lazy"),
)


def f_pool(tier):
    T, N, V = gen.T, gen.N, gen.V
    ti, tij, tji2, tik = T("i", lid=61), T("ij", lid=62), T("ji", (2,), lid=63), T("ik", lid=64)
    tj, tijk = T("j", lid=65), T("ijk", lid=66)
    x, y = V("x", "real"), V("y", "real", (2,))
    idx_i3 = T("i", dtype=3, contents=[2, 0])
    pool = [
        ti,
        tij,
        tji2,
        tik,
        T("i", dtype=3, contents=[2, 0]),
        ("B", "mul", ti, x),
        ("B", "add", ("B", "mul", tij, x), tj),
        ("U", "exp", (), ("B", "sub", x, tj)),
        ("B", ("getitem", 0), y, ("V", "k", 2, ())),
        ("B", "mul", tji2, y),
        ("B", ("getitem", 1), V("y2", "real", (2, 2)), ("V", "k", 2, ())),  # y2[:, k]: index behind an event axis
        ("R", "add", ("B", "mul", tij, x), (("j", 3),)),
        ("R", "logaddexp", tij, (("j", 3),)),
        ("R", "max", ("B", "add", tik, x), (("k", 2),)),
        ("Stack", "k", (ti, tij)),
        ("Stack", "k", (("B", "mul", ti, x), tj)),
        ("Cat", "i", (ti, tik), "i"),
        ("Cat", "l", (tij, tij), "j"),
        ("G", 1, (("i", 2, ()), ("u", "real", ()), ("v", "real", ()), ("w2", "real", ()))),
        ("G", 2, (("u", "real", ()), ("v", "real", (2,)))),
        # a Gaussian inside a lazy sum whose input order differs from the Gaussian's own
        ("B", "add", ("B", "add", ("B", "mul", N(2.0), V("w2", "real")), V("u", "real")), ("G", 3, (("u", "real", ()), ("v", "real", ()), ("w2", "real", ())))),
        ("D", "b5", N(2, 5), N(0.5)),  # a point mass over a bounded-integer name (sliced / indexed / renamed)
        ("D", "b5", T("i", dtype=5, contents=[4, 2]), T("i", lid=77)),
        ("D", "u", N(2.5), T("i", lid=75)),
        ("D", "u", T("i", lid=76), N(0.5)),
        T(("i", "k", "h"), lid=73, sizes={"h": 2}),  # three inputs of one size: chains a->b, b->c with c kept
        ("B", "mul", T(("i", "k", "h"), lid=74, sizes={"h": 2}), x),
        ("Cat", "p", (T(("p",), lid=68, sizes={"p": 5}), T(("p",), lid=69, sizes={"p": 4})), "p"),
        ("Cat", "p", (T(("p", "i"), lid=70, sizes={"p": 3}), T(("p",), lid=71, sizes={"p": 2}), T(("i", "p"), lid=72, sizes={"p": 4})), "p"),
        ("Slice", "i", 0, 3, 1, 3),
        ("Slice", "j", 1, 4, 2, 4),
        ("Lam", "j", 3, tij),
        ("Lam", "j", 3, ("B", "mul", tij, x)),
        ("B", "add", ti, ("B", "mul", tj, x)),
        ("S", tij, (("i", V("f", 2)),)),
        ("S", ("B", "mul", tij, x), (("j", idx_i3), ("x", ("B", "add", V("w", "real"), N(1.0))))),
        ("B", "lt", tij, x),
        ("Ind", ("B", "mul", T("k", lid=67), ("B", "mul", x, ti)), "r", "k", "x"),
        ("Cat", "i", (("B", "mul", ti, x), tik), "i"),  # a Cat whose parts take a real input: values indexed by the Cat's own name
        ("Stack", "k", (("B", "mul", tj, x), tj)),
    ]
    if tier == "thorough":
        pool += [tijk, ("B", "add", tijk, ("B", "mul", tj, x)), ("Stack", "k", (tj, tij, ti)), ("R", "add", tijk, (("k", 2),))]
    return pool


def maps_for(f, tier):
    t = lang.ty(f)
    names = list(t.inputs)
    menus = {n: gen.subst_values(n, t.inputs[n], tier, siblings=t.inputs) for n in names}
    # renamings first: chains / cycles of renamings among the term's own inputs are the sharpest cases
    def prio(n, v):
        if v[0] == "V":
            return 0
        if v[0] in ("B", "U") and any(("'%s'" % o) in repr(v) for o in names if o != n):
            return 1  # an expression mentioning a sibling input of f
        return 2

    for n in names:
        menus[n] = sorted(menus[n], key=lambda v, n=n: prio(n, v))  # stable: keeps the menu order inside a class
    out = []
    for n in names:
        for v in menus[n]:
            out.append(((n, v),))
    lim2 = None if tier == "thorough" else 12
    lim3 = 7 if tier == "thorough" else 4
    for a, b in itertools.combinations(names, 2):
        for va in menus[a][:lim2]:
            for vb in menus[b][:lim2]:
                out.append(((a, va), (b, vb)))
        # key order must not matter: a few reversed
        for va in menus[a][:3]:
            for vb in menus[b][:3]:
                out.append(((b, vb), (a, va)))
    for a, b, c in itertools.combinations(names, 3):
        for va in menus[a][:lim3]:
            for vb in menus[b][:lim3]:
                for vc in menus[c][:lim3]:
                    out.append(((a, va), (b, vb), (c, vc)))
    if names:
        out.append((("q", gen.N(0, 2)),))
        out.append((("q", gen.N(0, 2)), (names[0], menus[names[0]][0])))
    return out


def cases(tier):
    out = []
    pool = f_pool(tier)
    for f in pool:
        for m in maps_for(f, tier):
            e = ("S", f, m)
            if lang.well_typed(e):
                out.append(["subs", e])
    # chaining: f(a)(b) vs fused, over reduced menus
    for f in pool[:14]:
        t = lang.ty(f)
        names = list(t.inputs)
        for n in names:
            for va in gen.subst_values(n, t.inputs[n], tier)[:10]:
                inner = ("S", f, ((n, va),))
                if not lang.well_typed(inner):
                    continue
                ti = lang.ty(inner)
                for n2 in list(ti.inputs):
                    for vb in gen.subst_values(n2, ti.inputs[n2], tier)[:8]:
                        e = ("S", inner, ((n2, vb),))
                        if lang.well_typed(e):
                            out.append(["chain", e])
    return out


def bounds(tier):
    pool = f_pool(tier)
    return {"f_pool": len(pool), "modes": ["%s->%s" % m for m in MODES], "menu_sizes": "up to 14 values per integer input, 7 per real input"}


def describe(case):
    return case[0] + ": " + lang.code(lang.tuplify(case[1]))


def _interp(name):
    import funsor.interpretations as I

    return getattr(I, name)


def _apply(f_term, m, seed, build_mode, apply_mode, arrays):
    """Build f under build_mode, the values and the substitution under apply_mode."""
    from funsor import interpreter

    with _interp(build_mode):
        f = lang.build(f_term, seed, arrays)
    with _interp(apply_mode):
        vals = {k: lang.build(v, seed, arrays) for k, v in m}
        r = f(**vals)
    lazy_r = r
    if apply_mode != "eager":
        r = interpreter.reinterpret(r)
    return lazy_r, r


def check(case, seed):
    kind, e = case[0], lang.tuplify(case[1])
    key = kind + ":" + repr(e)
    t, tbl = lang.table(e, seed)
    if all(v is None for _, v in tbl):
        return core.skip(key, "reference-undefined-everywhere")
    f_term, m = e[1], e[2]
    tf = lang.ty(f_term)
    changed = any(k in tf.inputs for k, _ in m)
    n_ok = 0
    counters = {}
    if kind == "chain":
        # f(a)(b) must equal the single fused substitution f(a∘b ∪ b)
        inner_f, a = f_term[1], f_term[2]
        b = m
        fused = tuple((k, ("S", v, b)) for k, v in a) + tuple((k, v) for k, v in b if k not in dict(a))
        variants = [("chained", f_term, m), ("fused", inner_f, fused)]
    else:
        variants = [("direct", f_term, m)]
    for vname, ft, mm in variants:
        for build_mode, apply_mode in MODES:
            label = "%s:%s->%s" % (vname, build_mode, apply_mode)
            try:
                lazy_r, r = _apply(ft, mm, seed, build_mode, apply_mode, {})
            except Exception as ex:
                c = "decline:%s:%s" % (label.split(":")[1], type(ex).__name__)
                counters[c] = counters.get(c, 0) + 1
                continue
            if apply_mode == "reflect" and vname != "fused":
                # a lazily built substitution declares exactly the predicted inputs
                from funsor.terms import Subs

                if isinstance(lazy_r, Subs) and set(lazy_r.inputs) != set(t.inputs):
                    return _viol(e, seed, key, label, "violation:lazy-inputs", "lazy Subs declares inputs %s, predicted %s" % (list(lazy_r.inputs), list(t.inputs)), kind)
            k2, msg = observe.compare(r, t, tbl)
            if k2.startswith("violation"):
                return _viol(e, seed, key, label, k2, msg, kind)
            if k2 == "ok":
                n_ok += 1
            else:
                c = "decline:%s:%s" % (label.split(":")[1], k2.split(":")[-1])
                counters[c] = counters.get(c, 0) + 1
    if n_ok == 0:
        return core.decline(key, "no-mode-completed", counters=counters)
    return core.ok(key, changed, "ok:%s:%s" % (kind, lang.head(f_term)), transitions=n_ok, counters=counters)


def _viol(e, seed, key, label, k2, msg, kind):
    f = c01_features(e)
    f["mode"] = label
    f["what"] = k2.split(":", 1)[1]
    f["kind"] = kind
    keys = {k for k, _ in e[2]}
    subs_terms = lang.subterms(e[1])
    f["into_gaussian"] = any(s[0] == "G" for s in subs_terms)
    # an affine (expression) value that mentions a name which the same substitution also binds
    mentioned = {x[1] for _, v in e[2] if v[0] in ("B", "U") for x in lang.subterms(v) if x[0] == "V" and x[1] in keys}
    # keys that are free inputs of ANOTHER key's value (of any kind: tensor, expression, variable)
    free_in_other = {k for k in keys for k2, v in e[2] if k2 != k and k in lang.ty(v).inputs}
    f["key_free_in_other_value_bound_to"] = sorted({v[0] for k, v in e[2] if k in free_in_other})

    def kind_of(v):
        if v[0] in ("V", "N", "T", "Slice"):
            return "simple"
        ops_ = {x[1] for x in lang.subterms(v) if x[0] in ("B", "U")}
        if lang.ty(v).out[0] == "real" and ops_ <= {"add", "sub", "mul", "neg"} and all(x[0] in ("B", "U", "V", "N", "T") for x in lang.subterms(v)):
            return "affine"
        return "lazy"  # an expression funsor cannot absorb: handled by wrapping Subs(result, lazy_subs)

    f["key_free_in_other_value_bound_to_kind"] = sorted({kind_of(v) for k, v in e[2] if k in free_in_other})
    f["expression_value_mentions_substituted_key"] = bool(mentioned)
    # what the mentioned keys are themselves bound to (B = another expression, T/N = a constant, V = a renaming)
    f["mentioned_key_bound_to"] = sorted({v[0] for k, v in e[2] if k in mentioned})
    return core.violation(
        key,
        "S:" + lang.head(e[1]),
        "%s in mode %s: %s\n  %s" % (k2, label, msg, lang.code(e)),
        [kind, e],
        f,
        lang.snippet(e, seed),
    )
