"""C01 -- eager evaluation returns the mathematical value of the expression.

Explorer E-prog: every L-term up to the tier's depth is built under the default (eager) interpretation through
the public API and compared, on its whole finite input space, with the point-wise reference denotation.
"""
from .. import core, gen, observe
from ..ref import lang

ID = "C01"
LEVEL_RULE = (
    "terms of the language L enumerated by level (depth 1 complete over the leaf alphabet, deeper levels over the "
    "pruned pool: first term per (root constructor+op, input names, output type)); a case is non-trivial when the "
    "reference is defined at >=1 point and the funsor result was grounded and compared at every defined point; "
    "distinct = distinct term text"
)
ASSUMPTIONS = [
    "numpy backend; FUNSOR_DEBUG/PROFILE off",
    "real tensor contents fixed by the generic fill (function of VERIF_SEED); integer/boolean contents explicit",
    "reference denotation fv.ref.lang.den is trusted (unit-tested in /verif/tests)",
    "float comparison |a-b| <= 1e-9 + 1e-7|b|; points where the reference is NaN/undefined are skipped",
]


def bounds(tier):
    return {
        "names_sizes": {k: v for k, v in gen.SIZES.items() if tier == "thorough" or k in "ijk"},
        "depth": 3 if tier == "thorough" else 2,
        "leaf_alphabet": len(gen.all_leaves(tier)),
        "companion_pool": len(gen.companion(tier)),
        "families": list(gen.FAMILIES),
        "pruning": "first 1 term per (head, substitution-value kinds / unrelated-reduction bit, input names, output type)",
    }


def cases(tier):
    if tier == "thorough":
        return gen.spines() + gen.corpus(tier, depth=3)
    return gen.spines() + gen.corpus(tier, depth=2)


def describe(case):
    return lang.code(lang.tuplify(case))


# -- the documented core fragment: completion to a concrete tensor is demanded ------------------------------

_CORE_REDUCE = ("add", "mul", "max", "min", "logaddexp", "and", "or")


def number_valued(e):
    """Pure Python-scalar arithmetic (Number leaves only): edge values raise Python errors, not demanded."""
    if e[0] == "N":
        return True
    if e[0] in ("U", "B"):
        return all(number_valued(c) for c in lang.children(e))
    return False


def is_core(e):
    """Ground, integer-indexed tensor expressions of the documented core fragment (DESIGN 2.6).  Conservative."""
    tag = e[0]
    if tag in ("T", "N"):
        return True
    if tag in ("V", "Ind", "Ein", "Fin", "Slice"):
        return False
    t = lang.ty(e)
    if any(d[0] == "real" or d[1] != () for d in t.inputs.values()):
        return False
    if tag in ("U", "B") and number_valued(e):
        return False
    if tag == "U":
        if e[3][0] == "N" and e[1] in ("reshape", "getslice"):
            return False  # Numbers are Python scalars: no output-shape operations
        return e[1] not in lang.ARG_REDUCTIONS and is_core(e[3])
    if tag == "B":
        if isinstance(e[1], tuple) and e[3][0] not in ("T", "N"):
            return False  # computed indices (e.g. comparison results carry boolean data): not demanded
        return is_core(e[2]) and is_core(e[3])
    if tag == "R":
        own = lang.ty(e[2]).inputs
        return all(n in own for n, _ in e[3]) and is_core(e[2])
    if tag == "S":
        if not is_core(e[1]) or e[1][0] not in ("T",):
            return False
        own = lang.ty(e[1]).inputs
        for k, v in e[2]:
            if v[0] == "N" or v[0] == "T":
                continue
            if v[0] == "V" and v[1] not in own:
                continue
            return False
        return True
    if tag == "Lam":
        return is_core(e[3]) and e[3][0] == "T"
    if tag == "Stack":
        return all(is_core(p) and p[0] == "T" for p in e[2])
    return False


_BOOL_PRODUCERS = lang.COMPARE + lang.BOOLEAN + lang.EVENT_REDUCTIONS_BOOL


def _int_floordiv(e):
    return e[0] == "B" and e[1] == "floordiv" and lang.ty(e).out[0] != "real"


def _bool_index(e):
    """An index / substituted value computed by a comparison or boolean op (its data are numpy booleans)."""
    if e[0] == "B" and isinstance(e[1], tuple):
        # the index expression contains a comparison / boolean op whose numpy-boolean data reach the index
        return any(s[0] in ("B", "U") and s[1] in _BOOL_PRODUCERS for s in lang.subterms(e[3]))
    if e[0] == "S":
        return any(v[0] in ("B", "U") and v[1] in _BOOL_PRODUCERS for _, v in e[2])
    return False


def features(e):
    """Structured description of a (minimal failing) term's root, for known-finding predicates."""
    f = {"head": lang.head(e)}
    subs = lang.subterms(e)
    f["contains_int_floordiv"] = any(_int_floordiv(s) for s in subs)
    f["boolean_data_as_index"] = _bool_index(e)
    tag = e[0]
    if tag == "R":
        own = lang.ty(e[2]).inputs
        f["op"] = e[1]
        f["reduced_var_absent_from_arg"] = any(n not in own for n, _ in e[3])
        f["all_reduced_absent"] = all(n not in own for n, _ in e[3])
        f["arg_has_real_input"] = any(d[0] == "real" for d in own.values())
    if tag == "S":
        own = lang.ty(e[1]).inputs
        kinds = []
        for k, v in e[2]:
            if k not in own:
                kinds.append("ignored-key")
            elif v[0] == "V":
                if v[1] == k:
                    kinds.append("var-self")
                elif v[1] in own:
                    kinds.append("var-colliding")
                else:
                    kinds.append("var-fresh")
            elif v[0] == "T":
                kinds.append("tensor")
            else:
                kinds.append(v[0])
        f["value_kinds"] = sorted(set(kinds))
        f["arg_head"] = lang.head(e[1])
    if tag == "U":
        f["op"] = e[1]
        f["operand_head"] = lang.head(e[3])
    if tag == "B":
        f["op"] = e[1] if not isinstance(e[1], tuple) else e[1][0]
    return f


def evaluate(e, seed, interp=None):
    """Build e (eagerly by default) and compare with the reference.  Returns (kind, message)."""
    t, tbl = lang.table(e, seed)
    if all(v is None for _, v in tbl):
        return "ok-undefined", ""
    try:
        if interp is None:
            r = lang.build(e, seed)
        else:
            with interp:
                r = lang.build(e, seed)
    except Exception as ex:  # a decline
        return "decline:raised:" + type(ex).__name__, str(ex)[:200]
    return observe.compare(r, t, tbl)


def localise(e, seed):
    """Smallest sub-term (post-order) whose own eager evaluation disagrees with the reference."""
    for s in lang.subterms(e):
        if s[0] in ("T", "N", "V"):
            continue
        kind, msg = evaluate(s, seed)
        if kind.startswith("violation"):
            return s, kind, msg
    return None, None, None


def check(case, seed):
    e = lang.tuplify(case)
    key = repr(e)
    kind, msg = evaluate(e, seed)
    if kind == "ok":
        return core.ok(key, True, "ok:" + lang.head(e), transitions=lang.size(e))
    if kind == "ok-undefined":
        return core.skip(key, "reference-undefined-everywhere")
    if kind.startswith("decline"):
        if is_core(e):
            return core.violation(
                key,
                "core-decline:" + lang.head(e),
                "core-fragment expression did not complete to a concrete tensor: %s %s\n  %s" % (kind, msg, lang.code(e)),
                e,
                dict(features(e), what="core-decline"),
                lang.snippet(e, seed),
            )
        return core.decline(key, kind.split(":", 1)[1].split(":")[0] + ":" + kind.rsplit(":", 1)[-1], transitions=lang.size(e))
    # violation: localise
    s, skind, smsg = localise(e, seed)
    if s is None:
        s, skind, smsg = e, kind, msg
    f = features(s)
    f["what"] = skind.split(":", 1)[1]
    return core.violation(
        key,
        lang.head(s),
        "%s: %s\n  minimal failing sub-term: %s\n  in program: %s" % (skind, smsg, lang.code(s), lang.code(e)),
        e,
        f,
        lang.snippet(s, seed),
        extra={"minimal": s},
        transitions=lang.size(e),
    )
