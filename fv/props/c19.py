"""C19 -- conversions and re-alignment never move data to the wrong name.

Four exhaustively enumerated families (all on the real library, each against plain index arithmetic):

  rt / rtn   to_funsor(x, output, dim_to_name) -> check the packed funsor -> to_data(f, name_to_dim) for the
             inverse map and for every other injective placement of the names on negative dims
  al         x.align(names) for Tensor, lazy Binary/Unary, Align, Contraction, Gaussian, Delta, Constant
  at / at1   align_tensors(x, y, expand) and align_tensor(new_inputs, x, expand)
  mat        Tensor.materialize(x) for a pool of lazy integer-valued terms

The reference never calls a funsor rule: cells are located by explicit stride arithmetic on the array the
harness itself created, lazy terms are denoted by small Python closures over those arrays.
"""
import itertools
import json
from collections import OrderedDict

import numpy as np

from .. import core, observe
from ..ref import lang

ID = "C19"
LEVEL_RULE = (
    "families enumerated simplest-first: (rt) every array shape up to the rank/size bound x event rank x every "
    "subset of batch dims x every assignment of distinct names to it x dtype, and inside each case every injective "
    "placement of the k packed names on negative dims -1..-(k+1) (k = 5: -1..-5); (al) every ordered subset of the name pool as source "
    "order x every ordered subset of the source's inputs as align argument x construct kind x interpretation; "
    "(at) every pair of ordered subsets of the pool x event shapes x expand; (mat) every term of the stated pool. "
    "non-trivial = a named non-unit dim was packed and unpacked / the requested order differs from the source order "
    "and >= 2 points were compared / a permutation or broadcast was needed / the term was lazy; "
    "distinct = distinct case descriptor"
)
ASSUMPTIONS = [
    "numpy backend",
    "round-trip arrays hold arange (+0.25*VERIF_SEED for real dtype) so every cell is distinct; other real leaves "
    "use the generic fill (function of VERIF_SEED); integer contents explicit",
    "to_funsor/to_data/Tensor.align/align_tensor(s) called with valid arguments (every non-unit batch dim named, "
    "injective maps) must complete: an exception there is reported as a violation (what=raised); the documented "
    "ValueError for an unnamed batch dim of size != 1 is a decline; for every other class an exception is a decline",
    "inputs order is required to equal `names` only when names is a permutation of all inputs (Funsor.align doc); "
    "for a proper subset the names-first rule is required of Tensor and Gaussian (which implement it explicitly), "
    "Delta must keep the requested relative order of its fresh names; other classes only have their order recorded",
    "returned arrays are compared up to leading size-1 batch dims (dims are addressed from the right)",
    "Gaussian data are additionally read directly: f(v) = -0.5|v @ prec_sqrt - white_vec|^2 with v the "
    "concatenation of the real inputs in .inputs order (class docstring)",
    "float comparison |a-b| <= 1e-9 + 1e-7|b| (values are only moved, added or multiplied)",
]

NAMES = "abcde"
POOL = OrderedDict([("a", 2), ("b", 3), ("c", 2), ("d", 2)])  # three names share a size on purpose
ATPOOL = OrderedDict([("a", 2), ("b", 3), ("c", 2), ("d", 3)])
GPOOL = OrderedDict([("a", ("bint", 2)), ("b", ("bint", 3)), ("x", ("real", ())), ("y", ("real", (2,)))])
TENSOR_KINDS = ("tensor_e0", "tensor_e1", "tensor_e2", "tensor_bint")
LAZY_KINDS = ("binary", "unary", "binvar", "align2", "contraction", "contraction_red")
OTHER_KINDS = ("gaussian", "delta", "constant")


def _prod(xs):
    p = 1
    for v in xs:
        p *= int(v)
    return p


def ordered_subsets(items, sizes=None):
    items = list(items)
    out = []
    for k in range(len(items) + 1):
        if sizes is not None and k not in sizes:
            continue
        for p in itertools.permutations(items, k):
            out.append(list(p))
    return out


# ---------------------------------------------------------------------------
# bounds / cases


def bounds(tier):
    th = tier == "thorough"
    return {
        "rt_max_rank": 5 if th else 4,
        "rt_sizes": [1, 2, 3, 4] if th else [1, 2, 3],
        "rt_event_ranks": [0, 1, 2],
        "rt_dtypes": ["real", "bint"],
        "rt_name_assignments": "every subset of batch dims x every permutation of the first k names of 'abcde'",
        "rt_placements": "every injective map of the k packed names into dims -1..-(k+1) (k <= 4); every permutation of -1..-5 for k = 5",
        "rtn": "output=None: every non-empty key subset of -1..-rank (x name permutations), real dtype",
        "al_pool": dict(POOL),
        "al_kinds": list(TENSOR_KINDS + LAZY_KINDS + OTHER_KINDS),
        "al_names": "every ordered subset (incl. every permutation) of the source inputs, <= 4 inputs",
        "al_interpretations": ["eager", "lazy", "reflect", "normalize"] if th else ["eager", "lazy"],
        "ale": "every lazy kind x every permutation as align argument (source orders: all if thorough else sorted prefix "
        "and its reverse) x align under eager/lazy (quick: lazy only for the Contraction kinds); the aligned term r as left and right operand of sub/truediv/lt with "
        "a Tensor, a Number and another aligned term, under neg, and under reduce(add); %d expressions" % len(ALE_EXPRS),
        "at_pool": {k: v for k, v in ATPOOL.items() if th or k != "d"},
        "at_event_shapes": [[], [2]],
        "at_enumeration": "align_tensor: every ordered subset as new_inputs x every ordered sub-subset as x; "
        "align_tensors: every pair of ordered subsets of <= 3 names; expand in {False, True}",
        "mat_pool_terms": len(mat_pool(tier)),
        "mat_interpretations": ["eager", "lazy"],
    }


def rt_cases(tier):
    th = tier == "thorough"
    maxrank = 5 if th else 4
    sizes = (1, 2, 3, 4) if th else (1, 2, 3)
    out = []
    for rank in range(maxrank + 1):
        for shape in itertools.product(sizes, repeat=rank):
            for ev in range(min(2, rank) + 1):
                nb = rank - ev
                for k in range(nb + 1):
                    for dims in itertools.combinations(range(nb), k):
                        for nm in itertools.permutations(NAMES[:k]):
                            named = [[d, n] for d, n in zip(dims, nm)]
                            for dtype in ("real", "bint"):
                                out.append(["rt", list(shape), ev, dtype, named])
            # output=None: the leftmost key decides where the event shape starts
            for k in range(1, rank + 1):
                for keys in itertools.combinations(range(1, rank + 1), k):
                    for nm in itertools.permutations(NAMES[:k]):
                        out.append(["rtn", list(shape), [[-key, n] for key, n in zip(keys, nm)]])
    out.append(["rtg", "float64", []])
    out.append(["rtg", "int64", []])
    out.append(["rtg", "float64", [[-1, "a"]]])
    out.append(["rtg", "int64", [[-1, "a"]]])
    return out


def al_cases(tier):
    th = tier == "thorough"
    out = []
    names = list(POOL)
    for n in range(len(names) + 1):
        for order in itertools.permutations(names, n):
            order = list(order)
            for req in ordered_subsets(order):
                for kind in TENSOR_KINDS:
                    out.append(["al", kind, order, req, "eager"])
    interps = ["eager", "lazy", "reflect", "normalize"] if th else ["eager", "lazy"]
    for n in range(1, len(names) + 1):
        for order in itertools.permutations(names, n):
            order = list(order)
            for req in ordered_subsets(order):
                for kind in LAZY_KINDS:
                    for it in interps:
                        out.append(["al", kind, order, req, it])
    ginterps = ["eager", "reflect"]
    gnames = list(GPOOL)
    for n in range(1, 5):
        for order in itertools.permutations(gnames, n):
            if not any(GPOOL[v][0] == "real" for v in order):
                continue
            order = list(order)
            for req in ordered_subsets(order):
                for it in ginterps:
                    out.append(["al", "gaussian", order, req, it])
    # Delta: term order x every ordered subset of its four inputs (non-fresh names decline)
    for order in (["x", "y"], ["y", "x"], ["x"]):
        inputs = ["x", "a", "b"] + (["y"] if "y" in order else [])
        for req in ordered_subsets(inputs):
            for it in ginterps:
                out.append(["al", "delta", order, req, it])
    # Constant: const order x arg order x every ordered subset of the four inputs
    for corder in (["u", "v"], ["v", "u"]):
        for aorder in (["a", "b"], ["b", "a"]):
            for req in ordered_subsets(corder + aorder):
                for it in ginterps:
                    out.append(["al", "constant", corder + aorder, req, it])
    return out


def at_cases(tier):
    th = tier == "thorough"
    names = [k for k in ATPOOL if th or k != "d"]
    subs = ordered_subsets(names)
    out = []
    for new in subs:
        for expand in (0, 1):
            out.append(["atn", new, expand])
        for xo in ordered_subsets(new):
            for ev in ([], [2]):
                for expand in (0, 1):
                    out.append(["at1", new, xo, ev, expand])
    pair_subs = subs if not th else [s for s in subs if len(s) <= 3]
    for xo in pair_subs:
        for yo in pair_subs:
            for evx in ([], [2]):
                for evy in ([], [2]):
                    for expand in (0, 1):
                        out.append(["at", xo, yo, evx, evy, expand])
    return out


def mat_pool(tier):
    V = lambda n, s: ["V", n, s]  # noqa
    N = lambda v, s: ["N", v, s]  # noqa
    i3, j2, k1 = V("i", 3), V("j", 2), V("k", 1)
    terms = [i3, j2, k1, N(2, 4)]
    slices = []
    for start in (0, 1, 2):
        for stop in range(start + 1, 6):
            for step in (1, 2, 3):
                for dtype in (stop - 1, stop, stop + 2):
                    if dtype <= start:
                        continue
                    slices.append(["S", "i", start, stop, step, dtype])
    slices += [["S1", "i", 3], ["S2", "i", 1, 4], ["S3", "i", 1, 5, 2], ["S2", "j", 0, 2]]
    terms += slices
    ops_ = ("add", "mul", "mod", "max", "min", "lt", "eq")  # bounded-integer subtraction leaves the domain: not in the pool
    for op in ops_:
        terms.append(["B", op, i3, N(2, 3)])
        terms.append(["B", op, N(1, 2), i3] if op != "mod" else ["B", op, N(5, 6), ["B", "add", i3, N(1, 2)]])
        terms.append(["B", op, i3, j2] if op != "mod" else ["B", op, i3, ["B", "add", j2, N(1, 2)]])
        terms.append(["B", op, ["S", "i", 1, 6, 2, 7], j2] if op != "mod" else ["B", op, ["S", "i", 1, 6, 2, 7], N(2, 3)])
    terms.append(["U", "neg", i3])
    terms.append(["U", "neg", ["B", "add", i3, j2]])
    terms.append(["B", "add", ["B", "mul", i3, N(2, 3)], j2])
    terms.append(["B", "mod", ["B", "add", i3, j2], N(2, 3)])
    terms.append(["B", "add", ["T", ["i", "j"], [3, 2]], V("k", 2)])
    terms.append(["B", "mul", ["T", ["j"], [2]], i3])
    terms.append(["B", "sub", ["T", ["i"], [3]], i3])
    terms.append(["B", "add", ["T", ["j", "i"], [2, 3]], i3])
    terms.append(["I", [2, 0, 1], 3, i3])
    terms.append(["I", [2, 0, 1, 1], 3, ["B", "add", i3, j2]])
    terms.append(["I", [1, 0, 2, 2, 0, 1, 0], 3, ["S", "i", 1, 6, 2, 7]])
    terms.append(["I", [1, 0], 2, ["B", "lt", i3, j2]])
    terms.append(["I", [3, 1, 2, 0], 4, ["B", "mod", ["B", "mul", i3, N(3, 4)], N(4, 5)]])
    if tier == "thorough":
        for a in slices[:: 7]:
            for op in ("add", "mul", "mod"):
                b = ["S", "j", 0, 2, 1, 2] if op != "mod" else N(2, 3)
                terms.append(["B", op, a, b])
    return terms


def mat_cases(tier):
    return [["mat", t, it] for t in mat_pool(tier) for it in ("eager", "lazy")]


def ale_cases(tier):
    """Aligned lazy terms inside an enclosing expression (the eager rules that strip an Align wrapper)."""
    th = tier == "thorough"
    names = list(POOL)
    out = []
    for n in range(1, len(names) + 1):
        if th:
            orders = [list(o) for o in itertools.permutations(names, n)]
        else:  # quick: the sorted prefix and its reverse as source order, every permutation as request
            orders = [names[:n]] + ([names[:n][::-1]] if n > 1 else [])
        for order in orders:
            for req in itertools.permutations(order):
                for kind in LAZY_KINDS:
                    # quick: outside the Contraction kinds align() under lazy builds the same Align term as under eager
                    for it in (("eager", "lazy") if th or kind.startswith("contraction") else ("eager",)):
                        out.append(["ale", kind, order, list(req), it])
    return out


def cases(tier):
    return mat_cases(tier) + at_cases(tier) + rt_cases(tier) + al_cases(tier) + ale_cases(tier)


def describe(case):
    return json.dumps(case)


# ---------------------------------------------------------------------------
# funsor namespace (also the header of every stand-alone snippet)

HEADER = """\
import numpy as np
from collections import OrderedDict
import funsor
from funsor import ops, to_funsor, to_data
from funsor.domains import Array, Bint, Real, Reals
from funsor.tensor import Tensor, align_tensor, align_tensors
from funsor.terms import Variable, Number, Slice, Align
from funsor.interpretations import eager, lazy, reflect, normalize
from funsor.gaussian import Gaussian
from funsor.delta import Delta
from funsor.constant import Constant
funsor.set_backend("numpy")
"""
_NS = None


def ns():
    global _NS
    if _NS is None:
        _NS = {}
        exec(HEADER, _NS)
    return dict(_NS)


def run_src(src, env):
    """Execute generated source (the same text the stand-alone snippet shows) without its print lines."""
    exec("\n".join(l for l in src.split("\n") if not l.lstrip().startswith("print(")), env)


def arr_src(a):
    a = np.asarray(a)
    dt = "np.float64" if a.dtype.kind == "f" else "np.int64"
    if a.ndim == 0 or a.size == 0:
        return "np.array(%r, dtype=%s).reshape(%r)" % (a.reshape(-1).tolist(), dt, tuple(a.shape))
    return "np.array(%r, dtype=%s)" % (a.tolist(), dt)


def dom_src(d):
    if d[0] == "real":
        return "Reals[%r]" % (tuple(d[1]),) if tuple(d[1]) else "Real"
    return "Bint[%d]" % d[1]


def inputs_src(names, doms):
    return "OrderedDict([%s])" % ", ".join("(%r, %s)" % (n, dom_src(doms[n])) for n in names)


def tensor_src(var, arr, names, doms, dtype="real"):
    return "%s = Tensor(%s, %s, %r)" % (var, arr_src(arr), inputs_src(names, doms), dtype)


def point_src(p):
    """keyword arguments binding one point: integers as ints, reals as Tensors."""
    parts = []
    for k, v in p.items():
        if isinstance(v, np.ndarray) or isinstance(v, float):
            parts.append("%s=Tensor(%s)" % (k, arr_src(np.asarray(v, dtype=np.float64))))
        else:
            parts.append("%s=%d" % (k, int(v)))
    return ", ".join(parts)


def snippet(body, expected=""):
    s = HEADER + body.rstrip() + "\n"
    if expected:
        s += "# " + expected.replace("\n", "\n# ") + "\n"
    return s


def _viol(case, site, what, message, body, extra_features=None, transitions=1):
    f = {"family": case[0], "what": what}
    if extra_features:
        f.update(extra_features)
    return core.violation(json.dumps(case), site, what + ": " + message, case, f, snippet(body, message), transitions=transitions)


# ---------------------------------------------------------------------------
# family rt: to_funsor / to_data round trip


def batch_strides(shape, nb):
    """stride (in event blocks) of each batch dim of a C-ordered array of this shape."""
    st = [0] * nb
    acc = 1
    for d in range(nb - 1, -1, -1):
        st[d] = acc
        acc *= shape[d]
    return st


def ref_pack(shape, nb, d2n):
    """Reference of tensor_to_funsor: [(name, size, batch dim)] of the packed inputs, or None if not representable.

    d2n maps NEGATIVE dims, counted from the right end of the batch shape, to names."""
    packed = []
    for d in range(nb):
        size = shape[d]
        if size == 1:
            continue  # unit dims carry no information: dropped, named or not
        name = d2n.get(d - nb)
        if name is None:
            return None  # a non-unit batch dim without a name cannot be represented
        packed.append((name, size, d))
    return packed


def ref_unpack(xb, shape, nb, packed, n2d):
    """Reference of tensor_to_data: the array whose batch dim n2d[name] (negative) indexes `name`.

    xb is the source array reshaped to (number of batch cells,) + event shape.  Returns batch shape + event."""
    st = batch_strides(shape, nb)
    if not packed:
        return xb[0]
    m = max(-n2d[name] for name, _, _ in packed)
    eshape = [1] * m
    for name, size, d in packed:
        eshape[m + n2d[name]] = size
    flat = np.zeros(eshape, dtype=np.int64)  # flat[batch index] = position of the source cell: sum of index*stride
    for name, size, d in packed:
        along = [1] * m
        along[m + n2d[name]] = size
        flat = flat + (np.arange(size, dtype=np.int64) * st[d]).reshape(along)
    return xb[flat]


def strip_ones(bshape):
    bshape = list(bshape)
    while bshape and bshape[0] == 1:
        bshape.pop(0)
    return bshape


def same_layout(actual, expected, ne):
    """Equal up to leading size-1 batch dims (dims are addressed from the right)."""
    actual = np.asarray(actual)
    a_sh, e_sh = list(actual.shape), list(expected.shape)
    if ne:
        if a_sh[len(a_sh) - ne:] != e_sh[len(e_sh) - ne:] or len(a_sh) < ne:
            return False
        ab, eb = a_sh[: len(a_sh) - ne], e_sh[: len(e_sh) - ne]
        ev = e_sh[len(e_sh) - ne:]
    else:
        ab, eb, ev = a_sh, e_sh, []
    if strip_ones(ab) != strip_ones(eb):
        return False
    tgt = tuple(strip_ones(eb) + ev)
    return bool(np.array_equal(actual.reshape(tgt), expected.reshape(tgt)))


def rt_array(shape, dtype, seed):
    total = _prod(shape)
    if dtype == "real":
        return (np.arange(total, dtype=np.float64) + 0.25 * seed).reshape(shape), None
    return np.arange(total, dtype=np.int64).reshape(shape), max(total, 1)


def rt_x_src(shape, dtype, seed):
    total = _prod(shape)
    if dtype == "real":
        return "x = (np.arange(%d, dtype=np.float64) + %r).reshape(%r)" % (total, 0.25 * seed, tuple(shape))
    return "x = np.arange(%d, dtype=np.int64).reshape(%r)" % (total, tuple(shape))


def check_rt(case, seed):
    from funsor.domains import Array, Reals
    from funsor.tensor import Tensor
    from funsor import to_funsor, to_data

    key = json.dumps(case)
    if case[0] == "rt":
        _, shape, ev, dtype, named = case
        shape = [int(s) for s in shape]
        nb = len(shape) - ev
        d2n = {int(d) - nb: n for d, n in named}
        given_output = True
    else:
        _, shape, keyed = case
        shape = [int(s) for s in shape]
        dtype = "real"
        d2n = {int(k): n for k, n in keyed}
        nb = min(max(-k for k in d2n), len(shape))  # documented: leftmost key = leftmost dim of x
        ev = len(shape) - nb
        given_output = False
    evshape = tuple(shape[nb:])
    x, nint = rt_array(shape, dtype, seed)
    real = dtype == "real"
    output = Reals[evshape] if real else Array[nint, evshape]
    out_src = ("Reals[%r]" % (evshape,)) if real else "Array[%d, %r]" % (nint, evshape)
    if not given_output:
        out_src = "None"
    body = rt_x_src(shape, dtype, seed) + "\nf = to_funsor(x, %s, %r)\nprint(f.inputs, f.output, f.data.shape)\n" % (out_src, d2n)
    packed = ref_pack(shape, nb, d2n)
    feats = {"nb": nb, "ev": ev, "dtype": dtype, "named": len(d2n), "output_given": given_output}
    try:
        f = to_funsor(x, output if given_output else None, dict(d2n))
    except Exception as ex:
        tn = type(ex).__name__
        if packed is None:
            return core.decline(key, tn + ":unnamed-batch-dim-of-size>1")
        if not d2n and nb > 0:
            return core.decline(key, tn + ":no-names-given-for-unit-batch-dims")
        return _viol(case, "tensor_to_funsor", "raised", "every non-unit batch dim is named, expected inputs %s; raised %s: %s"
                     % ([(n, s) for n, s, _ in packed], tn, str(ex)[:120]), body, feats)
    if packed is None:
        return _viol(case, "tensor_to_funsor", "accepted-unnamed-dim",
                     "a batch dim of size != 1 has no name (ValueError expected); got inputs %s output %s"
                     % (dict(f.inputs), f.output), body, feats)
    # -- the packed funsor
    want_inputs = {n: s for n, s, _ in packed}
    if len(want_inputs) != len(packed):
        return core.skip(key, "duplicate-names")
    if not isinstance(f, Tensor):
        return core.decline(key, "result-not-a-Tensor:" + type(f).__name__)
    got_inputs = {}
    for n, d in f.inputs.items():
        dom = observe._dom_of(d)
        got_inputs[n] = dom[0] if dom and dom[1] == () else str(d)
    if got_inputs != want_inputs:
        return _viol(case, "tensor_to_funsor", "inputs", "expected inputs %s, got %s" % (want_inputs, got_inputs), body, feats)
    odom = observe._dom_of(f.output)
    if odom is None or odom[1] != evshape or (odom[0] == "real") != real or (not real and odom[0] != nint):
        return _viol(case, "tensor_to_funsor", "output", "expected output %s, got %s" % (output, f.output), body, feats)
    order = list(f.inputs)
    if tuple(f.data.shape) != tuple(want_inputs[n] for n in order) + evshape:
        return _viol(case, "tensor_to_funsor", "data-shape", "data shape %s does not match inputs %s + event %s"
                     % (f.data.shape, dict(f.inputs), evshape), body, feats)
    st = batch_strides(shape, nb)
    dim_of = {n: d for n, _, d in packed}
    xb = x.reshape((_prod(shape[:nb]),) + evshape)
    # value at every named point, read directly in .inputs order: cell position = sum of index * stride
    flat_all = np.zeros([want_inputs[n] for n in order], dtype=np.int64)
    for pos, n in enumerate(order):
        along = [1] * len(order)
        along[pos] = want_inputs[n]
        flat_all = flat_all + (np.arange(want_inputs[n], dtype=np.int64) * st[dim_of[n]]).reshape(along)
    npoints = int(flat_all.size)
    all_equal = bool(np.array_equal(np.asarray(f.data), xb[flat_all]))
    for idx in ([] if all_equal else itertools.product(*[range(want_inputs[n]) for n in order])):
        flat = sum(i * st[dim_of[n]] for n, i in zip(order, idx))
        if not np.array_equal(np.asarray(f.data[idx]), xb[flat]):
            point = dict(zip(order, idx))
            name_at = {d: n for n, _, d in packed}
            cell = [point[name_at[d]] if d in name_at else 0 for d in range(nb)]
            return _viol(case, "tensor_to_funsor", "value",
                         "at %s expected x%s = %s, funsor holds %s" % (point, cell, xb[flat].tolist(), np.asarray(f.data[idx]).tolist()),
                         body + "print(f(**%r))\n" % point, feats)
    # -- back to data: inverse map, then every injective placement on dims -1..-(k+1)
    ntrans = 1
    inv = {n: k for k, n in d2n.items()}
    names = [n for n, _, _ in packed]
    k = len(names)
    placements = [inv]
    for dims in itertools.permutations(range(1, k + 2 if k <= 4 else k + 1), k):
        placements.append({n: -d for n, d in zip(names, dims)})
    classes = set()
    for pi, n2d in enumerate(placements):
        b2 = body + "r = to_data(f, %r)\nprint(r.shape); print(r)\n" % (n2d,)
        f2 = dict(feats, inverse_map=pi == 0, k=k)
        try:
            r = to_data(f, dict(n2d))
        except Exception as ex:
            return _viol(case, "tensor_to_data", "raised", "valid name_to_dim %s raised %s: %s" % (n2d, type(ex).__name__, str(ex)[:120]), b2, f2)
        ntrans += 1
        if not isinstance(r, np.ndarray):
            r = np.asarray(r)
        exp = ref_unpack(xb, shape, nb, packed, n2d)
        if pi == 0:
            # the inverse map must give back x itself (up to leading unit dims)
            if not same_layout(r, x, ev):
                return _viol(case, "tensor_to_data", "round-trip", "to_data(to_funsor(x)) != x: shape %s vs %s, got %s"
                             % (r.shape, x.shape, r.tolist()), b2, f2)
        if not same_layout(r, exp, ev):
            return _viol(case, "tensor_to_data", "layout", "name_to_dim %s: expected shape %s array %s, got shape %s array %s"
                         % (n2d, exp.shape, exp.tolist(), r.shape, r.tolist()), b2, f2)
        classes.add(tuple(r.shape))
    units = sum(1 for s in shape[:nb] if s == 1)
    return core.ok(key, k >= 1, "%s:ok nb=%d k=%d units=%d ev=%d %s layouts=%d" % (case[0], nb, k, units, ev, dtype, len(classes)),
                   transitions=ntrans, counters={"rt_points": npoints, "rt_placements": len(placements)})


def check_rtg(case, seed):
    """numpy scalars (np.generic) are registered converters too."""
    from funsor import to_funsor, to_data
    from funsor.domains import Bint, Real

    key = json.dumps(case)
    _, kind, keyed = case
    d2n = {int(k): n for k, n in keyed}
    x = np.float64(2.5 + seed) if kind == "float64" else np.int64(3)
    output = Real if kind == "float64" else Bint[4]
    body = "x = np.%s(%r)\nf = to_funsor(x, %s, %r)\nprint(f, to_data(f))\n" % (kind, x.item(), "Real" if kind == "float64" else "Bint[4]", d2n)
    try:
        f = to_funsor(x, output, dict(d2n))
        r = to_data(f, {n: k for k, n in d2n.items()})
    except Exception as ex:
        return core.decline(key, type(ex).__name__ + ":numpy-scalar")
    if f.inputs or f.output != output:
        return _viol(case, "tensor_to_funsor", "inputs", "scalar became inputs %s output %s" % (dict(f.inputs), f.output), body)
    if np.asarray(r).shape != () or np.asarray(r).item() != x.item():
        return _viol(case, "tensor_to_data", "round-trip", "scalar %r came back as %r" % (x, r), body)
    return core.ok(key, False, "rtg:ok", transitions=2)


# ---------------------------------------------------------------------------
# family al: align


def _split(order):
    n = len(order)
    return order[: (n + 1) // 2], order[(n - 1) // 2:]


def al_build(kind, order, seed):
    """-> (source text defining x, domains {name: ("bint", size) | ("real", shape)}, ref(point) -> value, out_real)"""
    fill = lang.generic_fill
    if kind in TENSOR_KINDS:
        doms = {n: ("bint", POOL[n]) for n in order}
        bshape = tuple(POOL[n] for n in order)
        ev = {"tensor_e0": (), "tensor_e1": (2,), "tensor_e2": (2, 3), "tensor_bint": ()}[kind]
        if kind == "tensor_bint":
            total = _prod(bshape)
            A = ((np.arange(total, dtype=np.int64) * 5 + 3) % total).reshape(bshape)  # a permutation of 0..total-1
            src = tensor_src("x", A, order, doms, max(total, 1))
        else:
            A = fill(1, bshape + ev, seed)
            src = tensor_src("x", A, order, doms)
        return src, doms, (lambda p: A[tuple(p[n] for n in order)]), kind != "tensor_bint"
    if kind in LAZY_KINDS:
        doms = {n: ("bint", POOL[n]) for n in order}
        o1, o2 = _split(order)
        if kind == "unary":
            A = fill(1, tuple(POOL[n] for n in order), seed)
            src = tensor_src("t1", A, order, doms) + "\nwith lazy:\n    x = -t1\n"
            return src, doms, (lambda p: -A[tuple(p[n] for n in order)]), True
        if kind == "binvar":
            o1, last = order[:-1], order[-1]
            A = fill(1, tuple(POOL[n] for n in o1), seed)
            src = tensor_src("t1", A, o1, doms) + "\nwith lazy:\n    x = t1 * (Variable(%r, Bint[%d]) + Number(1, 2))\n" % (last, POOL[last])
            return src, doms, (lambda p: A[tuple(p[n] for n in o1)] * (p[last] + 1)), True
        if kind == "contraction_red":
            doms = dict(doms, r=("bint", 2))
            o1r, o2r = o1 + ["r"], ["r"] + o2
            A1 = fill(1, tuple(doms[n][1] for n in o1r), seed)
            A2 = fill(2, tuple(doms[n][1] for n in o2r), seed)
            src = tensor_src("t1", A1, o1r, doms) + "\n" + tensor_src("t2", A2, o2r, doms)
            src += "\nwith normalize:\n    x = (t1 * t2).reduce(ops.add, 'r')\n"
            del doms["r"]
            return src, doms, (lambda p: sum(A1[tuple(p[n] for n in o1) + (r,)] * A2[(r,) + tuple(p[n] for n in o2)] for r in range(2))), True
        A1 = fill(1, tuple(POOL[n] for n in o1), seed)
        A2 = fill(2, tuple(POOL[n] for n in o2), seed)
        src = tensor_src("t1", A1, o1, doms) + "\n" + tensor_src("t2", A2, o2, doms)
        if kind == "binary":
            src += "\nwith lazy:\n    x = t1 + t2\n"
            return src, doms, (lambda p: A1[tuple(p[n] for n in o1)] + A2[tuple(p[n] for n in o2)]), True
        if kind == "align2":
            src += "\nwith lazy:\n    x = (t1 + t2).align(%r)\n" % (tuple(reversed(order)),)
            return src, doms, (lambda p: A1[tuple(p[n] for n in o1)] + A2[tuple(p[n] for n in o2)]), True
        if kind == "contraction":
            src += "\nwith normalize:\n    x = t1 * t2\n"
            return src, doms, (lambda p: A1[tuple(p[n] for n in o1)] * A2[tuple(p[n] for n in o2)]), True
    if kind == "gaussian":
        doms = {n: GPOOL[n] for n in order}
        ints = [n for n in order if doms[n][0] == "bint"]
        reals = [n for n in order if doms[n][0] == "real"]
        bshape = tuple(doms[n][1] for n in ints)
        dim = sum(_prod(doms[n][1]) for n in reals)
        ps = np.tril(fill(3, bshape + (dim, dim), seed)) + 2.0 * np.eye(dim)
        wv = fill(4, bshape + (dim,), seed)
        src = "x = Gaussian(white_vec=%s, prec_sqrt=%s, inputs=%s)\n" % (arr_src(wv), arr_src(ps), inputs_src(order, doms))

        def ref(p):
            b = tuple(p[n] for n in ints)
            v = np.concatenate([np.reshape(np.asarray(p[n], dtype=np.float64), -1) for n in reals])
            res = v @ ps[b] - wv[b]
            return -0.5 * float(res @ res)

        ref.gauss = (ints, reals, ps, wv)
        return src, doms, ref, True
    if kind == "delta":
        doms = {"x": ("real", ()), "a": ("bint", 2), "b": ("bint", 3)}
        px = fill(5, (2, 3), seed)
        lx = fill(6, (3,), seed)
        py = fill(7, (2, 2), seed)
        tdoms = {"a": ("bint", 2), "b": ("bint", 3)}
        src = tensor_src("px", px, ["a", "b"], tdoms) + "\n" + tensor_src("lx", lx, ["b"], tdoms) + "\n"
        terms = {"x": "('x', (px, lx))"}
        if "y" in order:
            doms["y"] = ("real", (2,))
            src += tensor_src("py", py, ["a"], tdoms) + "\n"
            terms["y"] = "('y', (py, Number(0.5)))"
        src += "x = Delta((%s,))\n" % ", ".join(terms[n] for n in order)

        def ref(p):
            v = lx[p["b"]]
            if not np.array_equal(np.asarray(p["x"]), px[p["a"], p["b"]]):
                return -np.inf
            if "y" in order:
                if not np.array_equal(np.asarray(p["y"]), py[p["a"]]):
                    return -np.inf
                v = v + 0.5
            return v

        ref.delta = (px, py)
        return src, doms, ref, True
    if kind == "constant":
        doms = {"u": ("bint", 2), "v": ("real", ()), "a": ("bint", 2), "b": ("bint", 3)}
        corder, aorder = order[:2], order[2:]
        A = fill(8, tuple(doms[n][1] for n in aorder), seed)
        src = tensor_src("t1", A, aorder, doms) + "\nx = Constant(%s, t1)\n" % inputs_src(corder, doms)
        return src, doms, (lambda p: A[tuple(p[n] for n in aorder)]), True
    raise ValueError(kind)


def al_points(kind, doms, ref, seed):
    """The finite point set on which a term with these inputs is compared."""
    names = list(doms)
    ints = [n for n in names if doms[n][0] == "bint"]
    reals = [n for n in names if doms[n][0] == "real"]
    pts = []
    for idx in itertools.product(*[range(doms[n][1]) for n in ints]):
        base = dict(zip(ints, idx))
        if kind == "delta":
            px, py = ref.delta
            hit = {"x": np.array(px[base["a"], base["b"]])}
            if "y" in doms:
                hit["y"] = np.array(py[base["a"]])
            pts.append(dict(base, **hit))
            pts.append(dict(base, **dict(hit, x=hit["x"] + 1.0)))
            if "y" in doms:
                pts.append(dict(base, **dict(hit, y=hit["y"] + np.array([0.0, 1.0]))))
        elif reals:
            for j in range(2):
                rp = {n: lang.real_points(n, doms[n][1], seed, k=2)[j] for n in reals}
                pts.append(dict(base, **rp))
        else:
            pts.append(base)
    return pts


def gaussian_coeffs(order_ints, order_reals, doms, ps, wv, b):
    """(precision, info vector, constant) of one batch cell, keyed by (real name, element)."""
    labels = [(n, e) for n in order_reals for e in range(_prod(doms[n][1]))]
    P = ps[b] @ ps[b].T
    eta = ps[b] @ wv[b]
    c = float(wv[b] @ wv[b])
    return labels, P, eta, c


def check_al(case, seed):
    import funsor
    from funsor.tensor import Tensor
    from funsor.terms import Funsor

    key = json.dumps(case)
    _, kind, order, req, interp = case
    order, req = list(order), list(req)
    src, doms, ref, out_real = al_build(kind, order, seed)
    env = ns()
    try:
        run_src(src, env)
        x = env["x"]
    except Exception as ex:
        return core.decline(key, "build:" + type(ex).__name__)
    cls = type(x).__name__.split("[")[0]
    expect_cls = {"binary": "Binary", "unary": "Unary", "binvar": "Binary", "contraction": "Contraction",
                  "contraction_red": "Contraction", "gaussian": "Gaussian", "delta": "Delta", "constant": "Constant"}.get(kind)
    if kind in TENSOR_KINDS:
        expect_cls = "Tensor"
    if kind == "align2":
        expect_cls = "Align" if len(order) > 1 else "Binary"
    if cls != expect_cls:
        return core.skip(key, "built-%s-instead-of-%s" % (cls, expect_cls))
    if set(x.inputs) != set(doms):
        return core.skip(key, "source-inputs-differ-from-plan")
    src_order = list(x.inputs)
    names = tuple(req)
    call = "with %s:\n    r = x.align(%r)\nprint(type(r).__name__, tuple(r.inputs))\n" % (interp, names)
    body = src + "\n" + call
    feats = {"kind": kind, "cls": cls, "interp": interp, "n": len(doms), "full": len(req) == len(doms)}
    site = cls + ".align"
    try:
        with env[interp]:
            r = x.align(names)
    except Exception as ex:
        if cls == "Tensor":
            return _viol(case, site, "raised", "align(%r) of inputs %s raised %s: %s" % (names, src_order, type(ex).__name__, str(ex)[:120]), body, feats)
        return core.decline(key, "%s.align:%s" % (cls, type(ex).__name__))
    if not isinstance(r, Funsor):
        return core.decline(key, "align-returned-" + type(r).__name__)
    rcls = type(r).__name__.split("[")[0]
    got = list(r.inputs)
    # inputs: same set, same domains
    if set(got) != set(doms) or any(observe._dom_of(r.inputs[n]) != (doms[n][1] if doms[n][0] == "bint" else "real", () if doms[n][0] == "bint" else tuple(doms[n][1])) for n in got):
        return _viol(case, site, "inputs-changed", "inputs before %s, after %s" % (dict(x.inputs), dict(r.inputs)), body, feats)
    rest = [n for n in src_order if n not in req]
    full = len(req) == len(doms)
    if got == req + rest:
        oclass = "as-requested" if full else "names-first"
    elif [n for n in got if n in req] == req:
        oclass = "relative-order"
    else:
        oclass = "not-honoured"
    if full and got != req:
        return _viol(case, site, "order", "align(%r) returned a %s with inputs %s" % (names, rcls, got), body, feats)
    if not full and req:
        if cls in ("Tensor", "Gaussian") and oclass != "names-first":
            return _viol(case, site, "order", "align(%r) of inputs %s: expected %s, got %s" % (names, src_order, req + rest, got), body, feats)
        if cls == "Delta" and oclass == "not-honoured":
            return _viol(case, site, "order", "align(%r) of inputs %s: requested relative order lost: %s" % (names, src_order, got), body, feats)
    if cls == "Tensor":
        if not isinstance(r, Tensor):
            return core.decline(key, "Tensor.align-returned-" + rcls)
        ev = tuple(x.data.shape[len(x.inputs):])
        if tuple(r.data.shape) != tuple(doms[n][1] for n in got) + ev or r.output != x.output:
            return _viol(case, site, "data-shape", "inputs %s output %s but data shape %s" % (got, r.output, r.data.shape), body, feats)
    # Gaussian: read the coefficients directly
    ntrans = 1
    if cls == "Gaussian" and rcls == "Gaussian":
        ints, reals, ps, wv = ref.gauss
        r_ints = [n for n in got if doms[n][0] == "bint"]
        r_reals = [n for n in got if doms[n][0] == "real"]
        for idx in itertools.product(*[range(doms[n][1]) for n in ints]):
            p = dict(zip(ints, idx))
            lab0, P0, e0, c0 = gaussian_coeffs(ints, reals, doms, ps, wv, tuple(p[n] for n in ints))
            rb = tuple(p[n] for n in r_ints)
            try:
                lab1, P1, e1, c1 = gaussian_coeffs(r_ints, r_reals, doms, r.prec_sqrt, r.white_vec, rb)
            except Exception as ex:
                return _viol(case, site, "data-shape", "white_vec %s prec_sqrt %s unreadable with inputs %s: %s"
                             % (r.white_vec.shape, r.prec_sqrt.shape, got, ex), body, feats)
            if P1.shape != P0.shape:
                return _viol(case, site, "data-shape", "precision %s vs %s" % (P1.shape, P0.shape), body, feats)
            perm = [lab0.index(l) for l in lab1]
            okc = (observe.values_equal(P1, P0[np.ix_(perm, perm)], "real", 1e-6) and observe.values_equal(e1, e0[perm], "real", 1e-6)
                   and observe.values_equal(c1, c0, "real", 1e-6))
            if not okc:
                return _viol(case, site, "value", "batch cell %s: quadratic coefficients differ after align(%r)" % (p, names),
                             body, feats)
            ntrans += 1
    # values at every point
    pts = al_points(kind, doms, ref, seed)
    ndiff = 0
    for p in pts:
        want = ref(p)
        try:
            have = observe.ground(r, p)
        except observe.Decline as d:
            return core.decline(key, "%s:%s" % (rcls, str(d).split(":")[0] + ":" + str(d).split(":")[-1]))
        ntrans += 1
        if not observe.values_equal(have, want, "real" if out_real else 0, 1e-6 if cls == "Gaussian" else observe.RTOL):
            pp = {k: (v.tolist() if isinstance(v, np.ndarray) else v) for k, v in p.items()}
            return _viol(case, site, "value", "after align(%r) (source inputs %s, result %s %s) at %s: expected %s, got %s"
                         % (names, src_order, rcls, got, pp, np.asarray(want).tolist(), np.asarray(have).tolist()),
                         body + "print(r(%s), 'before align:', x(%s))\n" % (point_src(p), point_src(p)), feats)
    moved = got != src_order
    return core.ok(key, moved and len(pts) >= 2, "al:%s->%s:%s:%s" % (cls, rcls, oclass, "moved" if moved else "same"),
                   transitions=ntrans, counters={"al_points": len(pts), "al_order_" + oclass: 1})


# ---------------------------------------------------------------------------
# family ale: an aligned lazy term inside an enclosing expression
#   (code, site, reference(v, c, w) with v = value of x, c = value of the Tensor operand, w = value of the other
#    aligned term ry = (2*x).align(names))

ALE_EXPRS = [
    ("r - c", "Binary(Align,Funsor)", "sub", lambda v, c, w: v - c),
    ("c - r", "Binary(Funsor,Align)", "sub", lambda v, c, w: c - v),
    ("r / c", "Binary(Align,Funsor)", "truediv", lambda v, c, w: v / c),
    ("c / r", "Binary(Funsor,Align)", "truediv", lambda v, c, w: c / v),
    ("r < c", "Binary(Align,Funsor)", "lt", lambda v, c, w: float(v < c)),
    ("c < r", "Binary(Funsor,Align)", "lt", lambda v, c, w: float(c < v)),
    ("r - Number(1.5)", "Binary(Align,Funsor)", "sub", lambda v, c, w: v - 1.5),
    ("Number(1.5) - r", "Binary(Funsor,Align)", "sub", lambda v, c, w: 1.5 - v),
    ("Number(1.5) / r", "Binary(Funsor,Align)", "truediv", lambda v, c, w: 1.5 / v),
    ("r - ry", "Binary(Align,Align)", "sub", lambda v, c, w: v - w),
    ("ry / r", "Binary(Align,Align)", "truediv", lambda v, c, w: w / v),
    ("r < ry", "Binary(Align,Align)", "lt", lambda v, c, w: float(v < w)),
    ("-r", "Unary(Align)", "neg", lambda v, c, w: -v),
]


def check_ale(case, seed):
    from funsor.terms import Funsor

    key = json.dumps(case)
    _, kind, order, req, interp = case
    order, req = list(order), list(req)
    src, doms, ref, out_real = al_build(kind, order, seed)
    first = order[0]
    C = lang.generic_fill(11, (POOL[first],), seed)
    names = tuple(req)
    src += "\n" + tensor_src("c", C, [first], doms)
    src += "\nwith lazy:\n    y = x * Number(2.0)\nwith %s:\n    r = x.align(%r)\n    ry = y.align(%r)\n" % (interp, names, names)
    env = ns()
    try:
        run_src(src, env)
    except Exception as ex:
        return core.decline(key, "build:" + type(ex).__name__)
    r = env["r"]
    rcls = type(r).__name__.split("[")[0]
    inames = list(doms)
    pts = [dict(zip(inames, idx)) for idx in itertools.product(*[range(doms[n][1]) for n in inames])]
    vals = [float(ref(p)) for p in pts]
    ntrans, ncompared, counters = 0, 0, {}
    exprs = list(ALE_EXPRS) + [("r.reduce(ops.add, %r)" % first, "Reduce(Align)", "reduce-add", None)]
    for code_, site, opname, fn in exprs:
        feats = {"kind": kind, "interp": interp, "n": len(doms), "op": opname, "expr": code_, "aligned_cls": rcls}
        body = src + "e = %s\nprint(e)\n" % code_
        try:
            e = eval(code_, env)
        except Exception as ex:
            counters["ale_declined:" + type(ex).__name__] = counters.get("ale_declined:" + type(ex).__name__, 0) + 1
            continue
        if not isinstance(e, Funsor):
            counters["ale_declined:not-a-funsor"] = counters.get("ale_declined:not-a-funsor", 0) + 1
            continue
        if set(e.inputs) - set(doms):
            return _viol(case, site, "inputs-changed", "%s has inputs %s, the term has %s" % (code_, list(e.inputs), inames), body, feats)
        lazy_here = False
        for p, v in zip(pts, vals):
            if fn is None:
                if p[first] != 0:
                    continue
                want = sum(vals[i] for i, q in enumerate(pts) if all(q[n] == p[n] for n in inames if n != first))
                pp = {n: p[n] for n in inames if n != first}
            else:
                want = fn(v, float(C[p[first]]), 2.0 * v)
                pp = p
            try:
                have = observe.ground(e, pp)
            except observe.Decline as d:
                lazy_here = str(d)
                break
            ntrans += 1
            if not observe.values_equal(np.asarray(have, dtype=np.float64), np.float64(want), "real"):
                return _viol(case, site, "value", "with r = x.align(%r) (a %s), %s at %s: expected %s, got %s"
                             % (names, rcls, code_, pp, want, np.asarray(have).tolist()),
                             body + "print(e(%s))\n" % point_src(pp), feats)
        if lazy_here:
            k2 = "ale_declined:" + lazy_here.split(":")[0]
            counters[k2] = counters.get(k2, 0) + 1
        else:
            ncompared += 1
    if not ncompared:
        return core.decline(key, "no-enclosing-expression-grounded")
    counters["ale_expressions"] = ncompared
    return core.ok(key, rcls == "Align", "ale:%s:%s:%d-of-%d" % (kind, rcls, ncompared, len(exprs)), transitions=ntrans, counters=counters)


# ---------------------------------------------------------------------------
# family at: align_tensor / align_tensors


def at_tensor(var, lid, order, ev, seed, pool):
    doms = {n: ("bint", pool[n]) for n in order}
    A = lang.generic_fill(lid, tuple(pool[n] for n in order) + tuple(ev), seed)
    return tensor_src(var, A, order, doms), A


def _check_aligned(t, A, order, ev, inputs, sizes, expand):
    """-> None if array t is a correct broadcastable rendering of (A, order) against `inputs`, else (what, message)."""
    t = np.asarray(t)
    full = tuple(sizes[n] for n in inputs) + tuple(ev)
    try:
        bt = np.broadcast_to(t, full)
    except ValueError:
        return "not-broadcastable", "aligned data of shape %s (source inputs %s) does not broadcast to %s for inputs %s" % (t.shape, order, full, list(inputs))
    if t.ndim != len(full):
        return "rank", "aligned data of shape %s has rank != %d (inputs %s + event %s)" % (t.shape, len(full), list(inputs), list(ev))
    if expand and tuple(t.shape) != full:
        return "not-expanded", "expand=True but shape %s != %s" % (t.shape, full)
    for idx in itertools.product(*[range(sizes[n]) for n in inputs]):
        p = dict(zip(inputs, idx))
        want = A[tuple(p[n] for n in order)]
        if not np.array_equal(bt[idx], want):
            return "value", "at %s: expected source cell %s = %s, aligned data hold %s" % (p, [p[n] for n in order], np.asarray(want).tolist(), np.asarray(bt[idx]).tolist())
    return None


def check_at(case, seed):
    key = json.dumps(case)
    env = ns()
    pool = ATPOOL
    fam = case[0]
    if fam == "atn":
        _, new, expand = case
        src = "new_inputs = %s\nr = align_tensor(new_inputs, Number(2.5), expand=%r)\nprint(r)\n" % (inputs_src(new, {n: ("bint", pool[n]) for n in new}), bool(expand))
        try:
            run_src(src, env)
        except Exception as ex:
            return _viol(case, "align_tensor", "raised", "%s: %s" % (type(ex).__name__, str(ex)[:120]), src)
        r = env["r"]
        try:
            ok_ = bool(np.all(np.broadcast_to(np.asarray(r), tuple(pool[n] for n in new)) == 2.5))
        except ValueError:
            ok_ = False
        if not ok_:
            return _viol(case, "align_tensor", "value", "Number 2.5 aligned to %r" % (r,), src)
        return core.ok(key, False, "atn:ok", transitions=1)
    if fam == "at1":
        _, new, xo, ev, expand = case
        s1, A = at_tensor("x", 1, xo, ev, seed, pool)
        src = s1 + "\nnew_inputs = %s\nr = align_tensor(new_inputs, x, expand=%r)\nprint(r.shape); print(r)\n" % (
            inputs_src(new, {n: ("bint", pool[n]) for n in new}), bool(expand))
        try:
            run_src(src, env)
        except Exception as ex:
            return _viol(case, "align_tensor", "raised", "x inputs %s to %s: %s: %s" % (xo, new, type(ex).__name__, str(ex)[:120]), src,
                         {"expand": bool(expand)})
        bad = _check_aligned(env["r"], A, xo, ev, new, pool, expand)
        if bad:
            return _viol(case, "align_tensor", bad[0], bad[1], src, {"expand": bool(expand)})
        moved = [n for n in new if n in xo] != list(xo) or len(new) != len(xo)
        return core.ok(key, moved, "at1:ok perm=%d added=%d" % ([n for n in new if n in xo] != list(xo), len(new) - len(xo)),
                       transitions=1, counters={"at_points": _prod(pool[n] for n in new)})
    _, xo, yo, evx, evy, expand = case
    s1, A = at_tensor("x", 1, xo, evx, seed, pool)
    s2, B = at_tensor("y", 2, yo, evy, seed, pool)
    src = s1 + "\n" + s2 + "\ninputs, (tx, ty) = align_tensors(x, y, expand=%r)\nprint(inputs, tx.shape, ty.shape)\n" % bool(expand)
    try:
        run_src(src, env)
    except Exception as ex:
        return _viol(case, "align_tensors", "raised", "inputs %s and %s: %s: %s" % (xo, yo, type(ex).__name__, str(ex)[:120]), src,
                     {"expand": bool(expand)})
    inputs = env["inputs"]
    got = list(inputs)
    union = list(xo) + [n for n in yo if n not in xo]
    if sorted(got) != sorted(union) or any(observe._dom_of(inputs[n]) != (pool[n], ()) for n in got):
        return _viol(case, "align_tensors", "inputs", "joint inputs %s, expected names %s" % (dict(inputs), union), src, {"expand": bool(expand)})
    for var, arr, o, ev in (("tx", A, xo, evx), ("ty", B, yo, evy)):
        bad = _check_aligned(env[var], arr, o, ev, got, pool, expand)
        if bad:
            return _viol(case, "align_tensor", bad[0], "%s (%s of align_tensors, joint inputs %s)" % (bad[1], var, got), src,
                         {"expand": bool(expand), "via": "align_tensors"})
    moved = got != list(xo) or got != list(yo)
    return core.ok(key, moved, "at:ok order=%s nx=%d ny=%d" % ("first-seen" if got == union else "other", len(xo), len(yo)),
                   transitions=2, counters={"at_points": 2 * _prod(pool[n] for n in got)})


# ---------------------------------------------------------------------------
# family mat: materialize

_PYOPS = {
    "add": lambda a, b: a + b,
    "sub": lambda a, b: a - b,
    "mul": lambda a, b: a * b,
    "mod": lambda a, b: a % b,
    "max": max,
    "min": min,
    "lt": lambda a, b: int(a < b),
    "eq": lambda a, b: int(a == b),
}
_OPSRC = {"add": "+", "sub": "-", "mul": "*", "mod": "%", "lt": "<"}


def slice_args(t):
    """(start, stop, step, dtype) of a slice descriptor following Python slice conventions (as Slice documents)."""
    tag = t[0]
    if tag == "S":
        start, stop, step, dtype = t[2:6]
    elif tag == "S1":
        start, stop, step, dtype = 0, t[2], 1, t[2]
    elif tag == "S2":
        start, stop, step, dtype = t[2], t[3], 1, t[3]
    else:
        start, stop, step, dtype = t[2], t[3], t[4], t[3]
    return start, stop, step, dtype


def mat_inputs(t, acc=None):
    """Reference typing: ordered {name: size} of the free integer inputs."""
    acc = OrderedDict() if acc is None else acc
    tag = t[0]
    if tag == "V":
        acc.setdefault(t[1], t[2])
    elif tag in ("S", "S1", "S2", "S3"):
        start, stop, step, dtype = slice_args(t)
        acc.setdefault(t[1], len(range(start, min(dtype, max(start, stop)), step)))
    elif tag == "B":
        mat_inputs(t[2], acc)
        mat_inputs(t[3], acc)
    elif tag == "U":
        mat_inputs(t[2], acc)
    elif tag == "T":
        for n, s in zip(t[1], t[2]):
            acc.setdefault(n, s)
    elif tag == "I":
        mat_inputs(t[3], acc)
    return acc


def mat_den(t, p, seed):
    tag = t[0]
    if tag == "V":
        return p[t[1]]
    if tag == "N":
        return t[1]
    if tag in ("S", "S1", "S2", "S3"):
        start, stop, step, dtype = slice_args(t)
        return range(start, min(dtype, max(start, stop)), step)[p[t[1]]]
    if tag == "B":
        return _PYOPS[t[1]](mat_den(t[2], p, seed), mat_den(t[3], p, seed))
    if tag == "U":
        return -mat_den(t[2], p, seed)
    if tag == "T":
        A = lang.generic_fill(9, tuple(t[2]), seed)
        return A[tuple(p[n] for n in t[1])]
    if tag == "I":
        return t[1][mat_den(t[3], p, seed)]
    raise ValueError(tag)


def mat_src(t, seed):
    tag = t[0]
    if tag == "V":
        return "Variable(%r, Bint[%d])" % (t[1], t[2])
    if tag == "N":
        return "Number(%d, %d)" % (t[1], t[2])
    if tag == "S":
        return "Slice(%r, %d, %d, %d, %d)" % tuple(t[1:6])
    if tag in ("S1", "S2", "S3"):
        return "Slice(%r, %s)" % (t[1], ", ".join(str(v) for v in t[2:]))
    if tag == "B":
        a, b = mat_src(t[2], seed), mat_src(t[3], seed)
        if t[1] in _OPSRC:
            return "(%s %s %s)" % (a, _OPSRC[t[1]], b)
        if t[1] == "eq":
            return "(%s == %s)" % (a, b)
        return "ops.%s(%s, %s)" % (t[1], a, b)
    if tag == "U":
        return "(-%s)" % mat_src(t[2], seed)
    if tag == "T":
        A = lang.generic_fill(9, tuple(t[2]), seed)
        return "Tensor(%s, %s)" % (arr_src(A), inputs_src(t[1], {n: ("bint", s) for n, s in zip(t[1], t[2])}))
    if tag == "I":
        return "Tensor(%s, OrderedDict([('q', Bint[%d])]), %d)(q=%s)" % (arr_src(np.array(t[1], dtype=np.int64)), len(t[1]), t[2], mat_src(t[3], seed))
    raise ValueError(tag)


def mat_is_real(t):
    if t[0] == "T":
        return True
    if t[0] == "B":
        return mat_is_real(t[2]) or mat_is_real(t[3])
    if t[0] == "U":
        return mat_is_real(t[2])
    return False


def check_mat(case, seed):
    from funsor.tensor import Tensor
    from funsor.terms import Number

    key = json.dumps(case)
    _, t, interp = case
    src = "with %s:\n    x = %s\nm = Tensor(np.zeros(())).materialize(x)\nprint(x.inputs, x.output)\nprint(m)\n" % (interp, mat_src(t, seed))
    env = ns()
    try:
        run_src(src.split("m = ")[0], env)
        x = env["x"]
    except Exception as ex:
        return core.decline(key, "build:" + type(ex).__name__)
    ref_inputs = mat_inputs(t)
    real = mat_is_real(t)
    xcls = type(x).__name__.split("[")[0]
    feats = {"head": t[0] + (":" + t[1] if t[0] in ("B", "U") else ""), "interp": interp, "cls": xcls}
    try:
        m = env["Tensor"](np.zeros(())).materialize(x)
    except Exception as ex:
        return core.decline(key, "materialize:" + type(ex).__name__)
    mcls = type(m).__name__.split("[")[0]
    if not isinstance(m, (Tensor, Number)):
        return core.decline(key, "still-lazy:" + mcls)
    got = {n: observe._dom_of(d) for n, d in m.inputs.items()}
    want = {n: (s, ()) for n, s in ref_inputs.items()}
    if got != want:
        return _viol(case, "Tensor.materialize", "inputs", "expected inputs %s, materialised %s" % (dict(ref_inputs), dict(m.inputs)), src, feats)
    if tuple(m.output.shape) != ():
        return _viol(case, "Tensor.materialize", "output", "expected a scalar output, got %s" % (m.output,), src, feats)
    if isinstance(m, Tensor) and tuple(m.data.shape) != tuple(ref_inputs[n] for n in m.inputs):
        return _viol(case, "Tensor.materialize", "data-shape", "inputs %s but data shape %s" % (dict(m.inputs), m.data.shape), src, feats)
    npts = 0
    names = list(ref_inputs)
    for idx in itertools.product(*[range(ref_inputs[n]) for n in names]):
        p = dict(zip(names, idx))
        want_v = mat_den(t, p, seed)
        have = observe.ground(m, p)
        npts += 1
        if not observe.values_equal(np.asarray(have, dtype=np.float64), np.float64(want_v), "real"):
            return _viol(case, "Tensor.materialize", "value", "at %s: expected %s, materialised %s (x is a %s)" % (p, want_v, np.asarray(have).tolist(), xcls),
                         src + "print(m(**%r))\n" % p, feats)
        # the un-materialised term, bound point-wise, denotes the same function
        try:
            lazy_v = observe.ground(x, p)
        except observe.Decline:
            continue
        if not observe.values_equal(np.asarray(lazy_v, dtype=np.float64), np.float64(want_v), "real"):
            return _viol(case, "materialize-pool:pointwise-evaluation", "value", "x(**%s) = %s, reference %s" % (p, np.asarray(lazy_v).tolist(), want_v),
                         src + "print(x(**%r))\n" % p, feats)
    lazy_in = not isinstance(x, (Tensor, Number))
    return core.ok(key, lazy_in and npts >= 1, "mat:%s->%s:%s" % (xcls, mcls, "real" if real else "int"), transitions=1 + npts,
                   counters={"mat_points": npts})


# ---------------------------------------------------------------------------


def check(case, seed):
    fam = case[0]
    if fam in ("rt", "rtn"):
        return check_rt(case, seed)
    if fam == "rtg":
        return check_rtg(case, seed)
    if fam == "al":
        return check_al(case, seed)
    if fam == "ale":
        return check_ale(case, seed)
    if fam in ("at", "at1", "atn"):
        return check_at(case, seed)
    if fam == "mat":
        return check_mat(case, seed)
    raise ValueError(fam)
