"""C03 -- exact interpretations are interchangeable: deferred equals immediate; memoize.

For every L-term of the corpus and every *building configuration* (ordered nestings, depth <= 2, of
{lazy, reflect, normalize, memoize()}), the term is built through the public API under that configuration and then
reinterpreted eagerly with BOTH reinterpreters (recursion_reinterpret, stack_reinterpret called directly, and the
public reinterpret); and it is evaluated directly under sequential and moment_matching.  Every completed result must
have the output domain of the eagerly built term and the reference value table.  A second worker pool repeats a
reduced corpus with FUNSOR_TYPECHECK=1 FUNSOR_USE_TCO=1 (flags are read at import).  Memoize: repeated identical
builds inside one memoize() return the identical object; a shared cache over pairs of different terms never returns
a result computed for different arguments (each result is compared with its own reference).
"""
import itertools

from .. import core, gen, observe
from ..ref import lang

ID = "C03"
EXPLORE_FORKS = True
LEVEL_RULE = (
    "terms of L enumerated by level as in C01 (depth 2, pool pruned to the first term per (head, value kinds, output kind/rank)) "
    "x building configurations x reinterpreters; a case (term) is non-trivial when at least one deferred configuration "
    "completed and was compared at every defined point; distinct = distinct term text"
)
ASSUMPTIONS = [
    "numpy backend; reference denotation fv.ref.lang trusted",
    "oracle = reference table AND output domain of the eager build (when the eager build completes)",
    "a configuration that raises or leaves a lazy result is a decline",
]

FAMS = ("unary", "binary", "reduce", "subs", "binders", "einsum")
BASE = ("lazy", "reflect", "normalize", "memoize")


def configs(tier):
    one = [(a,) for a in BASE]
    two = [(a, b) for a in BASE for b in BASE if a != b]
    if tier != "thorough":
        # quick: every single context and every ordered pair that involves memoize()
        return one + [c for c in two if "memoize" in c]
    return one + two + [(a, b, c) for a in BASE for b in BASE for c in BASE if len({a, b, c}) == 3]


def bounds(tier):
    return {
        "depth": 2,
        "configs": ["/".join(c) for c in configs(tier)] + ["sequential", "moment_matching"],
        "reinterpreters": ["recursion_reinterpret", "stack_reinterpret", "reinterpret"],
        "env_pools": ["default", "FUNSOR_TYPECHECK=1 FUNSOR_USE_TCO=1"],
        "memoize_pairs_pool": 14,
    }


def term_cases(tier):
    if tier == "thorough":
        return gen.corpus(tier, families=FAMS, depth=2, coarse=2)
    terms = gen.corpus(tier, families=FAMS, depth=2, coarse=2)
    # quick: depth 1 complete, then every second depth-1 term and every fifth depth-2 term of the (already pruned) pool, in enumeration order
    n1 = len(gen.expand(gen.all_leaves(tier), gen.all_leaves(tier), tier, FAMS))
    return terms[:n1:2] + terms[n1::5]


def memo_pool():
    L = gen.leaves("quick")
    a, b, c = L["real"][1], L["real"][3], L["real"][4]
    x = L["var"][3]
    pool = [
        ("B", "add", a, b),
        ("B", "mul", a, b),
        ("B", "add", ("B", "mul", a, b), c),
        ("R", "add", ("B", "mul", a, b), (("i", 2),)),
        ("R", "logaddexp", ("B", "add", b, c), (("j", 3),)),
        ("B", "mul", ("B", "add", a, b), ("B", "add", a, b)),
        ("U", "exp", (), ("B", "add", a, b)),
        ("B", "sub", a, a),
        ("B", "mul", a, ("N", 0.0, "real")),
        ("B", "add", a, x),
        ("S", ("B", "add", a, x), (("x", ("N", 2.5, "real")),)),
        ("Lam", "i", 2, ("B", "mul", a, b)),
        ("R", "max", b, (("i", 2), ("j", 3))),
        ("B", "add", ("N", 0.0, "real"), ("N", 0.0, "real")),
    ]
    return pool


def subs_extras():
    """Simultaneous substitutions of SEVERAL names into sums / products whose operands mention only some of them."""
    T, N, V = gen.T, gen.N, gen.V
    ti, tj, tij, tjk, tk = T("i", lid=81), T("j", lid=82), T("ij", lid=83), T("jk", lid=84), T("k", lid=85)
    x, w = V("x", "real"), V("w", "real")
    bodies = [("B", "add", tij, tj), ("B", "mul", ti, tj), ("B", "add", ("B", "add", ti, tj), tij), ("B", "mul", ("B", "mul", tij, tj), tk),
              ("R", "add", ("B", "mul", tij, tjk), (("k", 2),)), ("R", "logaddexp", ("B", "add", ti, tjk), (("k", 2),)),
              ("B", "sub", ti, tj), ("U", "exp", (), ("B", "add", ti, tj)),
              ("B", "add", ("B", "mul", tij, x), ("B", "mul", tj, w)), ("B", "mul", ("B", "add", ti, x), tj)]
    maps = [(("i", N(1, 2)), ("j", N(2, 3))), (("j", N(0, 3)), ("i", N(0, 2))), (("i", V("f", 2)), ("j", N(1, 3))),
            (("i", N(1, 2)), ("j", V("g", 3))), (("i", T("k", dtype=2, contents=[1, 0])), ("j", N(2, 3))),
            (("x", N(2.5)), ("j", N(1, 3))), (("x", N(2.5)), ("w", N(0.5)), ("i", N(1, 2))), (("x", V("w", "real")), ("j", N(0, 3)), ("w", N(1.5)))]
    out = []
    for b in bodies:
        for m in maps:
            e = ("S", b, m)
            if lang.well_typed(e) and all(k in lang.ty(b).inputs for k, _ in m):
                out.append(e)
    # chained substitutions: the outer key names an input introduced by a VALUE of the inner substitution
    inner_vals = [T("k", dtype=2, contents=[1, 0]), V("k", 2), T("jk", dtype=2, contents=[0, 1, 1, 1, 0, 0])]
    outer = [(("k", N(1, 2)),), (("k", V("f", 2)),), (("k", T("m", dtype=2, contents=[1])),)]
    for b in [("U", "exp", (), tij), ("U", "exp", (), ("B", "add", ti, x)), ("B", "add", tij, tj), ("U", "neg", (), ("R", "add", tij, (("j", 3),))), tij]:
        for v in inner_vals:
            for o in outer:
                e = ("S", ("S", b, (("i", v),)), o)
                if lang.well_typed(e):
                    out.append(e)
    return out


def cases(tier):
    out = [["term", e] for e in gen.spines() + subs_extras() + term_cases(tier)]
    pool = memo_pool()
    for i, j in itertools.product(range(len(pool)), repeat=2):
        out.append(["memo", i, j])
    return out


def describe(case):
    if case[0] == "term":
        return lang.code(lang.tuplify(case[1]))
    return "memoize pair %s" % (case[1:],)


def _interp(name):
    import funsor.interpretations as I

    if name == "memoize":
        return I.memoize()
    return getattr(I, name)


def _build_under(e, seed, names, arrays=None):
    import contextlib

    with contextlib.ExitStack() as st:
        for n in names:
            st.enter_context(_interp(n))
        return lang.build(e, seed, arrays)


def _verdict(r, t, tbl, out_ref):
    kind, msg = observe.compare(r, t, tbl)
    if kind == "ok" and out_ref is not None and r.output != out_ref:
        return "violation:output-domain", "output %s, eager build has %s" % (r.output, out_ref)
    return kind, msg


def check_term(e, seed):
    from funsor import interpreter
    import funsor.interpretations as I

    key = repr(e)
    t, tbl = lang.table(e, seed)
    if all(v is None for _, v in tbl):
        return core.skip(key, "reference-undefined-everywhere")
    # immediate (eager) build: the object of comparison for the output domain
    out_ref = None
    eager_ok = False
    try:
        r_e = lang.build(e, seed)
        k_e, _ = observe.compare(r_e, t, tbl)
        if k_e == "ok":
            out_ref = r_e.output
            eager_ok = True
        elif k_e.startswith("violation"):
            # the eager build itself disagrees with the reference: that is C01's business; here only
            # deferred == immediate is decided, so compare with the eager result's own table instead
            return core.skip(key, "eager-disagrees-with-reference(C01)")
    except Exception:
        pass
    import os

    typecheck = os.environ.get("FUNSOR_TYPECHECK") == "1"
    n_cmp = 0
    counters = {}
    tier = os.environ.get("FV_TIER", "quick")
    for names in configs(tier):
        label = "/".join(names)
        try:
            L = _build_under(e, seed, names)
        except Exception as ex:
            counters["decline-build:" + type(ex).__name__] = counters.get("decline-build:" + type(ex).__name__, 0) + 1
            continue
        reint = [("reinterpret", interpreter.reinterpret)]
        if not typecheck:
            reint += [("recursion", interpreter.recursion_reinterpret), ("stack", interpreter.stack_reinterpret)]
        for rname, rf in reint:
            try:
                r = rf(L)
            except Exception as ex:
                counters["decline-reinterpret:" + type(ex).__name__] = counters.get("decline-reinterpret:" + type(ex).__name__, 0) + 1
                continue
            kind, msg = _verdict(r, t, tbl, out_ref)
            if kind.startswith("violation"):
                return _viol(e, seed, key, "%s+%s" % (label, rname), kind, msg, eager_ok)
            if kind == "ok":
                n_cmp += 1
            else:
                counters[kind.split(":")[0] + ":" + kind.split(":")[-1]] = counters.get(kind.split(":")[0] + ":" + kind.split(":")[-1], 0) + 1
    for label, interp in (("sequential", I.sequential), ("moment_matching", I.moment_matching)):
        try:
            with interp:
                r = lang.build(e, seed)
        except Exception as ex:
            counters["decline-build:" + type(ex).__name__] = counters.get("decline-build:" + type(ex).__name__, 0) + 1
            continue
        kind, msg = _verdict(r, t, tbl, out_ref)
        if kind.startswith("violation"):
            return _viol(e, seed, key, label, kind, msg, eager_ok)
        if kind == "ok":
            n_cmp += 1
    # identical object for repeated identical builds inside one memoize()
    if not typecheck:
        try:
            arrays = {}
            with I.memoize():
                a = lang.build(e, seed, arrays)
                b = lang.build(e, seed, arrays)
            if a is not b:
                return core.violation(
                    key, "memoize-identity", "two identical builds inside one memoize() returned different objects:\n  %s" % lang.code(e),
                    ["term", e], {"head": lang.head(e)}, lang.snippet(e, seed),
                )
            n_cmp += 1
        except Exception as ex:
            counters["decline-memoize:" + type(ex).__name__] = counters.get("decline-memoize:" + type(ex).__name__, 0) + 1
    if n_cmp == 0:
        return core.decline(key, "no-configuration-completed", counters=counters)
    return core.ok(key, True, "ok:" + lang.head(e), transitions=n_cmp, counters=counters)


def _int_unit_operand(e):
    """An integer-typed add/mul with a Number operand equal to the op's unit somewhere in the term."""
    for s in lang.subterms(e):
        if s[0] == "B" and s[1] in ("add", "mul") and lang.ty(s).out[0] != "real":
            unit = 0 if s[1] == "add" else 1
            if any(c[0] == "N" and c[1] == unit for c in (s[2], s[3])):
                return True
    return False


def _viol(e, seed, key, label, kind, msg, eager_ok):
    f = {"head": lang.head(e), "config": label, "what": kind.split(":", 1)[1], "eager_agrees_with_reference": eager_ok}
    from .c06 import _int_unit_operand as _unit6

    f["int_unit_operand"] = _int_unit_operand(e) or _unit6(e)
    f["normalize_in_config"] = "normalize" in label
    f["var_of_lambda"] = e[0] == "U" and e[1] == "var" and any(s_[0] == "Lam" for s_ in lang.subterms(e[3]))
    return core.violation(
        key,
        "deferred:" + label.split("+")[0],
        "%s under configuration %s: %s\n  term: %s" % (kind, label, msg, lang.code(e)),
        ["term", e],
        f,
        lang.snippet(e, seed, interpretation=label.split("+")[0].split("/")[0] if "memoize" not in label else None),
    )


def check_memo(i, j, seed):
    import funsor.interpretations as I

    pool = memo_pool()
    ea, eb = pool[i], pool[j]
    key = "memo:%d:%d" % (i, j)
    arrays = {}
    results = []
    try:
        with I.memoize() as cache:
            for e in (ea, eb, ea):
                results.append((e, lang.build(e, seed, arrays)))
    except Exception as ex:
        return core.decline(key, "raised:" + type(ex).__name__)
    # a user-supplied (initially empty) cache shared by two successive memoize() contexts
    try:
        user_cache = {}
        arrays2 = {}
        with I.memoize(user_cache):
            first = lang.build(ea, seed, arrays2)
        n_after_first = len(user_cache)
        with I.memoize(user_cache):
            second = lang.build(ea, seed, arrays2)
        from funsor.terms import Funsor

        if isinstance(first, Funsor) and lang.size(ea) > 1:
            if n_after_first == 0:
                return core.violation(key, "memoize-user-cache", "memoize(cache) left the user-supplied dict empty after building %s" % lang.code(ea), ["memo", i, j], {"pair": [i, j], "what": "cache-not-used"})
            if first is not second:
                return core.violation(key, "memoize-user-cache", "two memoize(cache) contexts sharing one user-supplied dict returned different objects for %s" % lang.code(ea), ["memo", i, j], {"pair": [i, j], "what": "identity-across-contexts"})
    except Exception as ex:
        return core.decline(key, "raised:" + type(ex).__name__)
    if results[0][1] is not results[2][1]:
        return core.violation(key, "memoize-identity", "rebuild of %s after %s under one memoize() is not the identical object" % (lang.code(ea), lang.code(eb)), ["memo", i, j], {"pair": [i, j]})
    for e, r in results:
        t, tbl = lang.table(e, seed)
        kind, msg = observe.compare(r, t, tbl)
        if kind.startswith("violation"):
            return core.violation(key, "memoize-stale", "memoized result for %s is wrong (%s %s) after building %s" % (lang.code(e), kind, msg, lang.code(ea)), ["memo", i, j], {"pair": [i, j], "what": kind.split(":", 1)[1]})
    return core.ok(key, i != j, "ok:memo", transitions=3)


def check(case, seed):
    if case[0] == "term":
        return check_term(lang.tuplify(case[1]), seed)
    return check_memo(case[1], case[2], seed)


def explore(tier, seed, rep):
    import os
    import sys

    os.environ["FV_TIER"] = tier
    mod = sys.modules[__name__]
    all_cases = cases(tier)
    core.run_cases(mod, tier, seed, rep, cases=all_cases)
    # second pool: type-checking interpreter + stack-free public reinterpret (flags read at import)
    reduced = [c for c in all_cases if c[0] == "term"][:: (8 if tier == "quick" else 2)]
    rep2 = core.Report(rep.pid, tier, seed)
    core.run_cases(mod, tier, seed, rep2, cases=reduced, env={"FUNSOR_TYPECHECK": "1", "FUNSOR_USE_TCO": "1"})
    rep.extra["typecheck_tco_pool"] = {
        "evaluations": rep2.evaluations,
        "ok": rep2.status["ok"],
        "decline": rep2.status["decline"],
        "violations": rep2.status["violation"],
        "selection": "every %d-th term of the enumeration order (a fixed stride, not sampling)" % (8 if tier == "quick" else 2),
    }
    # merge (keys of the second pool are prefixed so they do not collapse with the first)
    rep.merge(rep2)
